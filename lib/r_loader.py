"""Real-code runner for C18: the loader (generator.model), model equality, create_lsp_model, jsonschema, and main's wiring.

stdin: JSON {"op": ..., ...}; stdout: JSON.
  load     {"docs":[d,...]}                -> [{"ok":true,"dump":..,"readback":..} | {"ok":false,"exc":"TypeError","msg":".."}]
  create   {"groups":[[d,...],...]}        -> same shape, for create_lsp_model(group)
  eq       {"docs":[...],"pairs":[[i,j]..]}-> [1 True | 0 False | 2 raised | 3 a load failed | 9 non-bool], with {"exc":..} list beside
  jsv      {"docs":[...],"roots":[..]}     -> {"<root>":[bool,...]}    roots: "file" (the schema file as is), "MetaModel" ($ref root),
                                              "main" (the object main() hands to jsonschema.validate, captured)
  purity   {"groups":[[d,...],...]}        -> per group, on ONE in-memory copy of the documents: create twice, re-read the first model,
                                              load the first document alone, and report whether the input documents were modified
  capture  {"doc": d}                      -> what main() does, observed: schemas passed to jsonschema.validate, order of events
"""
import copy
import json
import os
import re
import sys
import tempfile

import attrs
import jsonschema

import generator.model as M

UUID = re.compile(r"^[0-9a-f]{8}-[0-9a-f]{4}-4[0-9a-f]{3}-[89ab][0-9a-f]{3}-[0-9a-f]{12}$")
SCHEMA_PATH = os.path.join(os.path.dirname(M.__file__), "lsp.schema.json")


def dump(v):
    if attrs.has(type(v)):
        return {"$c": type(v).__name__, "f": {a.name: dump(getattr(v, a.name)) for a in attrs.fields(type(v))}}
    if isinstance(v, dict):
        return {"$d": {k: dump(x) for k, x in v.items()}}
    if isinstance(v, (list, tuple)):
        return [dump(x) for x in v]
    if isinstance(v, str):
        return "$uuid" if UUID.match(v) else v
    if v is None or isinstance(v, (bool, int, float)):
        return v
    return {"$other": type(v).__name__}


def readback(v):
    """the model read back attribute by attribute: every attrs attribute except id_, None = absent"""
    if attrs.has(type(v)):
        r = {}
        for a in attrs.fields(type(v)):
            if a.name == "id_":
                continue
            x = getattr(v, a.name)
            if x is not None:
                r[a.name] = readback(x)
        return r
    if isinstance(v, dict):
        return {k: readback(x) for k, x in v.items()}
    if isinstance(v, (list, tuple)):
        return [readback(x) for x in v]
    return v


def guarded(f):
    try:
        m = f()
        return {"ok": True, "dump": dump(m), "readback": readback(m)}
    except Exception as e:      # noqa: BLE001 - every exception class is a "raise" of the loader
        return {"ok": False, "exc": type(e).__name__, "msg": str(e)[:300]}


def jsonable(v):
    """the input documents after loading: plain JSON, or a description of what is not JSON any more"""
    if isinstance(v, dict):
        return {k: jsonable(x) for k, x in v.items()}
    if isinstance(v, list):
        return [jsonable(x) for x in v]
    if v is None or isinstance(v, (bool, int, float, str)):
        return v
    return {"$not-json": type(v).__name__}


def purity(group):
    g = copy.deepcopy(group)
    r = {"ok": True}
    try:
        m1 = M.create_lsp_model(g)
        r["first"] = readback(m1)
        r["inputs_after_first"] = jsonable(g)
        m2 = M.create_lsp_model(g)
        r["second"] = readback(m2)
        r["first_reread"] = readback(m1)
        r["inputs_after_second"] = jsonable(g)
        alone = M.create_lsp_model([g[0]])
        r["first_document_alone"] = readback(alone)
        r["single_load_keeps_input"] = True
        for d in group:
            d1 = copy.deepcopy(d)
            M.LSPModel(**d1)
            if jsonable(d1) != d:
                r["single_load_keeps_input"] = False
    except Exception as e:      # noqa: BLE001
        r = {"ok": False, "exc": type(e).__name__, "msg": str(e)[:300]}
    return r


def captured_main(doc):
    """Run generator.__main__.main on one model file with a stub plugin; record what it does."""
    import generator.__main__ as G
    import c18_stub_plugin as stub
    events, schemas = [], []
    real_validate = jsonschema.validate
    real_create = M.create_lsp_model

    def validate(instance, schema, *a, **k):
        events.append("validate")
        schemas.append(copy.deepcopy(schema))
        return real_validate(instance, schema, *a, **k)

    def create(models):
        events.append("create")
        return real_create(models)
    stub.EVENTS = events
    with tempfile.TemporaryDirectory(dir=os.environ.get("VERIF_SCRATCH", "/var/tmp")) as d:
        p = os.path.join(d, "m.json")
        json.dump(doc, open(p, "w"))
        jsonschema.validate = validate
        G.jsonschema.validate = validate
        M.create_lsp_model = create
        err = None
        try:
            G.main(["--model", p, p, "--plugin", "c18_stub_plugin", "--output-dir", os.path.join(d, "o"), "--test-dir", os.path.join(d, "t")])
        except BaseException as e:      # noqa: BLE001
            err = type(e).__name__
        finally:
            jsonschema.validate = real_validate
            G.jsonschema.validate = real_validate
            M.create_lsp_model = real_create
        written = sorted(os.listdir(d))
    return {"events": events, "schemas": schemas, "error": err, "written": written}


def main():
    req = json.load(sys.stdin)
    op = req["op"]
    if op == "load":
        out = [guarded(lambda d=d: M.LSPModel(**copy.deepcopy(d))) for d in req["docs"]]
    elif op == "create":
        out = [guarded(lambda g=g: M.create_lsp_model(copy.deepcopy(g))) for g in req["groups"]]
    elif op == "eq":
        out, excs = [], []
        for i, j in req["pairs"]:
            try:
                a = M.LSPModel(**copy.deepcopy(req["docs"][i]))
                b = M.LSPModel(**copy.deepcopy(req["docs"][j]))
            except Exception as e:      # noqa: BLE001
                out.append(3); excs.append(type(e).__name__)
                continue
            try:
                r = a == b
                out.append(1 if r is True else 0 if r is False else 9); excs.append(None)
            except Exception as e:      # noqa: BLE001
                out.append(2); excs.append("%s: %s" % (type(e).__name__, str(e)[:120]))
        out = {"verdicts": out, "excs": excs}
    elif op == "jsv":
        schema = json.load(open(SCHEMA_PATH, "rb"))
        roots = {}
        for r in req["roots"]:
            if r == "file":
                roots[r] = schema
            elif r == "MetaModel":
                roots[r] = dict(schema, **{"$ref": "#/definitions/MetaModel"})
            elif r == "main":
                roots[r] = req["main_schema"]
        out = {}
        for r, s in roots.items():
            v = jsonschema.validators.validator_for(s)(s)
            out[r] = [v.is_valid(d) for d in req["docs"]]
    elif op == "purity":
        out = [purity(g) for g in req["groups"]]
    elif op == "capture":
        out = captured_main(req["doc"])
    else:
        raise SystemExit("unknown op " + op)
    json.dump(out, sys.stdout)


main()
