"""mmlib — Python-side view of a metamodel document: flattening, value generators (valid + single-edit malformed),
JSON -> Coq literal printers.  Independent of the generator's own code (it is the oracle side of the harness)."""
import json
import os

from vcommon import REPO, q

I32 = (-2**31, 2**31 - 1)


class MMView:
    def __init__(self, doc=None, path=None):
        if doc is None:
            doc = json.load(open(path or os.path.join(REPO, "generator", "lsp.json")))
        self.doc = doc
        self.S = {x["name"]: x for x in doc["structures"]}
        self.E = {x["name"]: x for x in doc["enumerations"]}
        self.A = {x["name"]: x for x in doc["typeAliases"]}

    def flat(self, n, acc=None, depth=0):
        """own, then extends, then mixins, depth first; first declaration of a name wins"""
        acc = acc if acc is not None else {}
        if depth > 12 or n not in self.S:
            return acc
        for p in self.S[n]["properties"]:
            acc.setdefault(p["name"], p)
        for e in self.S[n].get("extends", []) + self.S[n].get("mixins", []):
            if e["kind"] == "reference":
                self.flat(e["name"], acc, depth + 1)
        return acc

    @staticmethod
    def null_adm(t):
        return (t["kind"] == "or" and any(i["kind"] == "base" and i["name"] == "null" for i in t["items"])) or (t["kind"] == "base" and t["name"] == "null")

    def resolve_alias(self, t):
        while t["kind"] == "reference" and t["name"] in self.A and t["name"] not in ("LSPAny", "LSPArray"):
            t = self.A[t["name"]]["type"]
        return t

    # ------------------------------------------------------------------ deterministic values (alt / depth)
    BASEV = {"string": "s", "DocumentUri": "file:///a", "URI": "file:///a", "integer": 1, "uinteger": 1, "decimal": 1.5,
             "boolean": True, "null": None, "RegExp": ".*"}

    def value(self, t, depth=0, alt=0, maxdepth=2):
        """valid JSON value of type t: optionals included while depth<maxdepth; alt picks the union alternative"""
        k = t["kind"]
        if k == "base":
            return self.BASEV[t["name"]]
        if k == "reference":
            n = t["name"]
            if n in ("LSPAny", "LSPObject"):
                return {"k": [1, "x", None]}
            if n == "LSPArray":
                return [1]
            if n in self.S:
                return {pn: self.value(p["type"], depth + 1, alt, maxdepth) for pn, p in self.flat(n).items()
                        if (not p.get("optional")) or depth < maxdepth}
            if n in self.A:
                return self.value(self.A[n]["type"], depth + 1, alt, maxdepth)
            if n in self.E:
                vs = self.E[n]["values"]
                return vs[alt % len(vs)]["value"]
            raise KeyError(n)
        if k == "array":
            return [self.value(t["element"], depth + 1, alt, maxdepth)]
        if k == "map":
            return {self.value(t["key"], depth + 1, alt, maxdepth) if t["key"]["kind"] != "base" or t["key"]["name"] not in ("integer", "uinteger") else "1":
                    self.value(t["value"], depth + 1, alt, maxdepth)}
        if k == "or":
            its = [i for i in t["items"] if not (i["kind"] == "base" and i["name"] == "null")] or t["items"]
            return self.value(its[alt % len(its)], depth + 1, alt, maxdepth)
        if k == "tuple":
            return [self.value(i, depth + 1, alt, maxdepth) for i in t["items"]]
        if k == "literal":
            return {p["name"]: self.value(p["type"], depth + 1, alt, maxdepth) for p in t["value"]["properties"]
                    if (not p.get("optional")) or depth < maxdepth}
        if k in ("stringLiteral", "integerLiteral", "booleanLiteral"):
            return t["value"]
        if k == "and":
            r = {}
            for i in t["items"]:
                for kk, vv in self.value(i, depth + 1, alt, maxdepth).items():
                    r.setdefault(kk, vv)
            return r
        raise KeyError(k)

    # ------------------------------------------------------------------ random valid values
    def rand(self, t, rng, depth=0, maxdepth=3, p_opt=0.5):
        k = t["kind"]
        if k == "base":
            n = t["name"]
            if n == "string":
                return rng.choice(["", "a", "x y", "é中𐐀", "zz\"q\\"])
            if n in ("DocumentUri", "URI"):
                return rng.choice(["file:///a/b.py", "untitled:1", "file:///é"])
            if n == "RegExp":
                return ".*"
            if n == "integer":
                return rng.choice([I32[0], -1, 0, 1, I32[1], rng.randrange(I32[0], I32[1])])
            if n == "uinteger":
                return rng.choice([0, 1, I32[1], rng.randrange(0, I32[1])])
            if n == "decimal":
                return rng.choice([0.5, 1.0, 3, -2.25, 1e10, 0])
            if n == "boolean":
                return rng.random() < 0.5
            if n == "null":
                return None
            raise KeyError(n)
        if k == "reference":
            n = t["name"]
            if n == "LSPAny":
                return rng.choice([None, 1, "s", True, 1.5, [1, {"a": None}], {"k": [1, "x", None], "o": {"p": 1}}])
            if n == "LSPObject":
                return rng.choice([{}, {"k": 1}, {"a": {"b": [1, 2]}, "c": None}])
            if n == "LSPArray":
                return rng.choice([[], [1], [{"a": 1}, None, "x"]])
            if n in self.S:
                r = {}
                for pn, p in self.flat(n).items():
                    if (not p.get("optional")) or (depth < maxdepth and rng.random() < p_opt):
                        r[pn] = self.rand(p["type"], rng, depth + 1, maxdepth, p_opt)
                if rng.random() < 0.3:        # key order must not matter
                    items = list(r.items())
                    rng.shuffle(items)
                    r = dict(items)
                return r
            if n in self.A:
                return self.rand(self.A[n]["type"], rng, depth + 1, maxdepth, p_opt)
            if n in self.E:
                e = self.E[n]
                if e.get("supportsCustomValues") and rng.random() < 0.3:
                    return rng.choice(["custom.kind", "", "é"]) if e["type"]["name"] == "string" else rng.choice([0, 99, I32[1]] if e["type"]["name"] == "uinteger" else [-7, 99, I32[0]])
                return rng.choice(e["values"])["value"]
            raise KeyError(n)
        if k == "array":
            n = 0 if depth >= maxdepth + 1 else rng.choice([0, 1, 1, 2, 3])
            return [self.rand(t["element"], rng, depth + 1, maxdepth, p_opt) for _ in range(n)]
        if k == "map":
            r = {}
            for _ in range(rng.choice([0, 1, 2])):
                key = self.rand(t["key"], rng, depth + 1, maxdepth, p_opt)
                r[str(key) if not isinstance(key, str) else key] = self.rand(t["value"], rng, depth + 1, maxdepth, p_opt)
            return r
        if k == "or":
            its = t["items"]
            if depth >= maxdepth + 2:
                its = [i for i in its if i["kind"] in ("base", "stringLiteral")] or its
            return self.rand(rng.choice(its), rng, depth + 1, maxdepth, p_opt)
        if k == "tuple":
            return [self.rand(i, rng, depth + 1, maxdepth, p_opt) for i in t["items"]]
        if k == "literal":
            return {p["name"]: self.rand(p["type"], rng, depth + 1, maxdepth, p_opt) for p in t["value"]["properties"]
                    if (not p.get("optional")) or (depth < maxdepth and rng.random() < p_opt)}
        if k in ("stringLiteral", "integerLiteral", "booleanLiteral"):
            return t["value"]
        if k == "and":
            r = {}
            for i in t["items"]:
                for kk, vv in self.rand(i, rng, depth + 1, maxdepth, p_opt).items():
                    r.setdefault(kk, vv)
            return r
        raise KeyError(k)

    # ------------------------------------------------------------------ message envelopes
    def messages(self):
        """[(kind, entry)] for every request / notification"""
        return [("request", r) for r in self.doc["requests"]] + [("notification", n) for n in self.doc["notifications"]]


def ref(n):
    return {"kind": "reference", "name": n}


# ---------------------------------------------------------------------- Coq printers
def cj(j, sort=False):
    if j is None:
        return "JNull"
    if isinstance(j, bool):
        return "(JBool %s)" % str(j).lower()
    if isinstance(j, int):
        return "(JInt (%d))" % j
    if isinstance(j, float):
        n, d = j.as_integer_ratio()
        return "(JFlt (%d) (%d))" % (n, d)
    if isinstance(j, str):
        return "(JStr %s)" % q(j)
    if isinstance(j, (list, tuple)):
        return "(JArr [%s])" % "; ".join(cj(x, sort) for x in j)
    if isinstance(j, dict):
        ks = sorted(j) if sort else list(j)
        return "(JObj [%s])" % "; ".join("(%s, %s)" % (q(k), cj(j[k], sort)) for k in ks)
    raise TypeError(type(j))


def canon(j):
    if isinstance(j, dict):
        return {k: canon(j[k]) for k in sorted(j)}
    if isinstance(j, (list, tuple)):
        return [canon(x) for x in j]
    return j


def cty(t):
    """metamodel type (JSON) -> Coq ty term (same printer as x_mm)"""
    import x_mm
    return x_mm.ty(t)
