"""seedtest — evaluate a seeded change: confirm it (tests pass, demo fails with / passes without), run the named checks
against it in a scratch worktree, store it under /verif/seeded/<id>-<k>/ when confirmed.
usage: seedtest.py <seed-dir> [check ids ... (default: the property in meta.json)]"""
import json
import os
import shutil
import subprocess
import sys
import time

VERIF = os.path.dirname(os.path.dirname(os.path.abspath(__file__)))


def sh(cmd, cwd=None, timeout=3600, env=None):
    p = subprocess.run(cmd, shell=True, cwd=cwd, capture_output=True, text=True, timeout=timeout, env=env)
    return p.returncode, p.stdout + p.stderr


def main():
    sd = os.path.abspath(sys.argv[1])
    meta = json.load(open(os.path.join(sd, "meta.json")))
    prop = meta.get("property")
    checks = sys.argv[2:] or [prop]
    tag = "%s-%s%s" % (prop, os.environ.get("SEED_ROUND", ""), os.path.basename(sd))
    wt = "/var/tmp/seedwt-%s-%d" % (tag, os.getpid())
    res = {"seed": sd, "property": prop, "checks": {}}
    sh("git -C /repo worktree add --detach %s HEAD" % wt)
    try:
        demo = "demo.py" if os.path.exists(os.path.join(sd, "demo.py")) else "demo.sh"
        harmless = not os.path.exists(os.path.join(sd, demo))      # a behaviour-preserving refactoring: no demo, the checks must stay quiet
        res["harmless"] = harmless
        runner = "/venv/bin/python" if demo.endswith(".py") else "bash"
        rc0, out0 = (0, "") if harmless else sh("%s %s" % (runner, os.path.join(sd, demo)), cwd=wt, timeout=1800)
        res["demo_passes_without_change"] = rc0 == 0
        rc, out = sh("git apply %s" % os.path.join(sd, "patch.diff"), cwd=wt)
        res["patch_applies"] = rc == 0
        if rc != 0:
            res["apply_error"] = out[-500:]
            print(json.dumps(res, indent=1))
            return
        rc, out = sh("/venv/bin/python -m pytest -q -p no:cacheprovider --timeout=900 -x", cwd=wt, timeout=1800)
        res["tests_pass"] = rc == 0
        res["tests_tail"] = out[-200:]
        rc1, out1 = (1, "harmless: no demo") if harmless else sh("%s %s" % (runner, os.path.join(sd, demo)), cwd=wt, timeout=1800)
        res["demo_fails_with_change"] = rc1 != 0
        res["demo_tail"] = out1[-300:]
        sh("find %s -name __pycache__ -type d -exec rm -rf {} +" % wt)
        env = dict(os.environ, VERIF_REPO=wt)
        for c in checks:
            t0 = time.time()
            rc, out = sh("./check %s --tier quick" % c, cwd=VERIF, timeout=3600, env=env)
            lines = [l for l in out.split("\n") if l.startswith("VIOLATION")]
            res["checks"][c] = {"rc": rc, "violations": lines[:5], "wall_s": round(time.time() - t0, 1)}
            if lines:
                rp = lines[0].split("replay=")[1].split()[0]
                try:
                    r = json.load(open(rp))
                    res["checks"][c]["replay_kind"] = r.get("kind")
                    res["checks"][c]["replay_input"] = json.dumps(r.get("input"))[:400]
                    res["checks"][c]["broken"] = json.dumps(r.get("broken"))[:300]
                except Exception:
                    pass
        confirmed = res["tests_pass"] and res["demo_fails_with_change"] and res["demo_passes_without_change"]
        res["confirmed"] = confirmed
        if confirmed and not os.environ.get("SEED_NOSTORE"):
            dst = os.path.join(VERIF, "seeded", tag)
            os.makedirs(dst, exist_ok=True)
            for f in os.listdir(sd):
                shutil.copy(os.path.join(sd, f), dst)
            m = dict(meta)
            m["confirmed_by_coordinator"] = {k: res[k] for k in ("tests_pass", "demo_fails_with_change", "demo_passes_without_change")}
            m["what_was_run"] = "git worktree of /repo HEAD + git apply patch.diff; pytest (122 pass); demo on changed and clean tree; ./check <id> --tier quick with VERIF_REPO=<worktree>"
            m["checks"] = res["checks"]
            json.dump(m, open(os.path.join(dst, "meta.json"), "w"), indent=1)
    finally:
        sh("git -C /repo worktree remove --force %s" % wt)
        sh("rm -rf %s/build-*" % VERIF) if False else None
        import hashlib
        b = os.path.join(VERIF, "build-" + hashlib.sha1(os.path.realpath(wt).encode()).hexdigest()[:8])
        res["build_dir"] = b
        # keep replays for inspection in the result, then drop the build dir
        shutil.rmtree(b, ignore_errors=True)
    print(json.dumps(res, indent=1))


main()
