"""x_val — translate lsprotocol/validators.py (integer_validator, uinteger_validator) into the IR of coq/Val.v.

Grammar (fail-closed): module-level integer constants built from literals with ** - + * and unary minus;
def f(instance, attribute, value): a statement list of: docstrings, single-assignment locals (substituted), if/else, raise
ValueError(<f-string | helper(...) returning an f-string>), return <constant>, calls of module-level helper functions with the
same statement grammar (inlined).  The body is executed symbolically into a decision tree; the validator raises iff the
disjunction of its raising paths holds; all raising paths must carry the same message.
<cond>: isinstance(value, int), comparisons (also chained) over constants and `value`, not/and/or.
Cross-check at run time: the functions attrs fields refer to are these module functions (done by x_pkg via identity).
usage: x_val.py <out.v>
"""
import ast
import os
import sys

from vcommon import REPO, q, write_if_changed

CMPS = {ast.Lt: "CLt", ast.LtE: "CLe", ast.Gt: "CGt", ast.GtE: "CGe", ast.Eq: "CEq", ast.NotEq: "CNe"}


class Reject(Exception):
    pass


def main(out):
    path = os.path.join(REPO, "packages", "python", "lsprotocol", "validators.py")
    tree = ast.parse(open(path).read())
    consts = {}

    def aexp(e, value=None):
        if isinstance(e, ast.Constant) and isinstance(e.value, int) and not isinstance(e.value, bool):
            return "(AConst (%d))" % e.value
        if isinstance(e, ast.Name):
            if value is not None and e.id == value:
                return "AValue"
            if e.id in consts:
                return consts[e.id]
            raise Reject("unknown name " + e.id)
        if isinstance(e, ast.UnaryOp) and isinstance(e.op, ast.USub):
            return "(ANeg %s)" % aexp(e.operand, value)
        if isinstance(e, ast.BinOp) and type(e.op) in (ast.Pow, ast.Sub, ast.Add, ast.Mult):
            return "(%s %s %s)" % ({ast.Pow: "APow", ast.Sub: "ASub", ast.Add: "AAdd", ast.Mult: "AMul"}[type(e.op)], aexp(e.left, value), aexp(e.right, value))
        raise Reject("arithmetic outside grammar: " + ast.unparse(e))

    def bexp(e, value):
        if isinstance(e, ast.Call) and isinstance(e.func, ast.Name) and e.func.id == "isinstance" and len(e.args) == 2 \
                and isinstance(e.args[0], ast.Name) and e.args[0].id == value and isinstance(e.args[1], ast.Name) and e.args[1].id == "int":
            return "BIsInt"
        if isinstance(e, ast.Compare):
            parts, left = [], e.left
            for op, right in zip(e.ops, e.comparators):
                if type(op) not in CMPS:
                    raise Reject("comparison outside grammar: " + ast.unparse(e))
                parts.append("(BCmp %s %s %s)" % (CMPS[type(op)], aexp(left, value), aexp(right, value)))
                left = right
            r = parts[-1]
            for p in reversed(parts[:-1]):
                r = "(BAnd %s %s)" % (p, r)
            return r
        if isinstance(e, ast.UnaryOp) and isinstance(e.op, ast.Not):
            return "(BNot %s)" % bexp(e.operand, value)
        if isinstance(e, ast.BoolOp):
            op = "BAnd" if isinstance(e.op, ast.And) else "BOr"
            vals = [bexp(v, value) for v in e.values]
            r = vals[-1]
            for v in reversed(vals[:-1]):
                r = "(%s %s %s)" % (op, v, r)
            return r
        if isinstance(e, ast.Constant) and isinstance(e.value, bool):
            return "(BConst %s)" % str(e.value).lower()
        raise Reject("condition outside grammar: " + ast.unparse(e))

    import copy
    helpers = {n.name: n for n in tree.body if isinstance(n, ast.FunctionDef)}

    class Sub(ast.NodeTransformer):
        def __init__(self, env):
            self.env = env

        def visit_Name(self, node):
            if isinstance(node.ctx, ast.Load) and node.id in self.env:
                return copy.deepcopy(self.env[node.id])
            return node

    def sub(e, env):
        return Sub(env).visit(copy.deepcopy(e)) if env else e

    def band(a, b):
        if a == "(BConst true)":
            return b
        if b == "(BConst true)":
            return a
        if "(BConst false)" in (a, b):
            return "(BConst false)"
        return "(BAnd %s %s)" % (a, b)

    def bor(a, b):
        if a == "(BConst false)":
            return b
        if b == "(BConst false)":
            return a
        if "(BConst true)" in (a, b):
            return "(BConst true)"
        return "(BOr %s %s)" % (a, b)

    def bnot(a):
        return {"(BConst true)": "(BConst false)", "(BConst false)": "(BConst true)"}.get(a, "(BNot %s)" % a)

    def message_parts(m, inst, attr, value, depth=0):
        """parts of the ValueError message; the message may be built by a helper returning an f-string"""
        if isinstance(m, ast.Call) and isinstance(m.func, ast.Name) and m.func.id in helpers and not m.keywords and depth < 3:
            fn = helpers[m.func.id]
            params = [a.arg for a in fn.args.args]
            if len(params) != len(m.args):
                raise Reject("helper arity " + m.func.id)
            env = dict(zip(params, m.args))
            body = [st for st in fn.body if not (isinstance(st, ast.Expr) and isinstance(st.value, ast.Constant))]
            for st in body[:-1]:
                if isinstance(st, ast.Assign) and len(st.targets) == 1 and isinstance(st.targets[0], ast.Name):
                    env[st.targets[0].id] = sub(st.value, env)
                else:
                    raise Reject("helper body outside grammar: " + m.func.id)
            if not body or not isinstance(body[-1], ast.Return) or body[-1].value is None:
                raise Reject("helper body outside grammar: " + m.func.id)
            return message_parts(sub(body[-1].value, env), inst, attr, value, depth + 1)
        parts = []
        vals = m.values if isinstance(m, ast.JoinedStr) else [m]
        name_srcs = ("%s.name if hasattr(%s, 'name') else str(%s)" % (attr, attr, attr), "%s.name" % attr)
        for p_ in vals:
            if isinstance(p_, ast.Constant) and isinstance(p_.value, str):
                parts.append("MLit %s" % q(p_.value))
            elif isinstance(p_, ast.FormattedValue):
                src = ast.unparse(p_.value)
                if src in ("%s.__class__.__qualname__" % inst, "%s.__class__.__name__" % inst, "type(%s).__name__" % inst, "type(%s).__qualname__" % inst):
                    parts.append("MClass")
                elif src in name_srcs:
                    parts.append("MAttr")
                elif src == value:
                    parts.append("MValue")
                else:
                    try:
                        parts.append("MBound %s" % aexp(p_.value))
                    except Reject:
                        raise Reject("message part outside grammar: " + src)
            else:
                raise Reject("message part outside grammar")
        return parts

    def run_block(stmts, env, names, depth=0):
        """decision tree of a statement list: ('if', cond, T, F) | ('raise', is_ve, parts) | ('ret', is_true) | ('fall',)"""
        inst, attr, value = names
        stmts = [st for st in stmts if not (isinstance(st, ast.Expr) and isinstance(st.value, ast.Constant))]
        if not stmts:
            return ("fall",)
        st, rest = stmts[0], stmts[1:]
        if isinstance(st, ast.Assign) and len(st.targets) == 1 and isinstance(st.targets[0], ast.Name) and st.targets[0].id not in names:
            return run_block(rest, dict(env, **{st.targets[0].id: sub(st.value, env)}), names, depth)
        if isinstance(st, ast.If):
            c = bexp(sub(st.test, env), value)
            return ("if", c, run_block(list(st.body) + rest, env, names, depth), run_block(list(st.orelse) + rest, env, names, depth))
        if isinstance(st, ast.Return):
            v = sub(st.value, env) if st.value is not None else None
            if isinstance(v, ast.Call) and isinstance(v.func, ast.Name) and v.func.id in helpers:
                return call_helper(v, env, names, depth, [])
            return ("ret", isinstance(v, ast.Constant) and v.value is True)
        if isinstance(st, ast.Raise) and st.exc is not None:
            exc = sub(st.exc, env)
            is_ve = isinstance(exc, ast.Call) and isinstance(exc.func, ast.Name) and exc.func.id == "ValueError" and len(exc.args) == 1
            return ("raise", is_ve, message_parts(exc.args[0], inst, attr, value) if is_ve else [])
        if isinstance(st, ast.Expr) and isinstance(st.value, ast.Call) and isinstance(st.value.func, ast.Name) and st.value.func.id in helpers:
            return call_helper(sub(st.value, env), env, names, depth, rest)
        raise Reject("statement outside grammar: " + ast.unparse(st))

    def call_helper(call, env, names, depth, rest):
        """inline a helper that takes (instance, attribute, value, ...constants): its raise is the caller's raise, its return falls
        through to the caller's continuation (as an expression statement) or is the caller's return value"""
        if depth > 3 or call.keywords:
            raise Reject("helper call outside grammar: " + ast.unparse(call))
        fn = helpers[call.func.id]
        params = [a.arg for a in fn.args.args]
        if len(params) != len(call.args) or fn.decorator_list:
            raise Reject("helper arity " + call.func.id)
        henv = {}
        for prm, arg in zip(params, call.args):
            if isinstance(arg, ast.Name) and arg.id in names:
                if prm != arg.id:
                    henv[prm] = arg
            else:
                henv[prm] = arg
        t = run_block(fn.body, henv, names, depth + 1)

        def graft(tr):
            if tr[0] == "if":
                return ("if", tr[1], graft(tr[2]), graft(tr[3]))
            if tr[0] in ("ret", "fall") and rest is not None and rest != []:
                return run_block(rest, env, names, depth)
            return tr
        return graft(t)

    def raise_cond(tr):
        if tr[0] == "if":
            return bor(band(tr[1], raise_cond(tr[2])), band(bnot(tr[1]), raise_cond(tr[3])))
        return "(BConst true)" if tr[0] == "raise" else "(BConst false)"

    def leaves(tr):
        return leaves(tr[2]) + leaves(tr[3]) if tr[0] == "if" else [tr]

    rows = []
    for node in tree.body:
        if isinstance(node, ast.Assign) and len(node.targets) == 1 and isinstance(node.targets[0], ast.Name):
            consts[node.targets[0].id] = aexp(node.value)
        elif isinstance(node, ast.FunctionDef) and node.name in ("integer_validator", "uinteger_validator"):
            args = [a.arg for a in node.args.args]
            if len(args) != 3 or node.decorator_list:
                raise Reject("signature of " + node.name)
            tr = run_block(node.body, {}, tuple(args))
            lv = leaves(tr)
            raises = [l for l in lv if l[0] == "raise"]
            rets = [l for l in lv if l[0] != "raise"]
            if not raises or not rets:
                raise Reject("body shape of " + node.name + ": needs a raising and a returning path")
            if any(r[2] != raises[0][2] or r[1] != raises[0][1] for r in raises):
                raise Reject("different messages on different raising paths of " + node.name)
            ret_true = all(l[0] == "ret" and l[1] for l in rets)
            rows.append("Definition %s : validator := {| v_cond := %s; v_msg := [%s]; v_raises_valueerror := %s; v_ret_true := %s |}."
                        % (node.name, raise_cond(tr), "; ".join(raises[0][2]), str(bool(raises[0][1])).lower(), str(ret_true).lower()))
    if len(rows) != 2:
        raise Reject("expected exactly integer_validator and uinteger_validator")
    txt = ("(* generated by lib/x_val.py from packages/python/lsprotocol/validators.py — do not edit *)\n"
           "From LSP Require Import Base Sem Val.\nOpen Scope string_scope.\n" + "\n".join(rows) + "\n")
    write_if_changed(out, txt)
    print("ok")


if __name__ == "__main__":
    try:
        main(sys.argv[1])
    except Reject as e:
        print("REJECT: %s" % e)
        sys.exit(3)
