"""x_val — translate lsprotocol/validators.py (integer_validator, uinteger_validator) into the IR of coq/Val.v.

Grammar (fail-closed): module-level integer constants built from literals with ** - + * and unary minus;
def f(instance, attribute, value): [docstring] if <cond>: [name = attribute.name if hasattr(attribute,"name") else str(attribute)]
raise ValueError(<f-string or string>) ; return True
<cond>: isinstance(value, int), comparisons (also chained) over constants and `value`, not/and/or.
Cross-check at run time: the functions attrs fields refer to are these module functions (done by x_pkg via identity).
usage: x_val.py <out.v>
"""
import ast
import os
import sys

from vcommon import REPO, q, write_if_changed

CMPS = {ast.Lt: "CLt", ast.LtE: "CLe", ast.Gt: "CGt", ast.GtE: "CGe", ast.Eq: "CEq", ast.NotEq: "CNe"}


class Reject(Exception):
    pass


def main(out):
    path = os.path.join(REPO, "packages", "python", "lsprotocol", "validators.py")
    tree = ast.parse(open(path).read())
    consts = {}

    def aexp(e, value=None):
        if isinstance(e, ast.Constant) and isinstance(e.value, int) and not isinstance(e.value, bool):
            return "(AConst (%d))" % e.value
        if isinstance(e, ast.Name):
            if value is not None and e.id == value:
                return "AValue"
            if e.id in consts:
                return consts[e.id]
            raise Reject("unknown name " + e.id)
        if isinstance(e, ast.UnaryOp) and isinstance(e.op, ast.USub):
            return "(ANeg %s)" % aexp(e.operand, value)
        if isinstance(e, ast.BinOp) and type(e.op) in (ast.Pow, ast.Sub, ast.Add, ast.Mult):
            return "(%s %s %s)" % ({ast.Pow: "APow", ast.Sub: "ASub", ast.Add: "AAdd", ast.Mult: "AMul"}[type(e.op)], aexp(e.left, value), aexp(e.right, value))
        raise Reject("arithmetic outside grammar: " + ast.unparse(e))

    def bexp(e, value):
        if isinstance(e, ast.Call) and isinstance(e.func, ast.Name) and e.func.id == "isinstance" and len(e.args) == 2 \
                and isinstance(e.args[0], ast.Name) and e.args[0].id == value and isinstance(e.args[1], ast.Name) and e.args[1].id == "int":
            return "BIsInt"
        if isinstance(e, ast.Compare):
            parts, left = [], e.left
            for op, right in zip(e.ops, e.comparators):
                if type(op) not in CMPS:
                    raise Reject("comparison outside grammar: " + ast.unparse(e))
                parts.append("(BCmp %s %s %s)" % (CMPS[type(op)], aexp(left, value), aexp(right, value)))
                left = right
            r = parts[-1]
            for p in reversed(parts[:-1]):
                r = "(BAnd %s %s)" % (p, r)
            return r
        if isinstance(e, ast.UnaryOp) and isinstance(e.op, ast.Not):
            return "(BNot %s)" % bexp(e.operand, value)
        if isinstance(e, ast.BoolOp):
            op = "BAnd" if isinstance(e.op, ast.And) else "BOr"
            vals = [bexp(v, value) for v in e.values]
            r = vals[-1]
            for v in reversed(vals[:-1]):
                r = "(%s %s %s)" % (op, v, r)
            return r
        if isinstance(e, ast.Constant) and isinstance(e.value, bool):
            return "(BConst %s)" % str(e.value).lower()
        raise Reject("condition outside grammar: " + ast.unparse(e))

    rows = []
    for node in tree.body:
        if isinstance(node, ast.Assign) and len(node.targets) == 1 and isinstance(node.targets[0], ast.Name):
            consts[node.targets[0].id] = aexp(node.value)
        elif isinstance(node, ast.FunctionDef) and node.name in ("integer_validator", "uinteger_validator"):
            args = [a.arg for a in node.args.args]
            if len(args) != 3 or node.decorator_list:
                raise Reject("signature of " + node.name)
            inst, attr, value = args
            body = [s for s in node.body if not (isinstance(s, ast.Expr) and isinstance(s.value, ast.Constant))]
            if len(body) != 2 or not isinstance(body[0], ast.If) or body[0].orelse or not isinstance(body[1], ast.Return):
                raise Reject("body shape of " + node.name)
            ret_true = isinstance(body[1].value, ast.Constant) and body[1].value.value is True
            cond = bexp(body[0].test, value)
            inner = body[0].body
            name_var = None
            if len(inner) == 2 and isinstance(inner[0], ast.Assign) and len(inner[0].targets) == 1 and isinstance(inner[0].targets[0], ast.Name):
                src = ast.unparse(inner[0].value)
                if src not in ("%s.name if hasattr(%s, 'name') else str(%s)" % (attr, attr, attr), "%s.name" % attr):
                    raise Reject("name assignment outside grammar: " + src)
                name_var = inner[0].targets[0].id
                inner = inner[1:]
            if len(inner) != 1 or not isinstance(inner[0], ast.Raise) or inner[0].exc is None:
                raise Reject("raise shape of " + node.name)
            exc = inner[0].exc
            is_ve = isinstance(exc, ast.Call) and isinstance(exc.func, ast.Name) and exc.func.id == "ValueError"
            parts = []
            if is_ve and len(exc.args) == 1:
                m = exc.args[0]
                vals = m.values if isinstance(m, ast.JoinedStr) else [m]
                for p in vals:
                    if isinstance(p, ast.Constant) and isinstance(p.value, str):
                        parts.append("MLit %s" % q(p.value))
                    elif isinstance(p, ast.FormattedValue):
                        s = ast.unparse(p.value)
                        if s in ("%s.__class__.__qualname__" % inst, "%s.__class__.__name__" % inst, "type(%s).__name__" % inst, "type(%s).__qualname__" % inst):
                            parts.append("MClass")
                        elif (name_var and s == name_var) or s == "%s.name" % attr:
                            parts.append("MAttr")
                        elif s == value:
                            parts.append("MValue")
                        else:
                            try:
                                parts.append("MBound %s" % aexp(p.value))
                            except Reject:
                                raise Reject("message part outside grammar: " + s)
                    else:
                        raise Reject("message part outside grammar")
            rows.append("Definition %s : validator := {| v_cond := %s; v_msg := [%s]; v_raises_valueerror := %s; v_ret_true := %s |}."
                        % (node.name, cond, "; ".join(parts), str(is_ve).lower(), str(ret_true).lower()))
    if len(rows) != 2:
        raise Reject("expected exactly integer_validator and uinteger_validator")
    txt = ("(* generated by lib/x_val.py from packages/python/lsprotocol/validators.py — do not edit *)\n"
           "From LSP Require Import Base Sem Val.\nOpen Scope string_scope.\n" + "\n".join(rows) + "\n")
    write_if_changed(out, txt)
    print("ok")


if __name__ == "__main__":
    try:
        main(sys.argv[1])
    except Reject as e:
        print("REJECT: %s" % e)
        sys.exit(3)
