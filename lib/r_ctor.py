"""Real-code runner for C02: builds objects with the generated class CONSTRUCTORS (snake_case keyword arguments, the class
of a valid union alternative, enum members, tuples, floats at decimal positions) from metamodel-valid JSON values — no
parsing on the way in — then unstructures them, re-structures that output and unstructures again.
stdin: {"cases":[{"target": name, "kind": "struct"|"request"|"response"|"notification", "method":.., "input": json}], "model": path}
stdout: {"results":[{"ok":bool, "dump":.., "unstr":.., "restr_ok":bool, "unstr2":.., "err":..}]}"""
import json
import os
import sys

import attrs

from lsprotocol import converters
from lsprotocol import types as T

import mmlib
import strictpy
from r_conv import dump, fl

import conv_cfg
conv = conv_cfg.make_converter()
I32 = (-2**31, 2**31 - 1)


def isint(j):
    return isinstance(j, int) and not isinstance(j, bool)


class Builder:
    def __init__(self, mmv):
        self.mmv = mmv
        self.strict = strictpy.Strict(mmv)

    def valid(self, t, j):
        return self.strict.valid(t, j)

    def attr_of(self, cls, wire):
        for a in attrs.fields(cls):
            n = a.name[:-1] if a.name.endswith("_") else a.name
            parts = n.split("_")
            if parts[0] + "".join(p.title() for p in parts[1:]) == wire:
                return a
        raise KeyError("%s has no attribute for %s" % (cls.__name__, wire))

    def obj(self, cls, ps, j):
        kw = {}
        for k, v in j.items():
            a = self.attr_of(cls, k)
            kw[a.name] = self.build(ps[k]["type"], v, a.type)
        return cls(**kw)

    def lit_class(self, ann, keys):
        """the generated class for an anonymous literal: the attrs class among the annotation's members declaring all keys"""
        import typing
        stack, seen = [ann], []
        while stack:
            x = stack.pop()
            if isinstance(x, typing.ForwardRef):
                x = T.ALL_TYPES_MAP[x.__forward_arg__]
            if isinstance(x, type) and attrs.has(x):
                seen.append(x)
            stack.extend(a for a in typing.get_args(x) if a is not Ellipsis)
        for c in seen:
            names = set()
            for a in attrs.fields(c):
                n = a.name[:-1] if a.name.endswith("_") else a.name
                parts = n.split("_")
                names.add(parts[0] + "".join(p.title() for p in parts[1:]))
            if set(keys) <= names:
                return c
        raise KeyError("no literal class for %s in %r" % (sorted(keys), ann))

    def elem_ann(self, ann, kind):
        import collections.abc
        import typing
        for x in [ann] + list(typing.get_args(ann)):
            o = typing.get_origin(x)
            if kind == "seq" and o in (collections.abc.Sequence, list):
                return typing.get_args(x)[0]
            if kind == "dict" and o is dict:
                return typing.get_args(x)[1]
            if kind == "tuple" and o is tuple:
                return typing.get_args(x)
        return typing.Any

    def build(self, t, j, ann=None):
        k = t["kind"]
        m = self.mmv
        if k == "base":
            if t["name"] == "decimal" and j is not None:
                return float(j)
            return j
        if k == "reference":
            n = t["name"]
            if n in ("LSPAny", "LSPObject", "LSPArray"):
                return j
            if n in m.S:
                return self.obj(getattr(T, n), m.flat(n), j)
            if n in m.A:
                return self.build(m.A[n]["type"], j, ann)
            if n in m.E:
                e = getattr(T, n)
                try:
                    return e(j)
                except ValueError:
                    return j        # custom value of an open enumeration
        if k == "array":
            ea = self.elem_ann(ann, "seq")
            return [self.build(t["element"], x, ea) for x in j]
        if k == "map":
            ea = self.elem_ann(ann, "dict")
            return {kk: self.build(t["value"], v, ea) for kk, v in j.items()}
        if k == "tuple":
            eas = self.elem_ann(ann, "tuple")
            return tuple(self.build(a, x, (eas[i] if isinstance(eas, tuple) and i < len(eas) else None)) for i, (a, x) in enumerate(zip(t["items"], j)))
        if k == "or":
            for a in t["items"]:
                if self.valid(a, j):
                    return self.build(a, j, ann)
            raise ValueError("no valid alternative")
        if k == "literal":
            ps = {p["name"]: p for p in t["value"]["properties"]}
            if not ps:
                return j
            return self.obj(self.lit_class(ann, list(j)), ps, j)
        if k == "stringLiteral":
            return j
        if k == "and":
            ps = {}
            for i in t["items"]:
                for kk, vv in m.flat(i["name"]).items():
                    ps.setdefault(kk, vv)
            return self.obj(self.lit_class(ann, list(j)), ps, j)
        raise KeyError(k)


def main():
    req = json.load(sys.stdin)
    mmv = mmlib.MMView(path=req.get("model"))
    B = Builder(mmv)
    out = []
    for c in req["cases"]:
        try:
            cls = getattr(T, c["target"])
            j = c["input"]
            if c["kind"] == "struct":
                o = B.build(mmlib.ref(c["target"]), j)
            else:
                e = c["entry"]
                kw = {}
                fs = {a.name: a for a in attrs.fields(cls)}
                if "id" in j:
                    kw["id"] = j["id"]
                if "params" in j:
                    kw["params"] = B.build(e["params"], j["params"], fs["params"].type)
                if "result" in j:
                    kw["result"] = B.build(e["result"], j["result"], fs["result"].type)
                o = cls(**kw)       # method / jsonrpc take their defaults
            r = {"ok": True, "dump": dump(o)}
        except BaseException as ex:  # noqa
            out.append({"ok": False, "err": "%s: %s" % (type(ex).__name__, str(ex)[:200])})
            continue
        try:
            u = conv.unstructure(o, cls)
            r["unstr"] = fl(u)
            r["unstr_ok"] = True
            try:
                o2 = conv.structure(u, cls)
                r["unstr2"] = fl(conv.unstructure(o2, cls))
                r["restr_ok"] = True
            except BaseException as ex:  # noqa
                r["restr_ok"] = False
                r["err"] = "re-structuring: %s: %s" % (type(ex).__name__, str(ex)[:200])
        except BaseException as ex:  # noqa
            r["unstr_ok"] = False
            r["err"] = "unstructure: %s: %s" % (type(ex).__name__, str(ex)[:200])
        out.append(r)
    json.dump({"results": out}, sys.stdout)


if __name__ == "__main__":
    main()
