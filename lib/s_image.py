"""s_image — search on the real package for C04/C10/C12/C13: compares the imported lsprotocol.types (attrs metadata,
enum members, is_special_property) with the metamodel, independently of the Coq model. Prints JSON list of issues:
each {"class","property","what","expected","observed"}.  usage: s_image.py [model.json]"""
import collections
import collections.abc
import json
import os
import sys
import typing
from typing import Any, Dict, Optional, Sequence, Tuple, Union

import attrs

from lsprotocol import converters, validators
from lsprotocol import types as T

from vcommon import REPO

MM = json.load(open(sys.argv[1] if len(sys.argv) > 1 else os.path.join(REPO, "generator", "lsp.json")))
S = {x["name"]: x for x in MM["structures"]}
E = {x["name"]: x for x in MM["enumerations"]}
A = {x["name"]: x for x in MM["typeAliases"]}
converters.get_converter()
OPEN = {e["name"] for e in MM["enumerations"] if e.get("supportsCustomValues")} | {"CompletionItemKind"}


def flat(n, acc=None):
    acc = acc if acc is not None else {}
    for p in S[n]["properties"]:
        acc.setdefault(p["name"], p)
    for e in S[n].get("extends", []) + S[n].get("mixins", []):
        flat(e["name"], acc)
    return acc


def null_adm(t):
    return t["kind"] == "or" and any(i["kind"] == "base" and i["name"] == "null" for i in t["items"])


def camel(name):
    n = name[:-1] if name.endswith("_") else name
    p = n.split("_")
    return p[0] + "".join(x.title() for x in p[1:])


class Lit:
    def __init__(s, props):
        s.props = props


def py_of(t):
    k = t["kind"]
    if k == "base":
        return {"string": str, "DocumentUri": str, "URI": str, "integer": int, "uinteger": int, "decimal": float, "boolean": bool, "null": type(None)}[t["name"]]
    if k == "reference":
        n = t["name"]
        if n in E:
            e = getattr(T, n)
            return Union[e, str if E[n]["type"]["name"] == "string" else int] if n in OPEN else e
        return getattr(T, n)
    if k == "array":
        return Sequence[py_of(t["element"])]
    if k == "map":
        return Dict[py_of(t["key"]), py_of(t["value"])]
    if k == "or":
        return Union[tuple(py_of(i) for i in t["items"])]
    if k == "tuple":
        return Tuple[tuple(py_of(i) for i in t["items"])]
    if k == "stringLiteral":
        return str
    if k == "literal":
        return Any if not t["value"]["properties"] else Lit(t["value"]["properties"])
    raise KeyError(k)


def has_lit(x):
    return isinstance(x, Lit) or any(has_lit(a) for a in typing.get_args(x))


def deep_resolve(t):
    if isinstance(t, typing.ForwardRef):
        return deep_resolve(T.ALL_TYPES_MAP[t.__forward_arg__])
    o = typing.get_origin(t)
    if o is Union:
        return Union[tuple(deep_resolve(a) for a in typing.get_args(t))]
    if o is collections.abc.Sequence:
        return Sequence[deep_resolve(typing.get_args(t)[0])]
    if o is dict:
        return Dict[tuple(deep_resolve(a) for a in typing.get_args(t))]
    if o is tuple:
        return Tuple[tuple(deep_resolve(a) for a in typing.get_args(t))]
    return t


def vk(v):
    if v is None:
        return None
    n = type(v).__name__
    if n == "_OptionalValidator":
        return ["opt", vk(v.validator)]
    if v is validators.integer_validator:
        return "int"
    if v is validators.uinteger_validator:
        return "uint"
    if n == "_InstanceOfValidator":
        return v.type.__name__ if isinstance(v.type, type) else [getattr(x, "__name__", repr(x)) for x in v.type]
    if n == "_InValidator":
        return ["in", list(v.options)]
    return repr(v)


def exp_vk(t, opt):
    b = None
    if t["kind"] == "base":
        b = {"integer": "int", "uinteger": "uint", "string": "str", "DocumentUri": "str", "URI": "str", "boolean": "bool", "decimal": "float"}.get(t["name"])
    if t["kind"] == "stringLiteral":
        return ["in", [t["value"]]]
    return ["opt", b] if (opt and b) else b


issues = []


def issue(c, p, what, exp=None, obs=None):
    issues.append({"class": c, "property": p, "what": what, "expected": str(exp)[:200], "observed": str(obs)[:200]})


def check_class(sname, C, ps):
    """one class against a (flattened / merged) property dict"""
    fs = {camel(a.name): a for a in attrs.fields(C)}
    for x in set(ps) - set(fs):
        issue(sname, x, "missing attribute")
    for x in set(fs) - set(ps):
        issue(sname, x, "extra attribute")
    for name, p in ps.items():
        if name not in fs:
            continue
        a = fs[name]
        opt = bool(p.get("optional")) or null_adm(p["type"])
        lit = p["type"]["kind"] == "stringLiteral"
        if (a.default is attrs.NOTHING) != (not opt and not lit):
            issue(sname, name, "required", not opt and not lit, a.default is attrs.NOTHING)
        if lit and a.default != p["type"]["value"]:
            issue(sname, name, "literal default", p["type"]["value"], a.default)
        if opt and not lit and a.default is not None:
            issue(sname, name, "optional default", None, a.default)
        et = py_of(p["type"])
        if not has_lit(et):
            et = deep_resolve(Optional[et] if opt else et)
            if et != a.type:
                issue(sname, name, "annotation", et, a.type)
        if vk(a.validator) != exp_vk(p["type"], opt):
            issue(sname, name, "validator", exp_vk(p["type"], opt), vk(a.validator))
        if T.is_special_property(C, a.name) != (lit or null_adm(p["type"])):
            issue(sname, name, "special", lit or null_adm(p["type"]), T.is_special_property(C, a.name))


for sname in S:
    if sname == "LSPObject":
        continue
    C = getattr(T, sname, None)
    if C is None or not attrs.has(C):
        issue(sname, "", "missing class")
        continue
    check_class(sname, C, flat(sname))


def and_props(items):
    acc = {}
    for i in items:
        if i["kind"] == "reference" and i["name"] in S:
            for n, p in flat(i["name"]).items():
                acc.setdefault(n, p)
        elif i["kind"] == "literal":
            for p in i["value"]["properties"]:
                acc.setdefault(p["name"], p)
    return acc


# anonymous 'and' / literal types used only by messages (registration options, params): the class METHOD_TO_TYPES names for them
for msg in MM["requests"] + MM["notifications"]:
    row = getattr(T, "METHOD_TO_TYPES", {}).get(msg["method"])
    for key, idx in (("registrationOptions", 3), ("params", 2)):
        t = msg.get(key)
        if not isinstance(t, dict) or t["kind"] not in ("and", "literal"):
            continue
        ps = and_props(t["items"]) if t["kind"] == "and" else {p["name"]: p for p in t["value"]["properties"]}
        if not ps:
            continue
        C = row[idx] if row else None
        if not (isinstance(C, type) and attrs.has(C)):
            issue(msg["method"], key, "no attrs class for the anonymous %s type" % t["kind"], None, C)
            continue
        check_class("%s (%s of %s)" % (C.__name__, key, msg["method"]), C, ps)
for en, e in E.items():
    C = getattr(T, en, None)
    if C is None:
        issue(en, "", "missing enum")
    elif [v["value"] for v in e["values"]] != [v.value for v in C.__members__.values()]:
        issue(en, "", "enum values", [v["value"] for v in e["values"]], [v.value for v in C.__members__.values()])
for an in A:
    if not hasattr(T, an):
        issue(an, "", "missing alias")
print(json.dumps(issues))
