"""Writes MANIFEST.json from the table below (single source of truth for what is claimed)."""
import json, os
HERE = os.path.dirname(os.path.dirname(os.path.abspath(__file__)))
CHECKS = {
 "C20": dict(cat="proof", tech="Coq proof over methods translated from types.py (x_pos) under a model of CPython rich comparison + total_ordering; vm_compute correspondence with the real classes",
             text="Theorems for ALL integers/strings (no grid): six operators agree with lexicographic comparison, trichotomy, Range/Location equality iff components equal, unrelated operands give == False and TypeError, reprs. Re-proved on every run against the methods as translated from the current types.py.",
             note="Trusted: Coq kernel+VM; translator x_pos (AST, fail-closed, run-time origin check of each comparison method); hand model of CPython comparison protocol/total_ordering/f-strings validated by differential runs; str(int) uninterpreted. Axioms: none (Print Assumptions: closed).",
             ref="6/C20"),
}
ALL = ["C%02d" % i for i in range(1, 21)]
def main():
    checks = []
    for pid in ALL:
        if pid not in CHECKS: continue
        c = CHECKS[pid]
        checks.append({"property_id": pid, "quick_cmd": "./check %s --tier quick" % pid, "thorough_cmd": "./check %s --tier thorough" % pid,
                       "evidence_file": "/verif/evidence/%s.json" % pid, "replay_cmd_template": "./check %s --replay {path}" % pid,
                       "engine": "coq", "level_claimed": {"category": c["cat"], "text": c["text"], "design_ref": c["ref"]},
                       "level_note": c["note"], "technique": c["tech"]})
    m = {"version": 1,
         "setup_cmd": "cd /verif/coq && coq_makefile -f _CoqProject -o Makefile > /dev/null && timeout 3000 make -j16 -s",
         "hooks": {"guard": "LSPROTOCOL_VERIF", "enable": "no source hook is needed; checks set LSPROTOCOL_VERIF=1 anyway", 
                   "baseline_off_cmd": "cd /repo && /venv/bin/python -m pytest -ra -q -p no:cacheprovider --timeout=900 --continue-on-collection-errors",
                   "source_commits": [], "add_only": True},
         "engines": [{"name": "coq", "path": "/verif/coq", "serves_properties": sorted(CHECKS), "kind_free_text": "Coq 8.16.1 theory (hand-written models + generic theorems) + per-run regenerated data and property files under build/, driven by ./check"}],
         "checks": checks,
         "not_applicable": [{"property_id": p, "reason": "check under construction in this round: no claim yet (technique applies; see DESIGN.md section 6)"} for p in ALL if p not in CHECKS],
         "notes": "Driver: ./check <id> [--tier quick|thorough] [--replay file]. Known findings: /verif/known_findings.txt."}
    json.dump(m, open(os.path.join(HERE, "MANIFEST.json"), "w"), indent=1)
main()
