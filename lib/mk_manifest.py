"""Writes MANIFEST.json from the table below (single source of truth for what is claimed)."""
import json, os
HERE = os.path.dirname(os.path.dirname(os.path.abspath(__file__)))
CHECKS = {
 "C20": dict(cat="proof", tech="Coq proof over methods translated from types.py (x_pos) under a model of CPython rich comparison + total_ordering; vm_compute correspondence with the real classes",
             text="Theorems for ALL integers/strings (no grid): six operators agree with lexicographic comparison, trichotomy, Range/Location equality iff components equal, unrelated operands give == False and TypeError, reprs. Re-proved on every run against the methods as translated from the current types.py.",
             note="Trusted: Coq kernel+VM; translator x_pos (AST, fail-closed, run-time origin check of each comparison method); hand model of CPython comparison protocol/total_ordering/f-strings validated by differential runs; str(int) uninterpreted. Axioms: none (Print Assumptions: closed).",
             ref="6/C20"),
 "C04": dict(cat="proof", tech="Coq: kernel-evaluated image checker W_img over tables regenerated from lsp.json and the imported package, with proved reflection lemmas (ImageThy) and forall-metamodel lemmas on flattening",
             text="Ground theorem W_img mm Sg = true (vm_compute, exhaustive over every structure / flattened property / enumeration value / alias of the current tree, both directions), whose meaning is given by proved reflection lemmas (C04_structures: one attribute per flattened property satisfying FieldSpec, nothing extra); plus lemmas for every metamodel: flattened names unique, own declaration wins.",
             note="Trusted: Coq kernel+VM; translators x_mm, x_pkg (introspection of the imported module incl. cattrs overrides); the specification functions py_of/expected_* of Image.v are the pinned reading of 'documented mapping'. Search: s_image.py compares real attrs metadata with the metamodel independently. Axioms: none.",
             ref="6/C04"),
 "C12": dict(cat="proof", tech="Coq proof over validator bodies translated from validators.py (all Z, all pv) + instance table of integer properties + model/real correspondence and boundary-grid search at both entry points",
             text="For ALL ints the translated validators accept exactly [-2^31,2^31-1] / [0,2^31-1]; for ALL model values they return True or raise ValueError naming class and attribute; the converter model's range test is proved equal to the translated validators; every integer-typed flattened property carries the right validator (instance, exhaustive); constructor and converter verdicts are proved equal to the range test for every such property and every int.",
             note="Trusted: Coq kernel+VM; translators x_val (AST), x_mm, x_pkg; model of Python numeric comparison / short-circuit in Val.v (validated on a value palette against the real functions); universe of 'any argument' is pv. Axioms: none.",
             ref="6/C12"),
 "C08": dict(cat="proof", tech="Coq: kernel-evaluated checker dotnet_ok over the .cs files emitted by the dotnet plugin of the current tree, with proved soundness theorem dotnet_ok_spec; independent regex search as replay source",
             text="Ground obligation C08_generated : dotnet_ok mm files = true (vm_compute) over the fresh plugin output, exhaustive over all structures / flattened properties / enumerations / 95 methods / ~655 files, read through the proved generic soundness theorem dotnet_ok_spec (for every metamodel and file list): member per flattened property with exact wire name, mapped type, nullable/Ignore rules, constructor assignment, enum values, method strings, request/response pairing, directions.",
             note="Trusted: Coq kernel+VM; translators x_mm, x_cs (tokeniser, fail-closed); specification choices in Dotnet.v (cs_of, collections exemption, _-prefix skip rule, DataContract requirement, LSPMethods reading for notification methods); Newtonsoft/DataContract attribute semantics as documented; no C# compiler run. Axioms: none.",
             ref="6/C08"),
 "C07": dict(cat="proof", tech="Coq: kernel-evaluated checker rust_ok over lib.rs (fresh plugin output AND committed file) tokenised by x_rs, with proved soundness theorem rust_ok_spec; independent regex search must agree",
             text="Ground obligations rust_ok mm items = true (vm_compute, exhaustive over all structs/fields/enums/variants/aliases/method-enum variants) for the rust plugin's fresh output and for the committed lib.rs; meaning given by the proved generic theorem rust_ok_spec (serde names = flattened names, type = rs_of, Option iff optional or null-admitting, enum discriminants, untagged or-aliases, method renames, proposed gating).",
             note="Trusted: Coq kernel+VM; translators x_mm, x_rs (tokeniser/parser, fail-closed; raw and rustfmt'ed output must parse to the same items); specification choices in Rust.v (rs_of, serde naming rule); serde/rustc not modelled, crate compilation outside the claim. Axioms: none.",
             ref="6/C07"),
 "C09": dict(cat="proof", tech="Coq: kernel-evaluated catalogue checker W_cat over tables regenerated from lsp.json and the live module objects, with proved reflection lemmas (CatThy)",
             text="Ground theorem W_cat = true (vm_compute, exhaustive over the 95 methods x {row, message class, response class, params, registration options, direction, constant}, converse inclusions, registry completeness, no unresolved forward reference); meaning via proved reflection lemmas C09_requests / C09_notifications / C09_nothing_else / C09_registry_complete.",
             note="Trusted: Coq kernel+VM; translators x_mm, x_pkg (reads the dict objects a user gets); the semantic characterisation of message classes in CatSpec.v is the pinned reading. Search: s_catalogue.py on the real module. Axioms: none.",
             ref="6/C09"),
 "C11": dict(cat="proof", tech="Coq: generic rejection theorems about the converter model (all tables, callbacks, fuels, surrounding objects) instantiated via a kernel-evaluated eligibility table; model/real correspondence and exhaustive search on the four edits",
             text="Four theorems (missing required property, int out of range, closed-enum outside value, literal mismatch): for every structure, every eligible property, EVERY object carrying the edit, every fuel and every str() oracle, structuring does not return an object. The eligibility table (each eligible property has the field shape the generic theorem needs) is re-proved by vm_compute against the current metamodel and package.",
             note="Trusted: Coq kernel+VM; translators x_mm, x_pkg; the hand-written converter model LSP.Sem (cattrs/attrs/enum semantics), validated by the correspondence stream (every edited input: model and real converter agree) — not verified. Axioms: none.",
             ref="6/C11"),
 "C10": dict(cat="proof", tech="Coq: generic keys_rule about the converter model (every class, object, callback) composed with re-proved image facts; correspondence + exhaustive toggle search on the real converter",
             text="C10_key_rule: for every structure, every flattened property, every instance whose unstructuring succeeds, the key is left out iff the attribute is None, the property is optional and its type admits no null; literal/null-admitting properties always written; absent special properties read as None/literal; envelope method/jsonrpc/result never omitted (instance over the catalogue + generic lemma).",
             note="Trusted: Coq kernel+VM; translators x_mm, x_pkg (omit flags and wire names read from the overrides cattrs attached to the functions it generated); converter model LSP.Sem validated by correspondence (toggle stream), not verified. Axioms: none.",
             ref="6/C10"),
 "C13": dict(cat="proof", tech="Coq: ground enum-table equality + instance table of use sites + generic acceptance/rejection/round-trip lemmas for every value; correspondence and exhaustive use-site search on the real converter",
             text="Enum table equals the metamodel's values with multiplicity (ground, from W_img); every direct use site has the Python type/hook shape required (instance, exhaustive); at open sites EVERY primitive is accepted unchanged and round-trips, closed enumerations accept each declared value as that member and reject every other value of the base type (generic lemmas, all callbacks).",
             note="Trusted: Coq kernel+VM; translators x_mm, x_pkg (hook bodies from the AST of _hooks.py, registration list from a recording converter); converter model LSP.Sem validated by correspondence, not verified. Axioms: none.",
             ref="6/C13"),
 "C16": dict(cat="proof", tech="Coq theorems over an abstract emission pipeline (all id assignments, set orders, prior directory states) + kernel-evaluated classification of every set/uuid/listing site of the four plugins (x_emit) + byte-comparison history stream on the real plugins",
             text="PARTIAL: emit_id_invariant / emit_perm_invariant / run_history_independent are proved for the abstract pipeline (unbounded); the instance obligations (every set/uuid/id/listdir site of the plugins is of a class covered by a theorem; every plugin cleans or fixes the files it owns) are computed on the translated site table. That each Python expression is an instance of its class is a syntactic analysis plus differential runs (hash seeds x run histories, byte-identical trees), not a proof.",
             note="Trusted: Coq kernel+VM; x_emit.py (AST scan/classification); the LSP.Emit abstractions; CPython dict insertion order and sorted() being a function of the multiset. Real file-system atomicity not modelled. Axioms: none.",
             ref="6/C16"),
 "C17": dict(cat="proof", tech="Coq: verified validator (valid_b / msg_valid_b proved sound and complete w.r.t. the inductive strict-validity relation, valid_d definite verdicts) run by vm_compute on the vectors the testdata plugin emits (translation validation), coverage lemma, converter acceptance",
             text="valid_b_sound / valid_b_complete (under mm_wf, discharged on the instance) / msg_valid_d_correct for EVERY JSON value; then the verified checker is evaluated in Coq on the emitted vectors (quick: stratified sample ~2,500 + all candidates flagged by an independent Python reference over all 73,988; thorough: all vectors, one kernel-checked lemma per shard); file-name format; every message class has a True vector; True vectors accepted by the real converter.",
             note="Trusted: Coq kernel+VM; x_mm; x_vectors JSON->Coq printer and file-name parser; the pinned reading of strict validity and envelopes (MM.valid, Strict.msg_valid; DESIGN C17); class naming rule cross-checked against a Python reference; r_vectors mirrors tests/python/test_generated_data.py. Axioms: none.",
             ref="6/C17"),
 "C19": dict(cat="proof", tech="Coq: invariant proof over all thread counts and schedules of the once-initialiser translated from _hooks.py (x_once), history-independence lemma; forced-schedule correspondence on the real code (monkey-patched yield points), history stream",
             text="once_safe / resolve_exactly_once / once_done for every number of classes, threads and every schedule, for any program accepted by lock_ok (mutual exclusion + re-check), instantiated on the program translated from the current _hooks.py; history_independent under reg_pure (register_hooks writes only its argument and the flag). When lock_ok fails the refutation witness (C19_refuted, vm_compute) is replayed on the real code.",
             note="Trusted: Coq kernel+VM; x_once.py; the LSP.Once semantics of dict iteration / first resolve_types growing the dict / lock + finally (validated by forcing 24 (quick) / 294 (thorough) schedules on the real code, not verified); cattrs/attrs calls in register_hooks assumed not to write module state (validated by the history stream); real preemption (GIL switching) not modelled. Axioms: none.",
             ref="6/C19"),
}
ALL = ["C%02d" % i for i in range(1, 21)]
def main():
    checks = []
    for pid in ALL:
        if pid not in CHECKS: continue
        c = CHECKS[pid]
        checks.append({"property_id": pid, "quick_cmd": "./check %s --tier quick" % pid, "thorough_cmd": "./check %s --tier thorough" % pid,
                       "evidence_file": "/verif/evidence/%s.json" % pid, "replay_cmd_template": "./check %s --replay {path}" % pid,
                       "engine": "coq", "level_claimed": {"category": c["cat"], "text": c["text"], "design_ref": c["ref"]},
                       "level_note": c["note"], "technique": c["tech"]})
    m = {"version": 1,
         "setup_cmd": "cd /verif/coq && coq_makefile -f _CoqProject -o Makefile > /dev/null && timeout 3000 make -j16 -s",
         "hooks": {"guard": "LSPROTOCOL_VERIF", "enable": "no source hook is needed; checks set LSPROTOCOL_VERIF=1 anyway", 
                   "baseline_off_cmd": "cd /repo && /venv/bin/python -m pytest -ra -q -p no:cacheprovider --timeout=900 --continue-on-collection-errors",
                   "source_commits": [], "add_only": True},
         "engines": [{"name": "coq", "path": "/verif/coq", "serves_properties": sorted(CHECKS), "kind_free_text": "Coq 8.16.1 theory (hand-written models + generic theorems) + per-run regenerated data and property files under build/, driven by ./check"}],
         "checks": checks,
         "not_applicable": [{"property_id": p, "reason": "check under construction in this round: no claim yet (technique applies; see DESIGN.md section 6)"} for p in ALL if p not in CHECKS],
         "notes": "Driver: ./check <id> [--tier quick|thorough] [--replay file]. Known findings: /verif/known_findings.txt."}
    json.dump(m, open(os.path.join(HERE, "MANIFEST.json"), "w"), indent=1)
main()
