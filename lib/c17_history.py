"""c17_history — the HISTORY stream of property C17: the testdata plugin run into a directory that already holds the vectors
of an EARLIER metamodel.

C17 quantifies over the files the plugin emits; the prior content of the output directory is part of a run (that is how
packages/testdata is refreshed).  A history is a sequence of metamodels m0, m1, ... (a small sub-model of the committed
lsp.json: a few methods and everything they reach; then evolutions that change the validity of UNCHANGED bodies or the set
of bodies).  The real command line is run for m0, m1, ... into the SAME directory D, and for each m_i (i >= 1) also into a
fresh directory F_i.  Checked after each step i >= 1:
  * D and F_i hold the same files with the same bytes (no stale file kept, none missing, none differing);
  * every file of D carries the validity of its content under m_i: Strict.vector_code evaluated in Coq against the metamodel
    translated from m_i (Gen/C17H*.v, mm_wf re-proved for it), cross-checked by the Python reference.
Evolutions (ops):  enum-open / enum-close (supportsCustomValues: flips the label of the unchanged custom-value bodies),
prop-required / prop-optional (bodies disappear / appear), drop-method / add-method (a whole class disappears / appears).
Everything derives from the seed; the plan is recorded in the replay and re-built from the committed lsp.json on replay.
"""
import collections
import concurrent.futures
import copy
import json
import os
import random
import re

import vcommon as V
import x_vectors as X

CAP_METHOD = 1400         # a method whose classes have more vectors than this (in the full run) is not picked for a sub-model
MAX_EVAL = 100000         # per step (thorough): every file of D is judged in Coq
MAX_EVAL_QUICK = 600      # per step (quick): what differs / what the step changed first, then a stratified sample
SPECIAL = ("LSPAny", "LSPObject", "LSPArray")


# ------------------------------------------------------------------------------------------------ metamodel plumbing
def type_refs(t, acc):
    if isinstance(t, dict):
        if t.get("kind") == "reference":
            acc.add(t["name"])
        for v in t.values():
            type_refs(v, acc)
    elif isinstance(t, list):
        for v in t:
            type_refs(v, acc)
    return acc


def message_types(entry):
    """the type expressions of a request / notification the testdata generator reads"""
    return [entry[k] for k in ("params", "result") if entry.get(k) is not None]


def closure(doc, roots):
    """names of structures / enumerations / aliases reachable from the set of reference names `roots`"""
    S = {x["name"]: x for x in doc["structures"]}
    A = {x["name"]: x for x in doc["typeAliases"]}
    seen, todo = set(), list(roots)
    while todo:
        n = todo.pop()
        if n in seen:
            continue
        seen.add(n)
        if n in S:
            todo += list(type_refs([S[n]["properties"], S[n].get("extends", []), S[n].get("mixins", [])], set()))
        elif n in A:
            todo += list(type_refs(A[n]["type"], set()))
    return seen


def entries(doc):
    return [("requests", r) for r in doc["requests"]] + [("notifications", n) for n in doc["notifications"]]


def class_names(kind, e):
    """file-name classes of one entry (None when it has no typeName: such entries are not picked)"""
    tn = e.get("typeName")
    if not tn:
        return None
    if kind == "requests":
        n = X.suffix(tn, "Request")
        return [n, n[:-len("Request")] + "Response"]
    return [X.suffix(tn, "Notification")]


def sub_model(doc, methods):
    """the committed document restricted to `methods` (in document order) and to what they reach"""
    d = {"metaData": copy.deepcopy(doc["metaData"])}
    d["requests"] = [copy.deepcopy(r) for r in doc["requests"] if r["method"] in methods]
    d["notifications"] = [copy.deepcopy(n) for n in doc["notifications"] if n["method"] in methods]
    roots = set(SPECIAL)            # the plugin's own ResponseError structure refers to LSPAny
    for _, e in entries(d):
        type_refs(message_types(e), roots)
    keep = closure(doc, roots)
    d["structures"] = [copy.deepcopy(s) for s in doc["structures"] if s["name"] in keep]
    d["enumerations"] = [copy.deepcopy(e) for e in doc["enumerations"] if e["name"] in keep]
    d["typeAliases"] = [copy.deepcopy(a) for a in doc["typeAliases"] if a["name"] in keep]
    return d


def apply_ops(base, methods, ops):
    """the model of one step: `base` (sub-model over the union of all methods of the history) with the step's methods and ops"""
    d = copy.deepcopy(base)
    d["requests"] = [r for r in d["requests"] if r["method"] in methods]
    d["notifications"] = [n for n in d["notifications"] if n["method"] in methods]
    for op in ops:
        k = op["op"]
        if k in ("enum-open", "enum-close"):
            (e,) = [e for e in d["enumerations"] if e["name"] == op["enum"]]
            if k == "enum-open":
                e["supportsCustomValues"] = True
            else:
                e.pop("supportsCustomValues", None)
        elif k in ("prop-required", "prop-optional"):
            (s,) = [s for s in d["structures"] if s["name"] == op["structure"]]
            (p,) = [p for p in s["properties"] if p["name"] == op["property"]]
            if k == "prop-optional":
                p["optional"] = True
            else:
                p.pop("optional", None)
        else:
            raise ValueError(k)
    return d


def models_of(doc, hist):
    allm = set()
    for st in hist["steps"]:
        allm |= set(st["methods"])
    base = sub_model(doc, allm)
    return [apply_ops(base, set(st["methods"]), st["ops"]) for st in hist["steps"]]


# ------------------------------------------------------------------------------------------------ planning
MARKERS = ("testCustomValue", "12345")


def flips(doc, vdir, by_class, classes, op):
    """how many vectors of `classes` in the full run keep their body but change validity when `op` (an enumeration change) is
    applied - judged by the Python reference under the changed metamodel (planning aid only: nothing is concluded from it)"""
    from mmlib import MMView
    enums = []
    for e in doc["enumerations"]:
        if e["name"] == op["enum"]:
            e = dict(e)
            if op["op"] == "enum-open":
                e["supportsCustomValues"] = True
            else:
                e.pop("supportsCustomValues", None)
        enums.append(e)
    ref2 = X.Ref(MMView(dict(doc, enumerations=enums)))
    n = 0
    for cls in classes:
        for fn, lab in by_class.get(cls, []):
            if lab != (op["op"] == "enum-close"):
                continue
            text = open(os.path.join(vdir, fn), encoding="utf-8").read()
            if not any(m in text for m in MARKERS):
                continue
            if (ref2.why(cls, json.loads(text)) is None) != lab:
                n += 1
    return n


def plan(doc, names, vdir, seed, tier):
    """histories for this run.  names: the file names of the full run in `vdir` (cost of a method; search for enumeration changes
    that flip the validity of bodies the plugin really emits)."""
    rng = random.Random("c17-history-%s" % seed)
    by_class = collections.defaultdict(list)
    for fn in names:
        pn = X.parse_name(fn)
        if pn:
            by_class[pn[0]].append((fn, pn[1]))
    E = {e["name"]: e for e in doc["enumerations"]}
    S = {s["name"]: s for s in doc["structures"]}
    info = {}
    for kind, e in entries(doc):
        cn = class_names(kind, e)
        if not cn:
            continue
        cost = sum(len(by_class.get(c, ())) for c in cn)
        if not (0 < cost <= CAP_METHOD):
            continue
        reach = closure(doc, type_refs(message_types(e), set()))
        info[e["method"]] = {"kind": kind, "cost": cost, "classes": cn,
                             "closed": sorted(n for n in reach if n in E and not E[n].get("supportsCustomValues")),
                             "open": sorted(n for n in reach if n in E and E[n].get("supportsCustomValues")),
                             "optional": sorted((n, p["name"]) for n in reach if n in S for p in S[n]["properties"] if p.get("optional")),
                             "required": sorted((n, p["name"]) for n in reach if n in S for p in S[n]["properties"] if not p.get("optional"))}
    names_m = sorted(info)
    if not names_m:
        return []
    used = set()

    def bystanders(avoid):
        out = []
        for kind, cap in (("notifications", 150), ("requests", 800)):
            c = [m for m in names_m if info[m]["kind"] == kind and 4 <= info[m]["cost"] <= cap and m not in avoid and m not in out]
            if c:
                out.append(rng.choice(c))
        return out

    def evolve(tag, flip, third=False):
        """one history around an enumeration change that flips the label of bodies the plugin emits; a bystander method is dropped
        (its files must go) or added; with `third`, a further step makes a property required / optional (bodies disappear / appear)"""
        which = "closed" if flip == "enum-open" else "open"
        cands = [(m, en) for m in names_m for en in info[m][which] if (flip, m, en) not in used]
        rng.shuffle(cands)
        cands.sort(key=lambda c: 0 if info[c[0]]["cost"] <= 400 else 1 if info[c[0]]["cost"] <= 900 else 2)      # small sub-models first (stable sort)
        best = None
        for m, en in cands:
            op = {"op": flip, "enum": en}
            n = flips(doc, vdir, by_class, info[m]["classes"], op)
            if n > 0:
                best = (m, op, n)
                break
        if best is None:
            if not cands:
                return None
            best = (cands[0][0], {"op": flip, "enum": cands[0][1]}, 0)         # nothing flips (recorded): stale / missing files are still exercised
        m, op, n = best
        used.add((flip, m, op["enum"]))
        i = info[m]
        by = bystanders([m])
        if flip == "enum-open":
            m0, m1 = [m] + by, [m] + by[:1]
        else:
            m0, m1 = [m] + by[:1], [m] + by
        steps = [{"methods": m0, "ops": []}, {"methods": m1, "ops": [op]}]
        if third:
            k = "optional" if flip == "enum-open" else "required"
            if i[k]:
                s_, p_ = rng.choice(i[k])
                steps.append({"methods": m1, "ops": [op, {"op": "prop-required" if k == "optional" else "prop-optional", "structure": s_, "property": p_}]})
        return {"name": "%s:%s" % (tag, m), "expected_label_flips": n, "steps": steps}

    hs = [evolve("open-an-enumeration", "enum-open"), evolve("close-an-enumeration", "enum-close")]
    if tier != "quick":
        for k in range(3):
            hs += [evolve("open-an-enumeration-%d" % k, "enum-open", third=True), evolve("close-an-enumeration-%d" % k, "enum-close", third=True)]
        back = evolve("there-and-back", "enum-open")
        if back:
            back["steps"].append(copy.deepcopy(back["steps"][0]))                       # m0, m1, m0 again
            hs.append(back)
    return [h for h in hs if h]


# ------------------------------------------------------------------------------------------------ running one history
def listing(d):
    return {fn: open(os.path.join(d, fn), "rb").read() for fn in sorted(os.listdir(d))}


def wf_file(module):
    """kernel-checked side conditions of the verdicts for one evolved metamodel"""
    return (X.HDR_FOR % module
            + "Lemma C17_hist_mm_wf : mm_wf mm = true.\nProof. vm_compute. reflexivity. Qed.\n"
            + "Lemma C17_hist_classes_distinct : nodupb (map fst (msg_classes mm)) = true.\nProof. vm_compute. reflexivity. Qed.\n"
            + "Theorem C17_hist_code_0 : forall fuel cls label j, vector_code mm fuel cls label j = 0 ->\n"
            + "  exists k, find_msg mm cls = Some k /\\ (msg_valid mm k j <-> label = true).\nProof. exact (vector_code_0 mm C17_hist_mm_wf). Qed.\n"
            + "Theorem C17_hist_code_mislabelled : forall fuel cls label j c, vector_code mm fuel cls label j = c -> (c = 1 \\/ c = 2) ->\n"
            + "  exists k, find_msg mm cls = Some k /\\ ~ (msg_valid mm k j <-> label = true).\nProof. exact (vector_code_mislabelled mm C17_hist_mm_wf). Qed.\n"
            + "Print Assumptions C17_hist_mm_wf.\nPrint Assumptions C17_hist_classes_distinct.\nPrint Assumptions C17_hist_code_0.\nPrint Assumptions C17_hist_code_mislabelled.\n")


def run_history(hidx, hist, doc, seed, keep_tag="", max_eval=MAX_EVAL):
    """-> dict(name, steps: [...], problems: [replay-ready dicts], stats).  Raises on machinery failure."""
    models = models_of(doc, hist)
    res = {"name": hist["name"], "plan": hist, "steps": [], "problems": [], "obligations": []}
    rng = random.Random("c17-history-run-%s-%d" % (seed, hidx))
    with V.scratch("verif-c17h-") as d:
        D = os.path.join(d, "out")
        os.makedirs(D)
        prev = None
        for i, m in enumerate(models):
            mpath = os.path.join(d, "m%d.json" % i)
            json.dump(m, open(mpath, "w"))
            F = os.path.join(d, "fresh%d" % i)
            os.makedirs(F)
            with concurrent.futures.ThreadPoolExecutor(2) as ex:
                fd = ex.submit(X.generate, D, 900, mpath)
                ff = ex.submit(X.generate, F, 900, mpath)
                (rc, log, _), (rcf, logf, _) = fd.result(), ff.result()
            if rcf != 0:
                raise RuntimeError("history %s step %d: the plugin fails on the sub-model in an EMPTY directory: %s" % (hist["name"], i, logf[-800:]))
            fresh = listing(F)
            step = {"step": i, "methods": hist["steps"][i]["methods"], "ops": hist["steps"][i]["ops"], "fresh_files": len(fresh)}
            if rc != 0:
                res["problems"].append({"kind": "history: the testdata plugin fails when its output directory holds the vectors of an earlier metamodel",
                                        "step": i, "log": log[-1500:]})
                res["steps"].append(step)
                break
            disk = listing(D)
            step["files_on_disk"] = len(disk)
            if i == 0:
                if disk != fresh:
                    # two runs of the same model into empty directories differ: the plugin is not a function of the model (not C17's
                    # business); the directory comparison is then no oracle for this history - only the label check remains
                    res["nondeterministic"] = True
                    step["two_fresh_runs_differ"] = True
                prev = disk
                res["steps"].append(step)
                continue
            # how much of the earlier content does this evolution touch?
            key = lambda fn: (X.parse_name(fn)[0], X.parse_name(fn)[2]) if X.parse_name(fn) else (fn, "")
            pk = {key(fn): fn for fn in prev}
            flipped = [(pk[key(fn)], fn) for fn in fresh if key(fn) in pk and pk[key(fn)] != fn and prev[pk[key(fn)]] == fresh[fn]]
            step.update({"same_body_other_label": len(flipped), "files_gone": len(set(prev) - set(fresh)) - len(flipped),
                         "files_new": len(set(fresh) - set(prev)) - len(flipped), "files_unchanged": len([f for f in fresh if prev.get(f) == fresh[f]])})
            stale = sorted(set(disk) - set(fresh))
            missing = sorted(set(fresh) - set(disk))
            differ = sorted(fn for fn in disk if fn in fresh and disk[fn] != fresh[fn])
            step.update({"stale": len(stale), "missing": len(missing), "differing": len(differ)})

            # ---- the verified label check over what is on disk, under the metamodel of THIS step
            module = "C17H%s%dS%d" % (keep_tag, hidx, i)
            gen_v = os.path.join(V.GEN, module + ".v")
            p = V.run_py("x_mm.py", [mpath, gen_v])
            if p.returncode != 0:
                raise RuntimeError("x_mm rejects the evolved model of history %s: %s" % (hist["name"], (p.stdout + p.stderr)[-500:]))
            r = V.coqc(gen_v)
            if not r.ok:
                raise RuntimeError("evolved metamodel %s does not compile: %s" % (module, r.text[-800:]))
            wf = os.path.join(V.PROPS_OUT, module + "Wf.v")
            V.write_if_changed(wf, wf_file(module))
            rw = V.coqc(wf)
            closed = rw.ok and rw.text.count("Closed under the global context") == 4
            res["obligations"].append(("history:%s:step%d:mm_wf+verdict-theorems-for-the-evolved-metamodel" % (hist["name"], i), closed, "" if closed else rw.text[-300:]))
            if not closed:
                raise RuntimeError("side conditions of the verified checker fail for the evolved metamodel %s: %s" % (module, rw.text[-800:]))
            ents, badnames = [], []
            for fn in sorted(disk):
                pn = X.parse_name(fn)
                (ents.append((fn, pn[0], pn[1])) if pn else badnames.append(fn))
            # judged in Coq: everything when small; else what differs from the fresh run, then what this step changed (same body under
            # another label, new files), then a stratified sample of the rest (their bytes equal the fresh run's, checked above)
            if len(ents) <= max_eval:
                sel = list(range(len(ents)))
            else:
                st_, df_, fl_ = set(stale), set(differ), {b_ for _, b_ in flipped}
                order = ([n for n, e in enumerate(ents) if e[0] in st_ or e[0] in df_] + [n for n, e in enumerate(ents) if e[0] in fl_])
                newf = [n for n, e in enumerate(ents) if e[0] not in prev and e[0] not in fl_]
                rng.shuffle(newf)
                order += newf[:max_eval // 3]
                strata = collections.defaultdict(list)
                for n, e in enumerate(ents):
                    strata[(e[1], e[2])].append(n)
                for k in sorted(strata):
                    order += strata[k] if len(strata[k]) <= 6 else rng.sample(strata[k], 6)
                sel = sorted(set(order[:max_eval]))
            tasks = [("CasesC17H%s%d_%d_%d" % (keep_tag, hidx, i, k), k * 300, D, [ents[n] for n in ch], False, (module, mpath))
                     for k, ch in enumerate(X.chunks(sel, 300))]
            outs = X.run_parallel(X.eval_shard, tasks, workers=8)
            code, why = {}, {}
            for k, o in enumerate(outs):
                ch = sel[k * 300:(k + 1) * 300]
                for off, n in enumerate(ch):
                    code[n] = o["codes"].get(k * 300 + off, 0)
                    why[n] = o["ref"][off]
            step["judged_in_coq"] = len(sel)
            step["label_agrees"] = sum(1 for n in sel if code[n] == 0)
            res["judged"] = res.get("judged", []) + [(hist["name"], i, ents[n][0]) for n in sel]
            hdesc = {"history": hist, "failing_step": i,
                     "how": "m0, m1, ... are built from the committed lsp.json (c17_history.models_of); `python -m generator --plugin testdata --model m_k "
                            "--output-dir D` is run for k = 0..%d into the same D" % i}
            for n in sel:
                fn, cls, lab = ents[n]
                c = code[n]
                if c == 0:
                    continue
                ref_valid = why[n] is None
                if c in (1, 2) and ref_valid == lab:
                    res["problems"].append({"framework": True, "kind": "framework problem: verified checker and Python reference disagree on a history vector",
                                            "file": fn, "checker_code": c, "reference_clause": why[n], **hdesc})
                    continue
                if c == 3:
                    res["problems"].append({"framework": True, "kind": "framework problem: fuel exhausted on a history vector", "file": fn, **hdesc})
                    continue
                res["problems"].append({
                    "kind": "history: mislabelled test vector left in the output directory", "file": fn, "class": cls, "label": lab,
                    "content": json.loads(disk[fn].decode("utf-8")), "checker_code": c,
                    "checker_verdict": {1: "invalid", 2: "valid", 4: "class is not a message class of this step's metamodel"}[c],
                    "failing_clause": why[n] or "none: every clause of the strict reading holds (the content is valid under the evolved metamodel)",
                    "stale": fn in stale, "counterpart_not_written": next((m_ for m_ in missing if key(m_) == key(fn)), None),
                    "expected": "after re-running the plugin the directory holds exactly the vectors of the current metamodel, each labelled with its validity under it",
                    "mislabelled_in_this_step": sum(1 for x in sel if code[x] in (1, 2, 4)), **hdesc})
            for fn in badnames:
                res["problems"].append({"kind": "history: file name is not <MessageClass>-<True|False>-<hash>.json", "file": fn, **hdesc})
            judged_bad = {p_["file"] for p_ in res["problems"] if "file" in p_}
            for what, fns, text in () if res.get("nondeterministic") else (("stale", stale, "history: stale file kept (not part of the vectors of the current metamodel)"),
                                    ("missing", missing, "history: vector of the current metamodel not written"),
                                    ("differing", differ, "history: file content differs from a fresh-directory run")):
                for fn in fns[:1]:
                    if fn in judged_bad and what == "stale":
                        continue
                    res["problems"].append({"kind": text, "file": fn, "count": len(fns), "first_files": fns[:5],
                                            "content": json.loads((fresh if what == "missing" else disk)[fn].decode("utf-8")) if fn.endswith(".json") else None,
                                            "expected": "directory content == content of a run of the same model into an empty directory (file set and bytes)", **hdesc})
            res["steps"].append(step)
            prev = fresh
    return res


def run_all(hists, doc, seed, keep_tag="", max_eval=MAX_EVAL):
    if not hists:
        return []
    with concurrent.futures.ThreadPoolExecutor(min(4, len(hists))) as ex:
        return list(ex.map(lambda a: run_history(a[0], a[1], doc, seed, keep_tag, max_eval), enumerate(hists)))


def counts_from_names(names):
    c = collections.Counter()
    for fn in names:
        pn = X.parse_name(fn)
        if pn:
            c[pn[0]] += 1
    return c
