"""Real-code runner for C12.
stdin JSON: {"values":[v...], "fields":[{"cls","attr","wire","base":minimal json}], "grid":[ints]}
 value encodings: ["none"] ["bool",b] ["int",z] ["flt",x] ["str",s] ["list"] ["dict"] ["obj"] ["ienum"] ["senum"]
stdout JSON: {"validators": {"integer_validator":[code...], "uinteger_validator":[...]}, "fields":[{"ctor":[0/1...],"conv":[0/1...]}]}
 validator codes: 0 returns True, 1 raises ValueError naming class and attribute, 3 ValueError without the names, 2 anything else
"""
import json
import sys

import attrs

from lsprotocol import converters, validators
from lsprotocol import types as T

conv = converters.get_converter()


class Dummy:
    pass


class Attr:
    name = "some_attr"


def build(v):
    k = v[0]
    if k == "none":
        return None
    if k in ("bool", "int", "flt", "str"):
        return v[1]
    if k == "fltx":
        return float(v[1])
    if k == "tuple":
        return tuple(v[1])
    if k == "list":
        return []
    if k == "dict":
        return {}
    if k == "obj":
        return T.Position(line=1, character=2)
    if k == "ienum":
        return T.SymbolKind.File
    if k == "senum":
        return T.MarkupKind.Markdown
    raise ValueError(k)


def vrun(fn, v):
    try:
        r = fn(Dummy(), Attr(), build(v))
        return 0 if r is True else 2
    except ValueError as e:
        return 1 if ("Dummy" in str(e) and "some_attr" in str(e)) else 3
    except BaseException:
        return 2


def main():
    req = json.load(sys.stdin)
    if "histories" in req:
        # sequences of calls in THIS process, in order: the verdict for a value must not depend on what was validated before
        res = []
        for name, seq in req["histories"]:
            res.append([vrun(getattr(validators, name), v) for v in seq])
        json.dump({"histories": res}, sys.stdout)
        return
    out = {"validators": {n: [vrun(getattr(validators, n), v) for v in req["values"]] for n in ("integer_validator", "uinteger_validator")}, "fields": []}
    def attr_for(cls, wire):
        for a in attrs.fields(cls):
            n = a.name[:-1] if a.name.endswith("_") else a.name
            parts = n.split("_")
            if parts[0] + "".join(p.title() for p in parts[1:]) == wire:
                return a.name
        return wire

    for f in req["fields"]:
        cls = getattr(T, f["cls"])
        f["attr"] = attr_for(cls, f["wire"])
        ctor, cv = [], []
        try:
            base_obj = conv.structure(f["base"], cls)
        except BaseException as e:
            out["fields"].append({"error": "base value rejected: %r" % (e,)})
            continue
        for z in req["grid"]:
            try:
                attrs.evolve(base_obj, **{f["attr"]: z})
                ctor.append(1)
            except BaseException:
                ctor.append(0)
            j = dict(f["base"])
            j[f["wire"]] = z
            try:
                conv.structure(j, cls)
                cv.append(1)
            except BaseException:
                cv.append(0)
        out["fields"].append({"ctor": ctor, "conv": cv})
    out["nested"] = []
    for n in req.get("nested", []):
        cls = getattr(T, n["cls"])
        acc = []
        for z in req["grid"]:
            inner = dict(n["inner"])
            inner[n["path"][-1]] = z
            j = dict(n["base"])
            j[n["path"][0]] = [inner] if n["arr"] else inner
            try:
                conv.structure(j, cls)
                acc.append(1)
            except BaseException:
                acc.append(0)
        out["nested"].append(acc)
    json.dump(out, sys.stdout)


main()
