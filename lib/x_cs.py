"""x_cs — run the dotnet plugin of the CURRENT tree and translate the emitted .cs files to Coq data (Gen/DotnetData.v).

usage: x_cs.py <outdir> <out.v>        run `python -m generator --plugin dotnet --output-dir <outdir>` (cwd = vcommon.REPO), then translate
       x_cs.py --parse-only <outdir> <out.v>

<outdir> is a scratch directory owned by the caller (V.scratch()); the files land in <outdir>/lsprotocol.

What is kept of a file (LSP.Dotnet.csfile) is exactly what decides the wire schema / message metadata:
  class/record : name, [DataContract], base type, every data member ([DataMember(Name=..)] wire name, identifier, type,
                 top-level `?`, [JsonProperty(NullValueHandling = NullValueHandling.Ignore)], whether it has a set/init accessor), the [JsonConstructor]
                 (parameter names, `Lhs = rhs;` assignments), [LSPRequest("m", typeof(R)..)], [LSPResponse(typeof(R))],
                 every [Direction(MessageDirection.X)]
  enum         : the value each member puts on the wire: under [JsonConverter(typeof(StringEnumConverter))] the
                 [EnumMember(Value=..)] string (else the identifier); without it the numeric value (explicit or C#'s implicit one)
  LSPMethods   : (constant, string value)
  other        : JsonConverter subclasses, the hand-written support files copied from plugins/dotnet/custom, and classes
                 that carry no schema token at all -> FOther
Comments (// and ///) are dropped by the tokeniser.

Fail-closed (exit 3, "REJECT: why"): unknown attribute, JsonProperty / DataMember with arguments other than the ones above
(they could rename a member), a member shape outside the grammar inside a class that has data members, a statement in the
JSON constructor other than `X = y;` / an `if (..) {..}` guard / a plain call statement, a member assigned twice there, two [JsonConstructor], several declarations in one file, ...
"""
import json
import os
import re
import subprocess
import sys

from vcommon import PY, REPO, q, repo_env, write_if_changed

PKG_DIR = "lsprotocol"
KNOWN_ATTRS = {"DataContract", "DataMember", "JsonProperty", "JsonConstructor", "JsonConverter", "LSPRequest", "LSPResponse",
               "Direction", "EnumMember", "Obsolete", "Proposed", "Since"}
MODIFIERS = {"public", "private", "protected", "internal", "static", "readonly", "override", "virtual", "sealed", "partial", "new"}
DIRS = {"ClientToServer": "ClientToServer", "ServerToClient": "ServerToClient", "Both": "Both"}


class Reject(Exception):
    pass


TOK = re.compile(r"""
    (?P<ws>\s+)
  | (?P<lc>//[^\n]*)
  | (?P<bc>/\*.*?\*/)
  | (?P<str>[$@]*"(?:[^"\\\n]|\\.)*")
  | (?P<chr>'(?:[^'\\\n]|\\.)')
  | (?P<num>\d+(?:\.\d+)?)
  | (?P<id>[A-Za-z_][A-Za-z0-9_]*)
  | (?P<op>=>|\?\?|\?\.|==|!=|&&|\|\||\+\+|--|.)
""", re.X | re.S)


def tokenize(text, fname):
    toks, i = [], 0
    while i < len(text):
        m = TOK.match(text, i)
        if not m:
            raise Reject("%s: cannot tokenise at offset %d" % (fname, i))
        i = m.end()
        k = m.lastgroup
        if k in ("ws", "lc", "bc"):
            continue
        toks.append((k, m.group(k)))
    return toks


def unstr(tok):
    """value of a plain C# string literal token"""
    s = tok[1]
    if tok[0] != "str" or not s.startswith('"'):
        raise Reject("plain string literal expected, got %r" % (s,))
    body = s[1:-1]
    if "\\" in body:
        body = re.sub(r"\\(.)", lambda m: {"n": "\n", "t": "\t", "r": "\r", "0": "\0"}.get(m.group(1), m.group(1)), body)
    return body


class P:
    def __init__(self, toks, fname):
        self.t, self.i, self.f = toks, 0, fname

    def peek(self, k=0):
        return self.t[self.i + k][1] if self.i + k < len(self.t) else None

    def kind(self, k=0):
        return self.t[self.i + k][0] if self.i + k < len(self.t) else None

    def next(self):
        if self.i >= len(self.t):
            raise Reject("%s: unexpected end of file" % self.f)
        x = self.t[self.i]
        self.i += 1
        return x

    def expect(self, s):
        x = self.next()
        if x[1] != s:
            raise Reject("%s: expected %r, found %r (token %d)" % (self.f, s, x[1], self.i))
        return x

    def ident(self):
        x = self.next()
        if x[0] != "id":
            raise Reject("%s: identifier expected, found %r" % (self.f, x[1]))
        return x[1]

    def balanced(self, open_, close):
        """consume from an opening bracket (already peeked) to its match; returns the tokens strictly inside"""
        self.expect(open_)
        depth, out = 1, []
        while True:
            x = self.next()
            if x[1] == open_ and x[0] == "op":
                depth += 1
            elif x[1] == close and x[0] == "op":
                depth -= 1
                if depth == 0:
                    return out
            out.append(x)

    def until_semicolon(self):
        out = []
        while True:
            x = self.next()
            if x[0] == "op" and x[1] == ";":
                return out
            if x[0] == "op" and x[1] in "{}":
                raise Reject("%s: brace inside an initialiser / expression" % self.f)
            out.append(x)

    # ------------------------------------------------------------------ types
    def qualified(self):
        n = self.ident()
        while self.peek() == "." and self.kind(1) == "id":
            self.next()
            n += "." + self.ident()
        return n

    def ptype(self):
        """returns (cstype, top_level_nullable)"""
        if self.peek() == "(":
            self.next()
            items = []
            while True:
                t, nl = self.ptype()
                items.append(("G", "?", [t]) if nl else t)
                if self.kind() == "id":      # named tuple element
                    self.next()
                x = self.next()
                if x[1] == ")":
                    break
                if x[1] != ",":
                    raise Reject("%s: tuple type" % self.f)
            t = ("T", items)
        else:
            n = self.qualified()
            if self.peek() == "<":
                self.next()
                args = []
                while True:
                    a, nl = self.ptype()
                    args.append(("G", "?", [a]) if nl else a)
                    x = self.next()
                    if x[1] == ">":
                        break
                    if x[1] != ",":
                        raise Reject("%s: generic arguments of %s" % (self.f, n))
                t = ("G", n, args)
            else:
                t = ("N", n)
        nullable = False
        while True:
            if self.peek() == "?" :
                self.next()
                if nullable:
                    raise Reject("%s: `??` in a type" % self.f)
                nullable = True
            elif self.peek() == "[" and self.peek(1) == "]":
                self.next(); self.next()
                t = ("G", "[]", [("G", "?", [t]) if nullable else t])
                nullable = False
            else:
                return t, nullable

    # ------------------------------------------------------------------ attributes
    def attrs(self):
        res = []
        while self.peek() == "[":
            inner = self.balanced("[", "]")
            sub = P(inner, self.f)
            while sub.i < len(inner):
                name = sub.qualified()
                if name.endswith("Attribute"):
                    name = name[:-9]
                args = sub.balanced("(", ")") if sub.peek() == "(" else []
                if name not in KNOWN_ATTRS:
                    raise Reject("%s: unknown attribute [%s]" % (self.f, name))
                res.append((name, args))
                if sub.i < len(inner):
                    sub.expect(",")
        return res


def vals(toks):
    return [t[1] for t in toks]


def typeof_arg(toks, fname, what):
    """typeof ( Name )  ->  Name"""
    v = vals(toks)
    if len(v) >= 4 and v[0] == "typeof" and v[1] == "(" and v[-1] == ")" :
        sub = P(toks[2:-1], fname)
        t, nl = sub.ptype()
        if sub.i == len(toks) - 3 and t[0] == "N" and not nl:
            return t[1]
    raise Reject("%s: %s: typeof(<class>) expected, got %s" % (fname, what, " ".join(v)))


def split_args(toks):
    """split an attribute argument token list at top-level commas"""
    out, cur, depth = [], [], 0
    for t in toks:
        if t[0] == "op" and t[1] in "(<[":
            depth += 1
        elif t[0] == "op" and t[1] in ")>]":
            depth -= 1
        if t[0] == "op" and t[1] == "," and depth == 0:
            out.append(cur); cur = []
        else:
            cur.append(t)
    if cur:
        out.append(cur)
    return out


def member_attrs(attrs, fname, where):
    """-> (wire name or None, ignore flag, json_ctor flag, has_jsonproperty)"""
    wire, ignore, ctor, jp = None, False, False, False
    for name, args in attrs:
        v = vals(args)
        if name == "DataMember":
            if len(v) == 3 and v[0] == "Name" and v[1] == "=" and args[2][0] == "str":
                if wire is not None:
                    raise Reject("%s: two [DataMember] on %s" % (fname, where))
                wire = unstr(args[2])
            else:
                raise Reject("%s: [DataMember(%s)] on %s: only Name = \"..\" is modelled" % (fname, " ".join(v), where))
        elif name == "JsonProperty":
            jp = True
            if v == ["NullValueHandling", "=", "NullValueHandling", ".", "Ignore"]:
                ignore = True
            elif v == ["NullValueHandling", "=", "NullValueHandling", ".", "Include"]:
                pass
            else:
                raise Reject("%s: [JsonProperty(%s)] on %s: only NullValueHandling is modelled" % (fname, " ".join(v), where))
        elif name == "JsonConstructor":
            ctor = True
        elif name in ("LSPRequest", "LSPResponse", "DataContract", "EnumMember"):
            raise Reject("%s: [%s] on member %s" % (fname, name, where))
    return wire, ignore, ctor, jp


def parse_ctor_body(toks, fname, cname):
    sub = P(toks, fname)
    assigns = []
    while sub.i < len(toks):
        if sub.peek() == "if":
            sub.next()
            sub.balanced("(", ")")
            if sub.peek() != "{":
                raise Reject("%s: constructor of %s: `if` without a block" % (fname, cname))
            sub.balanced("{", "}")
            continue
        if sub.peek() == "this" and sub.peek(1) == ".":
            sub.next(); sub.next()
        if sub.kind() == "id" and sub.peek(1) == "=" and sub.kind(2) == "id" and sub.peek(3) == ";":
            lhs = sub.ident(); sub.next(); rhs = sub.ident(); sub.next()
            if any(a == lhs for a, _ in assigns):
                raise Reject("%s: constructor of %s assigns %s twice" % (fname, cname, lhs))
            assigns.append((lhs, rhs))
            continue
        # an expression statement without any assignment (a call such as Validate(x);) cannot undo an assignment: skipped
        j, depth, plain = sub.i, 0, True
        while j < len(toks) and not (toks[j] == ("op", ";") and depth == 0):
            if toks[j][0] == "op" and toks[j][1] in "([":
                depth += 1
            elif toks[j][0] == "op" and toks[j][1] in ")]":
                depth -= 1
            elif toks[j][0] == "op" and toks[j][1] in ("=", "{", "}", "++", "--", "=>") or toks[j][1] in ("return", "throw", "goto"):
                plain = False
            j += 1
        if plain and j < len(toks) and j > sub.i:
            sub.i = j + 1
            continue
        raise Reject("%s: constructor of %s: statement outside the grammar near %r" % (fname, cname, " ".join(vals(toks[sub.i:sub.i + 6]))))
    return assigns


def parse_params(toks, fname, cname):
    names = []
    for part in split_args(toks):
        sub = P(part, fname)
        while sub.peek() in ("params", "in", "ref", "out", "this"):
            sub.next()
        sub.attrs()
        sub.ptype()
        names.append(sub.ident())
        if sub.i < len(part):
            sub.expect("=")          # default value: rest of the tokens
    return names


SCHEMA_TOKENS = {"DataMember", "JsonConstructor", "JsonProperty"}


def parse_class_body(toks, fname, cname):
    """strict member grammar; returns (members, ctor)"""
    p = P(toks, fname)
    members, ctor = [], None
    while p.i < len(toks):
        attrs = p.attrs()
        mods = set()
        while p.peek() in MODIFIERS or p.peek() == "const":
            mods.add(p.next()[1])
        where = "%s (token %d)" % (cname, p.i)
        if p.kind() == "id" and p.peek() == cname and p.peek(1) == "(":      # constructor
            p.next()
            params = p.balanced("(", ")")
            if p.peek() == ":":
                p.next()
                if p.peek() not in ("base", "this"):
                    raise Reject("%s: constructor initialiser of %s" % (fname, cname))
                p.next()
                p.balanced("(", ")")
            body = p.balanced("{", "}")
            wire, ignore, is_json, jp = member_attrs(attrs, fname, where)
            if wire is not None or jp:
                raise Reject("%s: data-member attribute on a constructor of %s" % (fname, cname))
            if is_json:
                if ctor is not None:
                    raise Reject("%s: two [JsonConstructor] in %s" % (fname, cname))
                ctor = (parse_params(params, fname, cname), parse_ctor_body(body, fname, cname))
            continue
        t, nullable = p.ptype()
        name = p.ident()
        wire, ignore, is_json, jp = member_attrs(attrs, fname, "%s.%s" % (cname, name))
        if is_json:
            raise Reject("%s: [JsonConstructor] on %s.%s which is no constructor" % (fname, cname, name))
        nx = p.peek()
        if nx == "{":
            acc = p.balanced("{", "}")
            # accessor names at depth 0 of the accessor block: `set` / `init` make the member settable
            depth, settable, prev = 0, False, ("op", ";")
            for tk in acc:
                if tk[0] == "op" and tk[1] in "{(":
                    depth += 1
                elif tk[0] == "op" and tk[1] in "})":
                    depth -= 1
                elif depth == 0 and tk[0] == "id" and tk[1] in ("set", "init") and prev[1] in (";", "}", "private", "protected", "internal", "public"):
                    settable = prev[1] not in ("private",)
                prev = tk
            if p.peek() == "=":
                p.next(); p.until_semicolon()
        elif nx == ";":
            p.next()
            settable = not (mods & {"readonly", "const"})
        elif nx == "=":
            p.next(); p.until_semicolon()
            settable = not (mods & {"readonly", "const"})
        elif nx == "=>":
            p.next(); p.until_semicolon()
            settable = False
        else:
            raise Reject("%s: member %s.%s has a shape outside the grammar (next token %r)" % (fname, cname, name, nx))
        if wire is None and jp:
            wire = name          # opt-in by [JsonProperty] alone: the wire name is the identifier
        if wire is not None:
            members.append({"wire": wire, "ident": name, "type": t, "nullable": nullable, "ignore": ignore, "settable": settable})
    return members, ctor


def parse_enum_body(toks, fname, ename, string_conv):
    p = P(toks, fname)
    out, nxt = [], 0
    while p.i < len(toks):
        attrs = p.attrs()
        name = p.ident()
        em = None
        for an, args in attrs:
            if an == "EnumMember":
                v = vals(args)
                if len(v) == 3 and v[0] == "Value" and v[1] == "=" and args[2][0] == "str":
                    em = unstr(args[2])
                else:
                    raise Reject("%s: [EnumMember(%s)]" % (fname, " ".join(v)))
            elif an not in ("Obsolete", "Proposed", "Since"):
                raise Reject("%s: [%s] on enum member %s.%s" % (fname, an, ename, name))
        num = nxt
        if p.peek() == "=":
            p.next()
            neg = False
            if p.peek() == "-":
                neg = True; p.next()
            x = p.next()
            if x[0] != "num" or "." in x[1]:
                raise Reject("%s: enum member %s.%s: integer literal expected" % (fname, ename, name))
            num = -int(x[1]) if neg else int(x[1])
        nxt = num + 1
        if p.i < len(toks):
            p.expect(",")
        out.append((name, ("s", em if em is not None else name) if string_conv else ("i", num)))
    return out


def parse_methods_body(toks, fname):
    p = P(toks, fname)
    out = []
    while p.i < len(toks):
        p.attrs()
        while p.peek() in MODIFIERS or p.peek() == "const":
            p.next()
        t, nl = p.ptype()
        name = p.ident()
        if t != ("N", "string") or nl:
            raise Reject("%s: LSPMethods.%s is not a string" % (fname, name))
        if p.peek() == "{":
            p.balanced("{", "}")
        p.expect("=")
        init = p.until_semicolon()
        if len(init) != 1:
            raise Reject("%s: LSPMethods.%s: string literal expected" % (fname, name))
        out.append((name, unstr(init[0])))
    return out


def parse_file(text, fname):
    """-> ('class', {...}) | ('enum', {...}) | ('methods', [...]) | ('other', name)"""
    base = os.path.basename(fname)[:-3]
    p = P(tokenize(text, fname), fname)
    while p.peek() == "using":
        while p.next()[1] != ";":
            pass
    p.expect("namespace")
    p.qualified()
    ns = p.balanced("{", "}")
    if p.i != len(p.t):
        raise Reject("%s: tokens after the namespace block" % fname)
    p = P(ns, fname)
    attrs = p.attrs()
    mods = []
    while p.peek() in MODIFIERS:
        mods.append(p.next()[1])
    kind = p.ident()
    if kind not in ("record", "class", "enum", "interface", "struct"):
        raise Reject("%s: declaration kind %r" % (fname, kind))
    name = p.ident()
    if p.peek() == "<":          # generic declaration: only support classes have these
        p.balanced("<", ">")
        generic = True
    else:
        generic = False
    bases = []
    if p.peek() == ":":
        p.next()
        while True:
            t, nl = p.ptype()
            bases.append(t)
            if p.peek() == ",":
                p.next()
                continue
            break
    while p.peek() == "where":
        while p.peek() != "{":
            p.next()
    body = p.balanced("{", "}")
    if p.i != len(ns):
        raise Reject("%s: more than one declaration in the namespace block" % fname)
    anames = [a for a, _ in attrs]
    body_ids = {t[1] for t in body if t[0] == "id"}

    if kind == "enum":
        conv = False
        for an, args in attrs:
            if an == "JsonConverter":
                if vals(args) == ["typeof", "(", "StringEnumConverter", ")"]:
                    conv = True
                else:
                    raise Reject("%s: enum %s has a converter other than StringEnumConverter" % (fname, name))
            elif an not in ("Obsolete", "Proposed", "Since"):
                raise Reject("%s: [%s] on enum %s" % (fname, an, name))
        return "enum", {"name": name, "members": parse_enum_body(body, fname, name, conv), "string_conv": conv}

    if kind in ("interface", "struct") or generic:
        if body_ids & SCHEMA_TOKENS or set(anames) & {"DataContract", "LSPRequest", "LSPResponse", "Direction"}:
            raise Reject("%s: %s %s carries schema attributes" % (fname, kind, name))
        return "other", name

    if name == "LSPMethods":
        if "static" not in mods or kind != "class" or bases:
            raise Reject("%s: LSPMethods is expected to be a static class" % fname)
        return "methods", parse_methods_body(body, fname)

    cls = {"name": name, "record": kind == "record", "contract": "DataContract" in anames, "base": bases[0] if bases else None,
           "members": [], "ctor": None, "request": None, "response": None, "dirs": [], "file": base}
    for an, args in attrs:
        if an == "LSPRequest":
            parts = split_args(args)
            if cls["request"] is not None or len(parts) not in (2, 3) or len(parts[0]) != 1 or parts[0][0][0] != "str":
                raise Reject("%s: [LSPRequest(%s)]" % (fname, " ".join(vals(args))))
            cls["request"] = (unstr(parts[0][0]), typeof_arg(parts[1], fname, "LSPRequest"))
        elif an == "LSPResponse":
            if cls["response"] is not None:
                raise Reject("%s: two [LSPResponse]" % fname)
            cls["response"] = typeof_arg(args, fname, "LSPResponse")
        elif an == "Direction":
            v = vals(args)
            if len(v) == 3 and v[0] == "MessageDirection" and v[1] == "." and v[2] in DIRS:
                cls["dirs"].append(DIRS[v[2]])
            else:
                raise Reject("%s: [Direction(%s)]" % (fname, " ".join(v)))
        elif an in ("DataMember", "JsonProperty", "JsonConstructor", "EnumMember"):
            raise Reject("%s: [%s] on the class %s" % (fname, an, name))
    schema = body_ids & SCHEMA_TOKENS
    if not schema and not cls["contract"] and not cls["request"] and not cls["response"] and not cls["dirs"]:
        return "other", name          # converters etc.
    if schema:
        cls["members"], cls["ctor"] = parse_class_body(body, fname, name)
    return "class", cls


# ---------------------------------------------------------------------------------------------- Coq printer
def ctype(t):
    if t[0] == "N":
        return "(CsN %s)" % q(t[1])
    if t[0] == "G":
        return "(CsG %s [%s])" % (q(t[1]), "; ".join(ctype(x) for x in t[2]))
    if t[0] == "T":
        return "(CsTup [%s])" % "; ".join(ctype(x) for x in t[1])
    raise ValueError(t)


def b(x):
    return "true" if x else "false"


def cfile(kind, d):
    if kind == "other":
        return "FOther %s" % q(d)
    if kind == "methods":
        return "FMethods [%s]" % "; ".join("(%s, %s)" % (q(k), q(v)) for k, v in d)
    if kind == "enum":
        return "FEnum {| en_name := %s; en_values := [%s] |}" % (
            q(d["name"]), "; ".join(("EVStr %s" % q(v[1])) if v[0] == "s" else "EVInt (%d)" % v[1] for _, v in d["members"]))
    mem = ";\n    ".join("{| m_wire := %s; m_ident := %s; m_type := %s; m_nullable := %s; m_ignore := %s; m_settable := %s |}"
                        % (q(m["wire"]), q(m["ident"]), ctype(m["type"]), b(m["nullable"]), b(m["ignore"]), b(m["settable"])) for m in d["members"])
    ctor = "None"
    if d["ctor"] is not None:
        ctor = "(Some {| k_params := [%s]; k_assigns := [%s] |})" % (
            "; ".join(q(x) for x in d["ctor"][0]), "; ".join("(%s, %s)" % (q(a), q(c)) for a, c in d["ctor"][1]))
    return ("FClass {| c_name := %s; c_contract := %s; c_base := %s;\n  c_members := [%s];\n  c_ctor := %s;\n"
            "  c_request := %s; c_response := %s; c_dirs := [%s] |}"
            % (q(d["name"]), b(d["contract"]), "None" if d["base"] is None else "(Some %s)" % ctype(d["base"]), mem, ctor,
               "None" if d["request"] is None else "(Some (%s, %s))" % (q(d["request"][0]), q(d["request"][1])),
               "None" if d["response"] is None else "(Some %s)" % q(d["response"]), "; ".join(d["dirs"])))


def run_plugin(outdir):
    p = subprocess.run([PY, "-B", "-m", "generator", "--plugin", "dotnet", "--output-dir", outdir], cwd=REPO, env=repo_env(),
                       capture_output=True, text=True, timeout=600)
    if p.returncode != 0:
        raise Reject("the dotnet plugin failed (rc=%d): %s" % (p.returncode, (p.stdout + p.stderr)[-1500:]))


def translate(outdir):
    root = os.path.join(outdir, PKG_DIR)
    custom_dir = os.path.join(REPO, "generator", "plugins", "dotnet", "custom")
    custom = {f for f in os.listdir(custom_dir) if f.endswith(".cs")} if os.path.isdir(custom_dir) else set()
    names = sorted(f for f in os.listdir(root) if f.endswith(".cs"))
    if not names:
        raise Reject("the plugin wrote no .cs file")
    defs, order, stats, parsed = [], [], {"class": 0, "enum": 0, "methods": 0, "other": 0, "members": 0, "custom": 0}, {}
    for fn in names:
        ident = "f_" + re.sub(r"\W", "_", fn[:-3])
        if fn in custom:
            kind, d = "other", fn[:-3]
            stats["custom"] += 1
        else:
            kind, d = parse_file(open(os.path.join(root, fn), encoding="utf-8").read(), fn)
        stats[kind] += 1
        if kind == "class":
            stats["members"] += len(d["members"])
        if kind == "methods":
            stats["method_constants"] = len(d)
        parsed[fn] = (kind, d)
        defs.append("Definition %s : csfile :=\n  %s." % (ident, cfile(kind, d)))
        order.append(ident)
    txt = ("(* generated by lib/x_cs.py from the output of generator/plugins/dotnet — do not edit *)\n"
           "From LSP Require Import Base MM Dotnet.\nOpen Scope string_scope.\n" + "\n".join(defs)
           + "\nDefinition files : list csfile := [\n  %s].\n" % ";\n  ".join(order))
    stats["files"] = len(names)
    return txt, stats, parsed


def main(argv):
    parse_only = argv and argv[0] == "--parse-only"
    if parse_only:
        argv = argv[1:]
    outdir, out = argv
    if not parse_only:
        run_plugin(outdir)
    txt, stats, _ = translate(outdir)
    write_if_changed(out, txt)
    print(json.dumps(stats))


if __name__ == "__main__":
    try:
        main(sys.argv[1:])
    except Reject as e:
        print("REJECT: %s" % e)
        sys.exit(3)
