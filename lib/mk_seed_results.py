"""mk_seed_results — write seeded/RESULTS.md from the JSON results of a run of lib/seedtest.py over every stored seed.
usage: mk_seed_results.py <results-dir> <repo-head>      (results-dir holds <seed-name>.json, one per directory of /verif/seeded)"""
import glob
import json
import os
import re
import sys

VERIF = os.path.dirname(os.path.dirname(os.path.abspath(__file__)))
# seeds whose violation does not show on the committed model / package: the check that owns the manifestation is run as well
ALT = {"C07-2": ["C06"], "C08-2": ["C06"], "C07-r2-2": ["C06"], "C08-r4-2": ["C16"], "C20-r4-2": ["C05"], "C06-r6-2": ["C16"], "C07-r6-2": ["C16"], "C17-r6-2": ["C16"],
       "C04-r7-1": ["C16"], "C08-r7-1": ["C16"], "C17-r7-2": ["C16"], "C13-r7-1": ["C06"], "C03-r7-2": ["C01"]}


def rnd(name):
    m = re.match(r"(C\d\d)-(?:(r\d)-)?(.+)$", name)
    return (m.group(2) or "r1"), m.group(1), m.group(3)


def verdict(v):
    if v["rc"] == 0 and not v["violations"]:
        return "quiet"
    if v["violations"] and "no-failing-input-found" in v["violations"][0]:
        return "VIOLATION, no-failing-input-found"
    if v["violations"]:
        return "VIOLATION with concrete replay"
    return "exit %s without VIOLATION line (broken run)" % v["rc"]


def main():
    d, head = sys.argv[1], sys.argv[2]
    rows, bad = [], []
    for f in sorted(glob.glob(os.path.join(d, "*.json")), key=lambda p: (rnd(os.path.basename(p)[:-5])[0], os.path.basename(p))):
        name = os.path.basename(f)[:-5]
        try:
            r = json.load(open(f))
        except Exception:
            rows.append((name, None))
            bad.append(name + ": no result")
            continue
        rows.append((name, r))
    out = ["# Seeded changes — final run of every check against every seed", "",
           "Seeds: `seeded/<id>-<k>/` (round 1), `-r2-` (round 2), `-r3-` (round 3), `-r4-` (round 4); `h*` = a behaviour-preserving refactoring that must stay quiet.",
           "Run: scratch git worktree of /repo HEAD (%s) + `git apply patch.diff`; `pytest` (122 pass); demo fails with / passes without the change (breaking seeds);" % head,
           "`VERIF_REPO=<worktree> ./check <id> --tier quick` (lib/seedtest.py). A seed whose violation cannot show on the committed model / package is also run",
           "against the check that owns the manifestation (column 'also'). Produced by lib/mk_seed_results.py from that run.", "",
           "| round | property | seed | kind | `./check <property>` (quick) | replay kind | wall s | also |", "|---|---|---|---|---|---|---|---|"]
    n_b = n_bc = n_bn = n_h = n_hq = 0
    for name, r in rows:
        rd, prop, k = rnd(name)
        if r is None:
            out.append("| %s | %s | %s | ? | no result | | | |" % (rd, prop, k))
            continue
        if not r.get("patch_applies", True):
            out.append("| %s | %s | %s | %s | patch no longer applies to HEAD (the lines it edits were changed by a later `fix:` commit) | | | |" % (rd, prop, k, "harmless" if r.get("harmless") else "breaking"))
            continue
        own = r["checks"].get(prop)
        also = []
        for c, v in r["checks"].items():
            if c != prop:
                also.append("%s: %s" % (c, verdict(v)))
        kind = "harmless" if r.get("harmless") else "breaking"
        vd = verdict(own) if own else "not run"
        caught_somewhere = any("concrete" in verdict(v) for v in r["checks"].values())
        if r.get("harmless"):
            n_h += 1
            if all(verdict(v) == "quiet" for v in r["checks"].values()):
                n_hq += 1
            else:
                bad.append(name + ": harmless but alarm")
        else:
            n_b += 1
            if caught_somewhere:
                n_bc += 1
            elif any("VIOLATION" in verdict(v) for v in r["checks"].values()):
                n_bn += 1
                bad.append(name + ": only no-failing-input-found")
            else:
                bad.append(name + ": missed")
            if not r.get("confirmed"):
                bad.append(name + ": not confirmed (tests=%s demo_fails=%s demo_passes_clean=%s)" % (r.get("tests_pass"), r.get("demo_fails_with_change"), r.get("demo_passes_without_change")))
        out.append("| %s | %s | %s | %s | %s | %s | %s | %s |" % (rd, prop, k, kind, vd, (own or {}).get("replay_kind") or "", (own or {}).get("wall_s", ""), "; ".join(also)))
    out += ["", "Totals: %d breaking seeds, %d reported with a concrete replay by the property's check or the check that owns the manifestation, %d reported only with `no-failing-input-found`; "
            "%d harmless seeds, %d quiet." % (n_b, n_bc, n_bn, n_h, n_hq), ""]
    if bad:
        out += ["Anomalies:"] + ["* " + b for b in bad] + [""]
    notes = os.path.join(VERIF, "seeded", "NOTES.md")
    if os.path.exists(notes) and not os.environ.get("SEED_RESULTS_FILE"):
        out += [open(notes).read()]
    open(os.path.join(VERIF, "seeded", os.environ.get("SEED_RESULTS_FILE", "RESULTS.md")), "w").write("\n".join(out) + "\n")
    print("\n".join(out[-12:]))


if __name__ == "__main__":
    main()
