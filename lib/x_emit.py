"""x_emit — classify every source of run-to-run variation in the generator and its four plugins (property C16, PARTIAL).

Reads (AST only): generator/plugins/{python,rust,dotnet,testdata}/*.py and generator/*.py (model.py, __main__.py: the same
                  set / random / listing scan, no ownership analysis); module-level state of all of generator/ via
                  lib/emit_modstate.py (classes SModConst / SMemoPure / SModState, see there for the decision procedure)
Emits:            <out.v>    Gen.EmitData: `sites : list site`, `plugins : list plugin` (types of LSP.Emit)
                  <out.json> the same with the reasoning chain per site

Sites:  set(...) / frozenset(...) / {a, b} / set comprehensions                       (hash-seed dependent iteration order)
        reads of the random `.id_` attribute of model objects; calls of uuid.* / random.* / secrets.* / id() / hash() /
        time.* / datetime.now / os.getpid / os.urandom                                (run dependent values)
        uses of a dict that is keyed by such ids
        directory listings: .glob / .rglob / .iterdir / os.listdir / os.scandir / os.walk / glob.glob   (OS dependent order)
Each site is classified by its consumer, following the value upwards through transparent wrappers (list(), tuple(),
comprehensions, +, |), through local variables and `self.x` attributes (all uses), through `return` (all call sites in the
plugin) and through arguments of plugin functions (all uses of the parameter), depth <= 5:
        SSorted      reaches sorted(...) (or min/max) before anything order dependent, sorted WITHOUT a key or with a key that
                     is injective for syntactic reasons (`lambda x: x`, `lambda x: (..., x, ...)`)
        SSortedByKey reaches sorted/min/max(..., key=k) with any other k: the sort is stable, elements with equal keys keep the
                     iteration order of the set (NOT covered)
        SMember      only `x in S` tests                 SSize   only len()/truth value/any/all/sum
        SKeyOnly     id used as dict key / `in` on a dict / == comparison      SErrorOnly   only inside raise / logging
        SValuesOnly  .values() of the id-keyed dict      SDeleteOnly / SKeyedWrite   listing only deleted / one write per item
                     (SDeleteOnly also for `v = list(<listing>)` + a loop over the once-bound local v that only deletes: Plugin.snapshot_delete)
        SIdSource    a uuid/random value that is only stored as the `id_` field of a model object (its reads are sites themselves)
        SExposed     anything else (fail-closed): iteration order or value may reach the output
        SModConst / SMemoPure / SModState   module-level state (emit_modstate): constant after import / pure memo / changed by a
                     function (NOT covered: the output may depend on what the process generated before)
Plugins: the function exported as `generate` of each plugin, with the helper functions of the plugin package it calls (followed
recursively, parameters bound to the arguments of each call; see Plugin.ownership for the order-of-effects argument): does an
unconditional cleanup (a loop that only unlinks <dir>.glob(PAT) — a method of a path object, directly or through a snapshot
`v = list(<dir>.glob(PAT))`; NOT glob.glob(os.path.join(dir, PAT)) of the glob module, which reads the directory name as a pattern
too and lists nothing in a directory called `out[1]`) complete before the first write, are the written names fixed
string constants, do all written names match the cleaned pattern.  Writes are <path>.write_text/.write_bytes, open() in a
writing mode, shutil / os copy-move-rename calls; a write whose file name cannot be resolved counts as not owned (fail-closed).
usage: x_emit.py <out.v> <out.json>
"""
import ast
import json
import os
import sys

import emit_modstate
from vcommon import REPO, q, write_if_changed

PLUGROOT = os.path.join(REPO, "generator", "plugins")
PLUGINS = ["python", "rust", "dotnet", "testdata"]
ORDER = {"SExposed": 0, "SSortedByKey": 0, "SModState": 0, "SModConst": 9, "SMemoPure": 9, "SIdSource": 9, "SSorted": 1, "SKeyedWrite": 2, "SDeleteOnly": 3, "SValuesOnly": 4, "SMember": 5, "SSize": 6, "SKeyOnly": 7, "SErrorOnly": 8}
TRANSPARENT = {"list", "tuple", "iter", "enumerate", "reversed", "set", "frozenset", "filter", "map", "zip", "chain"}
AGG = {"len", "any", "all", "sum", "bool"}
SORTERS = {"sorted", "min", "max"}
SET_MUT = {"add", "update", "discard", "remove", "clear", "difference_update", "intersection_update", "symmetric_difference_update"}
RANDOM_CALLS = {"uuid", "random", "secrets"}
RANDOM_FUNCS = {"id", "hash", "getpid", "urandom", "time", "time_ns", "now", "utcnow", "today", "perf_counter", "monotonic", "uuid1", "uuid4", "getrandbits"}
LISTING = {"glob", "rglob", "iterdir", "listdir", "scandir", "walk"}
DELETERS = {"unlink", "remove", "rmtree", "rmdir"}
LOGGERS = {"debug", "info", "warning", "error", "exception", "critical", "log", "warn"}


class Reject(Exception):
    pass


def dotted(e):
    parts = []
    while isinstance(e, ast.Attribute):
        parts.append(e.attr)
        e = e.value
    if isinstance(e, ast.Name):
        parts.append(e.id)
        return ".".join(reversed(parts))
    return None


def injective_key(e):
    """key=<e> of sorted/min/max is injective for syntactic reasons: `lambda x: x` or `lambda x: (..., x, ...)`; the constant
    None (= no key)"""
    if isinstance(e, ast.Constant) and e.value is None:
        return True
    if not (isinstance(e, ast.Lambda) and len(e.args.args) == 1 and not e.args.vararg and not e.args.kwarg and not e.args.kwonlyargs
            and not e.args.posonlyargs and not e.args.defaults):
        return False
    x = e.args.args[0].arg
    b = e.body
    if isinstance(b, ast.Name) and b.id == x:
        return True
    return isinstance(b, ast.Tuple) and any(isinstance(t, ast.Name) and t.id == x for t in b.elts)


def own_walk(g):
    """all nodes below g without descending into nested function / class definitions (their bodies run when they are called,
    not where they are written); lambdas are descended into (over-approximation: their effects count at the place of definition)"""
    stack = list(ast.iter_child_nodes(g))
    while stack:
        n = stack.pop()
        yield n
        if isinstance(n, (ast.FunctionDef, ast.AsyncFunctionDef, ast.ClassDef)):
            continue
        stack.extend(ast.iter_child_nodes(n))


def call_name(n):
    return n.func.id if isinstance(n.func, ast.Name) else (n.func.attr if isinstance(n.func, ast.Attribute) else None)


def weakest(classes):
    classes = [c for c in classes if c]
    if not classes:
        return None
    return min(classes, key=lambda c: ORDER[c[0]])


class Plugin:
    def __init__(self, name, directory=None):
        self.name = name
        self.dir = directory or os.path.join(PLUGROOT, name)
        self.rel = os.path.relpath(self.dir, REPO).replace(os.sep, "/")
        self.mods = {}
        self.funcs = {}        # simple name -> [FunctionDef]
        self.classes = {}      # simple name -> [ClassDef]
        for fn in sorted(os.listdir(self.dir)):
            if fn.endswith(".py"):
                path = os.path.join(self.dir, fn)
                tree = ast.parse(open(path).read(), filename=path)
                for n in ast.walk(tree):
                    for ch in ast.iter_child_nodes(n):
                        ch._parent = n
                        ch._file = self.rel + "/" + fn
                tree._file = self.rel + "/" + fn
                self.mods[fn] = tree
                for n in ast.walk(tree):
                    if isinstance(n, (ast.FunctionDef, ast.AsyncFunctionDef)):
                        self.funcs.setdefault(n.name, []).append(n)
                    if isinstance(n, ast.ClassDef):
                        self.classes.setdefault(n.name, []).append(n)

    # ---- helpers
    @staticmethod
    def enclosing(n, kinds):
        p = getattr(n, "_parent", None)
        while p is not None and not isinstance(p, kinds):
            p = getattr(p, "_parent", None)
        return p

    def in_raise_or_log(self, n):
        p = n
        while p is not None:
            if isinstance(p, ast.Raise):
                return "inside raise"
            if isinstance(p, ast.Call) and isinstance(p.func, ast.Attribute) and p.func.attr in LOGGERS and (dotted(p.func.value) or "").lower().endswith(("logger", "logging", "log")):
                return "inside a logging call"
            if isinstance(p, ast.stmt):
                if isinstance(p, ast.Assert):
                    return "inside assert"
                break
            p = getattr(p, "_parent", None)
        # statement level: walk up statements too
        st = self.enclosing(n, ast.Raise)
        return "inside raise" if st is not None else None

    # ---- consumer analysis of an unordered value
    def consume(self, node, depth, kind="set"):
        """(class, reason) for how the value of `node` is used"""
        if depth > 5:
            return ("SExposed", "analysis depth exceeded at line %d" % node.lineno)
        p = getattr(node, "_parent", None)
        if p is None:
            return ("SExposed", "no consumer")
        if isinstance(p, ast.Call):
            fname = p.func.id if isinstance(p.func, ast.Name) else (p.func.attr if isinstance(p.func, ast.Attribute) else None)
            is_arg = any(a is node for a in p.args) or any(k.value is node for k in p.keywords)
            if is_arg and isinstance(p.func, ast.Name):
                if fname in SORTERS and p.args and p.args[0] is node:
                    # sorted()/min()/max() are functions of the MULTISET of their elements only when the order they sort by is
                    # antisymmetric on the elements.  With key=k Python's sort is stable (min/max return the first extremal
                    # element): elements whose keys compare equal come out in the iteration order of the set, so the result
                    # depends on the hash seed unless k is injective on the elements (Emit.key_sorted_perm_invariant needs
                    # `key_inj`; Emit.key_sorted_ties_exposed is the counter-example without it).  Injectivity is accepted
                    # only syntactically: no key, `lambda x: x`, or a lambda returning a tuple that contains x itself.
                    kw = next((k for k in p.keywords if k.arg == "key"), None)
                    if any(k.arg is None for k in p.keywords):
                        return ("SSortedByKey", "%s(..., **kwargs) at line %d: a key function cannot be excluded" % (fname, p.lineno))
                    if kw is None or injective_key(kw.value):
                        return ("SSorted", "%s(...) at line %d%s" % (fname, p.lineno, "" if kw is None else " (key contains the element itself: injective)"))
                    return ("SSortedByKey", "%s(..., key=%s) at line %d: the key is not known to be injective; elements with equal keys "
                                            "keep the iteration order of the set" % (fname, ast.unparse(kw.value)[:40], p.lineno))
                if fname in AGG:
                    return ("SSize", "%s(...) at line %d" % (fname, p.lineno))
                if fname in TRANSPARENT:
                    return self.consume(p, depth, kind)
                if fname in self.funcs:
                    return self.param_uses(p, node, fname, depth)
                return ("SExposed", "passed to %s() at line %d" % (fname, p.lineno))
            if is_arg and isinstance(p.func, ast.Attribute):
                if fname in SET_MUT or fname in ("issubset", "issuperset", "isdisjoint", "union", "intersection", "difference"):
                    return self.consume(p, depth, kind) if fname in ("union", "intersection", "difference") else ("SMember", "set algebra %s at line %d" % (fname, p.lineno))
                if fname in self.funcs:
                    return self.param_uses(p, node, fname, depth)
                return ("SExposed", "passed to .%s() at line %d" % (fname, p.lineno))
            if isinstance(p.func, ast.Attribute) and p.func.value is node:
                # method called on the set itself
                if fname in SET_MUT or fname in ("issubset", "issuperset", "isdisjoint", "__contains__", "copy"):
                    return ("SMember", "method .%s at line %d" % (fname, p.lineno)) if fname != "copy" else self.consume(p, depth, kind)
                if fname in ("union", "intersection", "difference", "symmetric_difference"):
                    return self.consume(p, depth, kind)
                return ("SExposed", "method .%s at line %d" % (fname, p.lineno))
        if isinstance(p, ast.Attribute) and p.value is node:
            gp = getattr(p, "_parent", None)
            if isinstance(gp, ast.Call) and gp.func is p:
                # method called on the set itself
                m = p.attr
                if m in SET_MUT or m in ("issubset", "issuperset", "isdisjoint", "__contains__"):
                    return ("SMember", "method .%s at line %d" % (m, gp.lineno))
                if m in ("union", "intersection", "difference", "symmetric_difference", "copy"):
                    return self.consume(gp, depth, kind)
                return ("SExposed", "method .%s at line %d" % (m, gp.lineno))
            return self.consume(p, depth, kind)
        if isinstance(p, ast.Compare):
            if any(c is node for c in p.comparators) and all(isinstance(o, (ast.In, ast.NotIn)) for o in p.ops):
                return ("SMember", "`in` test at line %d" % p.lineno)
            if all(isinstance(o, (ast.Eq, ast.NotEq, ast.LtE, ast.GtE, ast.Lt, ast.Gt)) for o in p.ops):
                return ("SMember", "set comparison at line %d" % p.lineno)
            if p.left is node and all(isinstance(o, (ast.In, ast.NotIn)) for o in p.ops):
                return ("SMember", "compared as a whole (== against the elements of a container) at line %d" % p.lineno)
        if isinstance(p, ast.BinOp):
            return self.consume(p, depth, kind)
        if isinstance(p, (ast.BoolOp, ast.UnaryOp)) or (isinstance(p, (ast.If, ast.While, ast.IfExp)) and p.test is node):
            return ("SSize", "truth value at line %d" % p.lineno)
        if isinstance(p, ast.comprehension) and p.iter is node:
            comp = p._parent
            return self.consume(comp, depth, kind)
        if isinstance(p, ast.Starred):
            return self.consume(p, depth, kind)
        if isinstance(p, (ast.Assign, ast.AnnAssign)) and p.value is node:
            tgs = p.targets if isinstance(p, ast.Assign) else [p.target]
            if len(tgs) == 1:
                return self.var_uses(tgs[0], p, depth)
            return ("SExposed", "multiple assignment at line %d" % p.lineno)
        if isinstance(p, ast.AugAssign) and p.value is node:
            return self.var_uses(p.target, p, depth)
        if isinstance(p, ast.Return):
            fn = self.enclosing(p, (ast.FunctionDef, ast.AsyncFunctionDef))
            return self.call_sites(fn, depth)
        if isinstance(p, ast.arguments):
            # default value of a parameter: all uses of the parameter
            fn = p._parent
            names = [a.arg for a in p.posonlyargs + p.args]
            pname = None
            for i, d in enumerate(p.defaults):
                if d is node:
                    pname = names[len(names) - len(p.defaults) + i]
            for k, d in zip(p.kwonlyargs, p.kw_defaults):
                if d is node:
                    pname = k.arg
            if pname is None:
                return ("SExposed", "default value at line %d" % node.lineno)
            rs = [self.consume(n, depth + 1) for n in ast.walk(fn) if isinstance(n, ast.Name) and n.id == pname and isinstance(n.ctx, ast.Load)]
            w = weakest(rs) or ("SSize", "never read")
            return (w[0], "default of parameter %s: %s" % (pname, w[1]))
        if isinstance(p, ast.For) and p.iter is node:
            return ("SExposed", "for-loop over it at line %d" % p.lineno)
        if isinstance(p, ast.Expr):
            return ("SSize", "value discarded at line %d" % p.lineno)
        if isinstance(p, ast.keyword):
            return self.consume(p, depth, kind) if False else ("SExposed", "keyword argument at line %d" % node.lineno)
        return ("SExposed", "%s at line %d" % (type(p).__name__, getattr(p, "lineno", node.lineno)))

    def var_uses(self, target, stmt, depth):
        """all uses of a variable / self attribute that was assigned an unordered value"""
        key = dotted(target)
        if key is None:
            return ("SExposed", "stored into %s at line %d" % (ast.unparse(target), stmt.lineno))
        if "." in key:
            scope = self.enclosing(stmt, ast.ClassDef) or self.enclosing(stmt, ast.Module)
        else:
            scope = self.enclosing(stmt, (ast.FunctionDef, ast.AsyncFunctionDef)) or self.enclosing(stmt, ast.Module)
        res = []
        for n in ast.walk(scope):
            if isinstance(n, (ast.Name, ast.Attribute)) and isinstance(getattr(n, "ctx", None), ast.Load) and dotted(n) == key:
                if isinstance(getattr(n, "_parent", None), ast.Attribute) and dotted(n._parent) is not None and isinstance(n._parent.ctx, ast.Load) \
                        and not isinstance(getattr(n._parent, "_parent", None), ast.Call):
                    continue
                res.append(self.consume(n, depth + 1))
        if not res:
            return ("SSize", "variable %s never read" % key)
        w = weakest(res)
        return (w[0], "variable %s: %s" % (key, w[1]))

    def param_uses(self, call, argnode, fname, depth):
        res = []
        for fn in self.funcs[fname]:
            params = [a.arg for a in fn.args.args]
            if params and params[0] in ("self", "cls") and isinstance(call.func, ast.Attribute):
                params = params[1:]
            pname = None
            for i, a in enumerate(call.args):
                if a is argnode and i < len(params):
                    pname = params[i]
            for k in call.keywords:
                if k.value is argnode:
                    pname = k.arg
            if pname is None:
                return ("SExposed", "cannot match argument of %s() at line %d" % (fname, call.lineno))
            uses = [n for n in ast.walk(fn) if isinstance(n, ast.Name) and n.id == pname and isinstance(n.ctx, ast.Load)]
            rs = [self.consume(n, depth + 1) for n in uses] or [("SSize", "parameter %s of %s never read" % (pname, fname))]
            w = weakest(rs)
            res.append((w[0], "parameter %s of %s(): %s" % (pname, fname, w[1])))
        return weakest(res)

    def call_sites(self, fn, depth):
        if fn is None:
            return ("SExposed", "return outside a function")
        sites = []
        for tree in self.mods.values():
            for n in ast.walk(tree):
                if isinstance(n, ast.Call):
                    nm = n.func.id if isinstance(n.func, ast.Name) else (n.func.attr if isinstance(n.func, ast.Attribute) else None)
                    if nm == fn.name:
                        sites.append(n)
        if not sites:
            return ("SExposed", "returned from %s(), which has no call site inside the plugin" % fn.name)
        rs = [self.consume(c, depth + 1) for c in sites]
        w = weakest(rs)
        return (w[0], "returned from %s() (%d call sites): %s" % (fn.name, len(sites), w[1]))

    # ---- ids
    def id_source(self, node):
        """a random value whose only destination is the `id_` field of a model object: follows str()/format wrappers, a lambda
        body, the converter=/factory=/default= keyword of a field declaration, up to `id_ = ...` / `x.id_ = ...`"""
        n = node
        for _ in range(8):
            p = getattr(n, "_parent", None)
            if p is None:
                return None
            if isinstance(p, ast.Call) and any(a is n for a in p.args) and isinstance(p.func, ast.Name) and p.func.id in ("str", "repr", "format"):
                n = p
            elif isinstance(p, ast.Attribute) and p.value is n and p.attr in ("hex", "urn", "int"):
                n = p
            elif isinstance(p, (ast.FormattedValue, ast.JoinedStr)):
                n = p
            elif isinstance(p, ast.Lambda) and p.body is n:
                n = p
            elif isinstance(p, ast.keyword) and p.arg in ("converter", "factory", "default", "default_factory"):
                n = p._parent
            elif isinstance(p, ast.Call) and p.func is n and isinstance(n, ast.Attribute):
                n = p
            elif isinstance(p, (ast.Assign, ast.AnnAssign)) and p.value is n:
                tgs = p.targets if isinstance(p, ast.Assign) else [p.target]
                names = [t.id if isinstance(t, ast.Name) else (t.attr if isinstance(t, ast.Attribute) else None) for t in tgs]
                if names and all(x == "id_" for x in names):
                    return ("SIdSource", "stored only as the id_ field (line %d)" % p.lineno)
                return None
            elif isinstance(p, ast.Return):
                fn = self.enclosing(p, (ast.FunctionDef, ast.Lambda))
                if isinstance(fn, ast.Lambda):
                    n = fn
                else:
                    return None
            else:
                return None
        return None

    def id_consumer(self, node):
        why = self.in_raise_or_log(node)
        if why:
            return ("SErrorOnly", why)
        p = node._parent
        if isinstance(p, ast.Subscript) and p.slice is node:
            return ("SKeyOnly", "dict key at line %d" % p.lineno)
        if isinstance(p, ast.Compare):
            if p.left is node and all(isinstance(o, (ast.In, ast.NotIn)) for o in p.ops):
                return ("SKeyOnly", "`in` test at line %d" % p.lineno)
            if all(isinstance(o, (ast.Eq, ast.NotEq, ast.Is, ast.IsNot)) for o in p.ops):
                return ("SKeyOnly", "identity comparison at line %d" % p.lineno)
        if isinstance(p, ast.Call) and isinstance(p.func, ast.Attribute) and p.func.attr in ("get", "pop", "setdefault", "__contains__", "add", "discard", "remove") \
                and p.args and p.args[0] is node:
            return ("SKeyOnly", ".%s(key) at line %d" % (p.func.attr, p.lineno))
        if isinstance(p, ast.FormattedValue) or isinstance(p, ast.JoinedStr):
            return ("SExposed", "formatted into a string at line %d" % node.lineno)
        return ("SExposed", "%s at line %d" % (type(p).__name__, node.lineno))

    def scan(self):
        sites = []
        id_dicts = set()
        for fn, tree in self.mods.items():
            f = self.rel + "/" + fn
            for n in ast.walk(tree):
                # sets
                if (isinstance(n, ast.Call) and isinstance(n.func, ast.Name) and n.func.id in ("set", "frozenset")) or isinstance(n, (ast.Set, ast.SetComp)):
                    if isinstance(n, ast.Call) and not n.args and not n.keywords:
                        c = self.consume(n, 0)       # empty set(): a variable that is filled later
                    else:
                        c = self.consume(n, 0)
                    sites.append({"file": f, "line": n.lineno, "what": ast.unparse(n)[:70], "kind": "set", "class": c[0], "why": c[1]})
                # random ids
                if isinstance(n, ast.Attribute) and n.attr == "id_" and isinstance(n.ctx, ast.Load):
                    c = self.id_consumer(n)
                    sites.append({"file": f, "line": n.lineno, "what": ast.unparse(n)[:70], "kind": "id", "class": c[0], "why": c[1]})
                    if c[0] == "SKeyOnly" and isinstance(n._parent, ast.Subscript):
                        d = dotted(n._parent.value)
                        if d:
                            id_dicts.add((fn, d))
                if isinstance(n, ast.Attribute) and n.attr == "id_" and isinstance(n.ctx, ast.Store):
                    sites.append({"file": f, "line": n.lineno, "what": ast.unparse(n._parent)[:70], "kind": "id", "class": "SKeyOnly", "why": "assignment of an id"})
                if isinstance(n, ast.Call):
                    d = dotted(n.func) or ""
                    parts = d.split(".")
                    if (parts[0] in RANDOM_CALLS and len(parts) > 1) or (len(parts) == 1 and parts[0] in ("id", "hash")) or \
                            (len(parts) > 1 and parts[-1] in RANDOM_FUNCS and parts[0] in ("os", "time", "datetime", "uuid", "random", "secrets")) or \
                            (len(parts) > 2 and parts[0] == "datetime" and parts[-1] in RANDOM_FUNCS):
                        c = self.id_source(n) or self.id_consumer(n)
                        sites.append({"file": f, "line": n.lineno, "what": ast.unparse(n)[:70], "kind": "random", "class": c[0], "why": c[1]})
                    # directory listings
                    last = parts[-1] if d else (n.func.attr if isinstance(n.func, ast.Attribute) else "")
                    if last in LISTING and (isinstance(n.func, ast.Attribute)):
                        c = self.listing(n)
                        sites.append({"file": f, "line": n.lineno, "what": ast.unparse(n)[:70], "kind": "listing", "class": c[0], "why": c[1]})
            # imports of randomness sources are reported too (any use shows up above)
        # uses of the id-keyed dicts
        for fn, d in sorted(id_dicts):
            tree = self.mods[fn]
            for n in ast.walk(tree):
                if isinstance(n, ast.Attribute) and dotted(n) == d and isinstance(n.ctx, ast.Load):
                    p = n._parent
                    f = self.rel + "/" + fn
                    if isinstance(p, ast.Subscript) and p.value is n:
                        continue
                    if isinstance(p, ast.Compare) and any(c is n for c in p.comparators):
                        continue
                    if isinstance(p, ast.Attribute) and p.value is n and isinstance(p._parent, ast.Call):
                        m = p.attr
                        if m == "values":
                            sites.append({"file": f, "line": n.lineno, "what": ast.unparse(p._parent)[:70], "kind": "id-dict", "class": "SValuesOnly", "why": "insertion-ordered values"})
                            continue
                        if m in ("get", "pop", "setdefault", "__contains__"):
                            continue
                        sites.append({"file": f, "line": n.lineno, "what": ast.unparse(p._parent)[:70], "kind": "id-dict", "class": "SExposed", "why": "keys of the id-keyed dict are read via .%s()" % m})
                        continue
                    if isinstance(p, ast.Call) and isinstance(p.func, ast.Name) and p.func.id == "len":
                        continue
                    sites.append({"file": f, "line": n.lineno, "what": ast.unparse(p)[:70], "kind": "id-dict", "class": "SExposed", "why": "the id-keyed dict itself is iterated / passed on"})
        return sites

    # ---- a listing that is materialised into a local before it is deleted
    COPIES = ("list", "tuple", "sorted")

    @staticmethod
    def copy_of(e):
        """the call list(e) / tuple(e) / sorted(e) (one argument, no keywords) that e is the argument of, or None"""
        p = getattr(e, "_parent", None)
        if isinstance(p, ast.Call) and isinstance(p.func, ast.Name) and p.func.id in Plugin.COPIES and len(p.args) == 1 and p.args[0] is e \
                and not p.keywords and not isinstance(e, ast.Starred):
            return p
        return None

    def snapshot_delete(self, n):
        """n = a directory-listing call.  -> (assignment, loop) when the code has the shape

                v = list(<listing>)            # or tuple(..) / sorted(..), possibly nested; the ONLY binding of the local v
                <statements without calls other than logging calls (which may mention len(v))>
                for x in v: x.unlink()         # the only read of v besides len(v) inside a logging call / a raise; body = deleters of
                                               # the item and nothing else
                                               # (also `[x.unlink() for x in v]`, and v wrapped once more in list/tuple/sorted/iter/reversed)

        with both statements in the SAME statement list of the same function, else None.

        Soundness (why this is the same SDeleteOnly / cleanup as `for x in <listing>: x.unlink()`):
        (1) ORDER.  list/tuple/sorted return a sequence L whose elements are exactly the items the listing yields (a permutation of
            them for sorted).  v is a local that is bound exactly once (no other Store/Del of the name, not a parameter, no
            global/nonlocal, no nested scope or lambda mentions it), so every read of v sees L.  The reads are len(v) — a function of
            the multiset, and it only goes into a log message or an exception — and ONE loop that applies a deleter to each element and does nothing else with it: the directory after
            the loop is Emit.delete_all L f, which is the same for every permutation of L (Emit.glob_delete_invariant).  No name of
            L flows anywhere else (the loop variable is used only as the receiver / first argument of the deleter), so neither the
            order nor the names reach the output.
        (2) CLEANUP.  The direct loop deletes what <dir>.glob(PAT) lists while it runs; here L is listed completely BEFORE the first
            deletion, in the state f of the directory at the assignment.  Between the assignment and the loop only statements
            without calls (other than len(v) / logging) are executed, in the same statement list, so the loop starts in the same
            state f and is reached exactly when the assignment was executed: L = the names matching PAT that exist in f, and
            Emit.snapshot_delete_is_cleanup gives delete_all L f = remove_owned owned f — the cleanup step of Emit.run.  (The
            snapshot is the more faithful instance of the abstract step: deleting while a lazy scan is in progress is what the
            direct loop leaves to the implementation of Path.glob.)
        Anything outside this shape (v re-bound, read elsewhere, passed on, returned, captured; a call between listing and loop) is
        not recognised and the site stays SExposed (fail-closed)."""
        e = n
        while self.copy_of(e) is not None:
            e = self.copy_of(e)
        if e is n:
            return None                                     # not materialised (a lazy iterator bound to a name is not handled)
        st = getattr(e, "_parent", None)
        if not (isinstance(st, (ast.Assign, ast.AnnAssign)) and st.value is e):
            return None
        tgs = st.targets if isinstance(st, ast.Assign) else [st.target]
        if len(tgs) != 1 or not isinstance(tgs[0], ast.Name):
            return None
        v = tgs[0].id
        fn = getattr(st, "_parent", None)
        while fn is not None and not isinstance(fn, (ast.FunctionDef, ast.AsyncFunctionDef, ast.ClassDef, ast.Lambda, ast.Module)):
            fn = getattr(fn, "_parent", None)
        if not isinstance(fn, (ast.FunctionDef, ast.AsyncFunctionDef)):
            return None                                     # module / class level: not a local
        a = fn.args
        own_params = a.posonlyargs + a.args + a.kwonlyargs + [x for x in (a.vararg, a.kwarg) if x is not None]
        loads = []
        for x in ast.walk(fn):
            if isinstance(x, ast.Name) and x.id == v:
                if isinstance(x.ctx, ast.Load):
                    loads.append(x)
                elif x is not tgs[0]:
                    return None                             # bound / deleted a second time (assignment, loop target, with, walrus, del)
            elif isinstance(x, (ast.Global, ast.Nonlocal)) and v in x.names:
                return None
            elif isinstance(x, ast.arg) and x.arg == v:
                return None                                 # a parameter of fn or of a nested function / lambda
            elif isinstance(x, ast.alias) and (x.asname or x.name.split(".")[0]) == v:
                return None
            elif isinstance(x, ast.ExceptHandler) and x.name == v:
                return None
            elif isinstance(x, (ast.FunctionDef, ast.AsyncFunctionDef, ast.ClassDef)) and x is not fn and x.name == v:
                return None
            elif type(x).__name__.startswith("Match") and (getattr(x, "name", None) == v or getattr(x, "rest", None) == v):
                return None
        loop = None
        for x in loads:
            q_ = x._parent
            while q_ is not fn:                             # every read stands in fn's own body, not in a nested scope
                if isinstance(q_, (ast.FunctionDef, ast.AsyncFunctionDef, ast.ClassDef, ast.Lambda)):
                    return None
                q_ = q_._parent
            p = x._parent
            if isinstance(p, ast.Call) and isinstance(p.func, ast.Name) and p.func.id == "len" and len(p.args) == 1 and p.args[0] is x and not p.keywords \
                    and self.in_raise_or_log(p):
                continue                                    # the number of listed files, and only in a log message / an exception
            y = x
            w = self.copy_of(y)
            if w is None and isinstance(p, ast.Call) and isinstance(p.func, ast.Name) and p.func.id in ("iter", "reversed") and len(p.args) == 1 \
                    and p.args[0] is x and not p.keywords:
                w = p
            if w is not None:
                y = w
            p = y._parent
            this = None
            if isinstance(p, ast.For) and p.iter is y and self.loop_only_deletes(p):
                this = p
            elif isinstance(p, ast.comprehension) and p.iter is y and isinstance(p.target, ast.Name) and not p.ifs and not p.is_async:
                comp = p._parent
                elt = getattr(comp, "elt", None)
                if isinstance(comp, ast.ListComp) and len(comp.generators) == 1 and isinstance(getattr(comp, "_parent", None), ast.Expr) \
                        and isinstance(elt, ast.Call) and isinstance(elt.func, ast.Attribute) and elt.func.attr in DELETERS \
                        and (dotted(elt.func.value) == p.target.id or (elt.args and dotted(elt.args[0]) == p.target.id)):
                    this = comp._parent                     # the expression statement `[x.unlink() for x in v]`
            if this is None or loop is not None:
                return None                                 # read in another way, or iterated twice
            loop = this
        if loop is None:
            return None
        # same statement list, the loop after the assignment, nothing with a call in between (except len(v) / logging)
        block = None
        for field in ("body", "orelse", "finalbody"):
            lst = getattr(st._parent, field, None)
            if isinstance(lst, list) and any(s is st for s in lst):
                block = lst
        if block is None or not any(s is loop for s in block):
            return None
        i, j = next(k for k, s in enumerate(block) if s is st), next(k for k, s in enumerate(block) if s is loop)
        if j <= i:
            return None
        for s in block[i + 1:j]:
            if not isinstance(s, (ast.Expr, ast.Pass)):
                return None
            for c in ast.walk(s):
                if isinstance(c, (ast.Await, ast.Yield, ast.YieldFrom, ast.NamedExpr, ast.Lambda)):
                    return None
                if isinstance(c, ast.Call):
                    is_len = isinstance(c.func, ast.Name) and c.func.id == "len"
                    is_log = isinstance(c.func, ast.Attribute) and c.func.attr in LOGGERS and (dotted(c.func.value) or "").lower().endswith(("logger", "logging", "log"))
                    if not (is_len or is_log):
                        return None
        return st, loop

    def listing(self, n):
        snap = self.snapshot_delete(n)
        if snap is not None:
            return ("SDeleteOnly", "listing copied into the local %s at line %d (its only binding), which is only iterated by the loop at line %d that "
                                   "only deletes the listed files" % (snap[0].targets[0].id if isinstance(snap[0], ast.Assign) else snap[0].target.id, snap[0].lineno, snap[1].lineno))
        p = n._parent
        if isinstance(p, ast.Call) and isinstance(p.func, ast.Name) and p.func.id in ("list", "tuple", "iter") and len(p.args) == 1 \
                and isinstance(getattr(p, "_parent", None), (ast.For, ast.comprehension)) and p._parent.iter is p:
            n, p = p, p._parent                 # for x in list(d.glob(...)): same as iterating the listing
        if isinstance(p, ast.Call) and isinstance(p.func, ast.Name) and p.func.id in SORTERS:
            gp = getattr(p, "_parent", None)
            if isinstance(gp, ast.For) and gp.iter is p and self.loop_only_deletes(gp):
                return ("SDeleteOnly", "loop at line %d only deletes the (sorted) listed files" % gp.lineno)
            kw = next((k for k in p.keywords if k.arg == "key"), None)
            if any(k.arg is None for k in p.keywords) or (kw is not None and not injective_key(kw.value)):
                # stable sort: entries with equal keys keep the order in which the OS lists them
                return ("SExposed", "%s(<directory listing>, key=...) at line %d: the key is not known to be injective" % (p.func.id, p.lineno))
            return ("SSorted", "sorted(...) at line %d" % p.lineno)
        if isinstance(p, ast.comprehension) and p.iter is n and isinstance(p.target, ast.Name) and not p.ifs:
            comp = p._parent
            elt = getattr(comp, "elt", None)
            if isinstance(elt, ast.Call) and isinstance(elt.func, ast.Attribute) and elt.func.attr in DELETERS and len(comp.generators) == 1 \
                    and (dotted(elt.func.value) == p.target.id or (elt.args and dotted(elt.args[0]) == p.target.id)):
                return ("SDeleteOnly", "comprehension at line %d only deletes the listed files" % comp.lineno)
        if isinstance(p, ast.Call) and isinstance(p.func, ast.Name) and p.func.id in AGG:
            return ("SSize", "%s() at line %d" % (p.func.id, p.lineno))
        if isinstance(p, ast.For) and p.iter is n and isinstance(p.target, ast.Name) and not p.orelse:
            var = p.target.id
            only_delete, keyed = True, True
            for st in p.body:
                if isinstance(st, ast.Expr) and isinstance(st.value, ast.Call) and isinstance(st.value.func, ast.Attribute):
                    c = st.value
                    if c.func.attr in DELETERS and (dotted(c.func.value) == var or (c.args and dotted(c.args[0]) == var)):
                        keyed = False
                        continue
                    only_delete = False
                    if c.func.attr in ("write_text", "write_bytes") and any(isinstance(x, ast.Attribute) and x.attr == "name" and dotted(x.value) == var for x in ast.walk(c.func.value)):
                        continue
                    keyed = False
                elif isinstance(st, ast.Expr) and isinstance(st.value, ast.Call) and isinstance(st.value.func, ast.Name) and self.pure_writer_call(st.value, var):
                    # h(<path built from item.name>, ...) where the plugin function h does nothing but <that parameter>.write_text(...):
                    # the same statement as the direct write above after inlining h
                    only_delete = False
                elif isinstance(st, ast.Assign) and all(isinstance(t, ast.Name) for t in st.targets):
                    only_delete = False
                    for x in ast.walk(st.value):
                        if isinstance(x, ast.Call) and (dotted(x.func) or "").split(".")[-1] in ("append", "extend", "add", "update", "write_text"):
                            keyed = False
                else:
                    only_delete = keyed = False
            if only_delete:
                return ("SDeleteOnly", "loop at line %d only deletes the listed files" % p.lineno)
            if keyed:
                return ("SKeyedWrite", "loop at line %d writes one file per item under the item's own name" % p.lineno)
            return ("SExposed", "loop at line %d over a directory listing" % p.lineno)
        return ("SExposed", "directory listing consumed by %s at line %d" % (type(p).__name__, n.lineno))

    def pure_writer_call(self, call, var):
        """call = h(a1, ..) with h a plugin function whose body is only `<param>.write_text(..)` / `.write_bytes(..)` statements
        (and a docstring) on ONE parameter, and the argument bound to that parameter is a path built from `<var>.name`"""
        defs = self.funcs.get(call.func.id, [])
        if not defs or call.keywords and any(k.arg is None for k in call.keywords):
            return False
        for h in defs:
            params = [a.arg for a in h.args.posonlyargs + h.args.args]
            target = None
            for st in h.body:
                if isinstance(st, ast.Expr) and isinstance(st.value, ast.Constant):
                    continue
                c = st.value if isinstance(st, ast.Expr) else None
                if not (isinstance(c, ast.Call) and isinstance(c.func, ast.Attribute) and c.func.attr in ("write_text", "write_bytes")
                        and isinstance(c.func.value, ast.Name) and c.func.value.id in params and target in (None, c.func.value.id)):
                    return False
                target = c.func.value.id
            if target is None:
                return False
            arg = None
            i = params.index(target)
            if i < len(call.args) and not any(isinstance(a, ast.Starred) for a in call.args[:i + 1]):
                arg = call.args[i]
            for k in call.keywords:
                if k.arg == target:
                    arg = k.value
            if arg is None or not any(isinstance(x, ast.Attribute) and x.attr == "name" and dotted(x.value) == var for x in ast.walk(arg)):
                return False
        return True

    def loop_only_deletes(self, p):
        if not (isinstance(p.target, ast.Name) and not p.orelse):
            return False
        var = p.target.id
        for st in p.body:
            if isinstance(st, ast.Expr) and isinstance(st.value, ast.Constant):
                continue
            if not (isinstance(st, ast.Expr) and isinstance(st.value, ast.Call) and isinstance(st.value.func, ast.Attribute)):
                return False
            c = st.value
            if not (c.func.attr in DELETERS and (dotted(c.func.value) == var or (c.args and dotted(c.args[0]) == var))):
                return False
        return True

    # ---- ownership
    # A context is (function, bindings): the function in whose body an expression is evaluated, and for its parameters the
    # argument expression of the call under analysis together with the context of the caller.
    def str_suffixes(self, e, ctx, depth=0):
        """(list of (is_constant, suffix)) for the possible values of a file-name expression evaluated in ctx"""
        fn, binds = ctx
        if isinstance(e, ast.Constant) and isinstance(e.value, str):
            return [(True, e.value)]
        if isinstance(e, ast.JoinedStr):
            last = e.values[-1] if e.values else None
            return [(False, last.value if isinstance(last, ast.Constant) else "")]
        if isinstance(e, ast.Name) and depth < 9:
            out = []
            for n in ast.walk(fn):
                if isinstance(n, ast.Assign) and any(isinstance(t, ast.Name) and t.id == e.id for t in n.targets):
                    out += self.str_suffixes(n.value, ctx, depth + 1)
                if isinstance(n, (ast.For, ast.comprehension)):
                    it = n.iter
                    while isinstance(it, ast.Call) and isinstance(it.func, ast.Name) and it.func.id in ("sorted", "list", "tuple", "reversed", "iter") and it.args:
                        it = it.args[0]                     # order / copy wrappers do not change the names
                    if isinstance(n.target, ast.Name) and n.target.id == e.id:
                        if isinstance(it, ast.Call) and isinstance(it.func, ast.Attribute) and it.func.attr == "keys" and not it.args:
                            it = it.func.value              # for k in d.keys()
                        out += self.dict_keys(it, ctx, depth + 1)
                    elif isinstance(n.target, ast.Tuple) and any(isinstance(t, ast.Name) and t.id == e.id for t in n.target.elts):
                        first = n.target.elts[0]
                        if isinstance(first, ast.Name) and first.id == e.id and len(n.target.elts) == 2 and isinstance(it, ast.Call) \
                                and isinstance(it.func, ast.Attribute) and it.func.attr == "items" and not it.args:
                            out += self.dict_keys(it.func.value, ctx, depth + 1)       # for k, v in d.items()
                        else:
                            out.append((False, ""))
            if e.id in binds:                               # a parameter: the argument of the call under analysis, in the caller
                out += self.str_suffixes(binds[e.id][0], binds[e.id][1], depth + 1)
            return out or [(False, "?")]
        if isinstance(e, ast.Attribute) and e.attr == "name" and depth < 9:
            return self.listed_suffix(e.value, ctx, depth)
        return [(False, "?")]

    def listed_suffix(self, v, ctx, depth):
        """`v.name` where v runs over `<dir>.glob("*.ext")`: the name ends in .ext"""
        fn, binds = ctx
        if not isinstance(v, ast.Name):
            return [(False, "?")]
        out = []
        for n in ast.walk(fn):
            if isinstance(n, (ast.For, ast.comprehension)) and isinstance(n.target, ast.Name) and n.target.id == v.id:
                it = n.iter
                while isinstance(it, ast.Call) and isinstance(it.func, ast.Name) and it.func.id in ("sorted", "list", "tuple", "reversed", "iter") and it.args:
                    it = it.args[0]
                if isinstance(it, ast.Call) and isinstance(it.func, ast.Attribute) and it.func.attr in ("glob", "rglob") and it.args \
                        and isinstance(it.args[0], ast.Constant) and isinstance(it.args[0].value, str) and it.args[0].value.startswith("*.") \
                        and "/" not in it.args[0].value and not any(ch in it.args[0].value[1:] for ch in "*?["):
                    out.append((False, it.args[0].value[1:]))
                else:
                    out.append((False, "?"))
            if isinstance(n, (ast.Assign, ast.AnnAssign, ast.AugAssign, ast.NamedExpr)):
                tg = n.targets if isinstance(n, ast.Assign) else [n.target]
                if any(isinstance(t, ast.Name) and t.id == v.id for t in tg):
                    out.append((False, "?"))
        if v.id in binds and isinstance(binds[v.id][0], ast.Name) and depth < 9:
            out += self.listed_suffix(binds[v.id][0], binds[v.id][1], depth + 1)
        return out or [(False, "?")]

    def dict_keys(self, e, ctx, depth):
        """file names = keys of the dict that expression e evaluates to"""
        fn, binds = ctx
        if isinstance(e, ast.Dict):
            out = []
            for k in e.keys:
                out += self.str_suffixes(k, ctx, depth) if k is not None else [(False, "?")]
            return out
        if isinstance(e, ast.Name):
            out = []
            for n in ast.walk(fn):
                if isinstance(n, (ast.Assign, ast.AnnAssign)):
                    tg = n.targets if isinstance(n, ast.Assign) else [n.target]
                    if any(isinstance(t, ast.Name) and t.id == e.id for t in tg) and n.value is not None:
                        out += self.dict_keys(n.value, ctx, depth + 1)
                if isinstance(n, ast.Assign) and any(isinstance(t, ast.Subscript) and isinstance(t.value, ast.Name) and t.value.id == e.id for t in n.targets):
                    for t in n.targets:
                        if isinstance(t, ast.Subscript):
                            out += self.str_suffixes(t.slice, ctx, depth + 1)
            if e.id in binds and depth < 9:
                out += self.dict_keys(binds[e.id][0], binds[e.id][1], depth + 1)
            return out or [(False, "?")]
        if isinstance(e, ast.Call) and depth < 9:
            nm = call_name(e)
            out = []
            for g in self.funcs.get(nm, []):
                for r in ast.walk(g):
                    if isinstance(r, ast.Return) and r.value is not None:
                        out += self.dict_keys(r.value, (g, {}), depth + 1)
            if out:
                return out
        return [(False, "?")]

    @staticmethod
    def path_name(pe):
        """the file-name part of a path expression:  d / name,  d.joinpath(name),  Path(d, name)"""
        if isinstance(pe, ast.BinOp) and isinstance(pe.op, ast.Div):
            return pe.right
        if isinstance(pe, ast.Call) and pe.args and not pe.keywords:
            last = call_name(pe)
            if last == "joinpath" or (last in ("Path", "PurePath", "join") and len(pe.args) >= 2):
                return pe.args[-1]
        return None

    def target_names(self, pe, ctx, depth=0):
        """possible (is_constant, suffix) of the file name of the path expression pe, evaluated in ctx.  A local name is followed
        through all its assignments in the function, a parameter through the argument of the call under analysis."""
        fn, binds = ctx
        if depth > 8:
            return [(False, "?")]
        ne = self.path_name(pe)
        if ne is not None:
            return self.str_suffixes(ne, ctx)
        if isinstance(pe, ast.Name):
            out = []
            for m in ast.walk(fn):
                if isinstance(m, (ast.Assign, ast.AnnAssign)) and m.value is not None \
                        and any(isinstance(t, ast.Name) and t.id == pe.id for t in (m.targets if isinstance(m, ast.Assign) else [m.target])):
                    out += self.target_names(m.value, ctx, depth + 1)
                elif isinstance(m, (ast.For, ast.comprehension, ast.AugAssign, ast.NamedExpr, ast.withitem)):
                    tg = m.optional_vars if isinstance(m, ast.withitem) else m.target
                    if tg is not None and any(isinstance(t, ast.Name) and t.id == pe.id for t in ast.walk(tg)):
                        out.append((False, "?"))
            if pe.id in binds:
                out += self.target_names(binds[pe.id][0], binds[pe.id][1], depth + 1)
            return out or [(False, "?")]
        return [(False, "?")]

    def callee_defs(self, call):
        """definitions a call may run, by simple name: plugin functions / methods of that name; for a plugin class, its special
        methods (__init__, __post_init__, __enter__, ...: instantiation and use of the instance, over-approximated)"""
        nm = call_name(call)
        defs = list(self.funcs.get(nm, []))
        for c in self.classes.get(nm, []):
            defs += [m for m in c.body if isinstance(m, (ast.FunctionDef, ast.AsyncFunctionDef)) and m.name.startswith("__") and m.name.endswith("__")]
        return defs

    @staticmethod
    def writer_call(n):
        """None, or how call n writes a file: 'method' (<path>.write_text / .write_bytes), 'open' (<path>.open(mode) / open(path, mode)
        with a writing mode or a mode that is not a constant), 'other' (shutil copies / moves, os.rename / replace / link, Path.rename / touch / symlink_to ...)"""
        nm = call_name(n)
        d = dotted(n.func) or ""
        if isinstance(n.func, ast.Attribute) and nm in ("write_text", "write_bytes"):
            return "method"
        if nm == "open":
            is_method = isinstance(n.func, ast.Attribute) and d not in ("io.open", "os.open", "codecs.open", "builtins.open")
            mode = n.args[0 if is_method else 1] if len(n.args) > (0 if is_method else 1) else next((k.value for k in n.keywords if k.arg in ("mode", "flags")), None)
            if mode is None and not any(k.arg is None for k in n.keywords):
                return None                                 # default mode "r"
            if isinstance(mode, ast.Constant) and isinstance(mode.value, str) and not any(ch in mode.value for ch in "wax+"):
                return None
            return "open"
        root = d.split(".")[0]
        if (root == "shutil" and nm in ("copy", "copy2", "copyfile", "copytree", "move", "copyfileobj")) or \
                (root == "os" and nm in ("rename", "replace", "renames", "link", "symlink", "mkfifo", "truncate")) or \
                (isinstance(n.func, ast.Attribute) and nm in ("rename", "touch", "symlink_to", "hardlink_to", "link_to")):
            return "other"
        return None

    def cleanup_loops(self, g):
        """[(node, [patterns])]: loops / comprehensions directly in g that only delete what <dir>.glob(PAT) lists, the listing
        iterated directly or copied into a once-bound local first (snapshot_delete; node = the loop, where the deletions happen)"""
        res = []

        def path_glob(it):
            """<path expression>.glob(PAT) / .rglob(PAT) with a constant pattern: a method of a path OBJECT, which takes the directory
            literally and matches PAT against the names in it.  `glob.glob(..)` / `glob.iglob(..)` of the glob MODULE (or any other
            imported name as receiver) is not that: its whole argument is a pattern, directory part included, so a directory whose
            name contains [ ] * ? is not listed — not a cleanup of the output directory"""
            if not (isinstance(it, ast.Call) and isinstance(it.func, ast.Attribute) and it.func.attr in ("glob", "rglob")
                    and len(it.args) == 1 and not it.keywords and isinstance(it.args[0], ast.Constant) and isinstance(it.args[0].value, str)):
                return False
            root = (dotted(it.func.value) or "").split(".")[0]
            return root not in self.imported_names(it)

        for n in own_walk(g):
            if isinstance(n, (ast.For, ast.comprehension)):
                it = n.iter
                while isinstance(it, ast.Call) and isinstance(it.func, ast.Name) and it.func.id in ("sorted", "list", "tuple", "iter") and it.args:
                    it = it.args[0]
                if path_glob(it):
                    if self.listing(it)[0] == "SDeleteOnly":
                        res.append((n if isinstance(n, ast.For) else n._parent, [it.args[0].value]))
            elif isinstance(n, (ast.Assign, ast.AnnAssign)) and n.value is not None:
                # v = list(<dir>.glob(PAT)); for x in v: x.unlink()   — see snapshot_delete; the cleanup happens at the loop
                it = n.value
                while isinstance(it, ast.Call) and isinstance(it.func, ast.Name) and it.func.id in self.COPIES and len(it.args) == 1 and not it.keywords:
                    it = it.args[0]
                if it is not n.value and path_glob(it):
                    snap = self.snapshot_delete(it)
                    if snap is not None and snap[0] is n:
                        res.append((snap[1], [it.args[0].value]))
        return res

    def imported_names(self, node):
        """names bound by import statements anywhere in the module that contains node"""
        m = node
        while getattr(m, "_parent", None) is not None:
            m = m._parent
        cached = getattr(m, "_imported", None)
        if cached is None:
            cached = set()
            for x in ast.walk(m):
                if isinstance(x, (ast.Import, ast.ImportFrom)):
                    for al in x.names:
                        cached.add(al.asname or al.name.split(".")[0])
            m._imported = cached
        return cached

    @staticmethod
    def unconditional(node, g):
        """node is evaluated on every execution of the body of g that reaches its statement: not under a branch (other than
        `if <p>.exists()/is_dir()`, where the skipped case is a directory that does not exist: nothing to clean), not in a loop
        body, not in a try body with handlers / a handler, not behind a short-circuit"""
        c, p = node, getattr(node, "_parent", None)
        while p is not None and p is not g:
            if isinstance(p, ast.If) and c is not p.test:
                t, neg = p.test, False
                if isinstance(t, ast.UnaryOp) and isinstance(t.op, ast.Not):
                    t, neg = t.operand, True
                exists = isinstance(t, ast.Call) and isinstance(t.func, ast.Attribute) and t.func.attr in ("exists", "is_dir") and not t.args and not t.keywords
                in_body = any(c is s for s in p.body)
                if not (exists and in_body != neg):
                    return False
            elif isinstance(p, (ast.For, ast.AsyncFor)) and c is not p.iter:
                return False
            elif isinstance(p, ast.While):
                return False
            elif isinstance(p, ast.Try) and not (any(c is s for s in p.finalbody) or (not p.handlers and any(c is s for s in p.body))):
                return False
            elif isinstance(p, (ast.ExceptHandler, ast.Lambda, ast.FunctionDef, ast.AsyncFunctionDef, ast.ClassDef)):
                return False
            elif type(p).__name__ in ("Match", "match_case", "TryStar"):
                return False
            elif isinstance(p, ast.IfExp) and c is not p.test:
                return False
            elif isinstance(p, ast.BoolOp) and c is not p.values[0]:
                return False
            elif isinstance(p, (ast.ListComp, ast.SetComp, ast.DictComp, ast.GeneratorExp)):
                return False
            elif isinstance(p, ast.comprehension) and not (c is p.iter and p is p._parent.generators[0] and not isinstance(p._parent, ast.GeneratorExp)):
                return False
            if isinstance(p, ast.comprehension):
                c, p = p._parent, p._parent._parent         # the first iterable of a comprehension is evaluated where the comprehension stands
                continue
            c, p = p, getattr(p, "_parent", None)
        return p is g

    MAXDEPTH = 6

    def ownership(self):
        """Order-of-effects argument (what makes `cleanup_first` / `writes_owned` sound for the functions analysed).
        EFFECTS of the exported `generate` function are collected from its body and — at every call of something defined in the
        plugin package (functions and methods by simple name, all definitions of that name; special methods of plugin classes at
        an instantiation) — from the body of the callee, recursively, each callee with its parameters bound to the argument
        expressions of THAT call.  Only callees that can reach a write or a cleanup at all are entered (fixed point over the
        simple-name call graph); a call chain that is recursive or deeper than MAXDEPTH and can reach a write contributes an
        unknown write (fail-closed).  Writes: <path>.write_text/.write_bytes with the file name resolved through local
        assignments and call arguments (unresolved = unknown name "?"), every open() in a writing or unknown mode and every
        copy / move / rename API (unknown name unless the path resolves).  Cleanups: loops that do nothing but delete
        <dir>.glob(PAT) of a path object (cleanup_loops; a snapshot `v = list(<dir>.glob(PAT))` followed by the delete-only loop
        over v counts at the position of the loop, see snapshot_delete for the argument).
        POSITION of an effect = the chain of source positions (end of the call expression in the caller, ..., position of the
        effect in the innermost callee), compared lexicographically: everything a call does happens where the call ENDS (its
        receiver and arguments are evaluated before the callee runs), in the textual order of the callee's body.  Textual order
        is execution order in straight-line code; a branch or loop can only make an effect happen later or not at all, so
        (a) the set of collected writes over-approximates the files written, and (b) a cleanup counts only if the loop itself and
        every call on its chain are `unconditional` in their function: then it has run to completion at its position on every
        execution that gets past it, and if it precedes the textually first write, no write of this run happens before the owned
        pattern has been emptied.  A cleanup loop contains no write (it only deletes), so its start position is used.
        NOT covered (trusted, see the history stream): effects of code outside the plugin package, calls through values
        (callbacks, getattr), that the cleaned directory is the directory written to."""
        init = self.mods.get("__init__.py")
        entry = None
        for n in ast.walk(init):
            if isinstance(n, ast.ImportFrom):
                for a in n.names:
                    if (a.asname or a.name) == "generate":
                        entry = a.name
        if entry is None or entry not in self.funcs:
            raise Reject("plugin %s: no `generate` export found" % self.name)
        fn = self.funcs[entry][0]

        # which definitions can reach a write / a cleanup at all (least fixed point over the simple-name call graph)
        alldefs = [d for ds in self.funcs.values() for d in ds]
        calls = {id(d): [n for n in own_walk(d) if isinstance(n, ast.Call)] for d in alldefs}
        may_write = {id(d): any(self.writer_call(n) for n in calls[id(d)]) for d in alldefs}
        may_clean = {id(d): bool(self.cleanup_loops(d)) for d in alldefs}
        callees = {id(d): [h for n in calls[id(d)] for h in self.callee_defs(n)] for d in alldefs}
        changed = True
        while changed:
            changed = False
            for d in alldefs:
                for tbl in (may_write, may_clean):
                    if not tbl[id(d)] and any(tbl[id(h)] for h in callees[id(d)]):
                        tbl[id(d)] = changed = True

        events = []      # (position, 'cleanup', patterns, unconditional) | (position, 'write', suffixes, via)

        def bind(call, h, ctx):
            params = [a.arg for a in h.args.posonlyargs + h.args.args]
            if params and params[0] in ("self", "cls") and (isinstance(call.func, ast.Attribute) or call_name(call) in self.classes):
                params = params[1:]
            b = {}
            for i, a in enumerate(call.args):
                if isinstance(a, ast.Starred):
                    break
                if i < len(params):
                    b[params[i]] = (a, ctx)
            for k in call.keywords:
                if k.arg is not None:
                    b[k.arg] = (k.value, ctx)
            return b

        def effects(g, binds, pos, stack, uncond):
            ctx = (g, binds)
            for n, pats in self.cleanup_loops(g):
                events.append((pos + ((n.lineno, n.col_offset),), "cleanup", pats, uncond and self.unconditional(n, g)))
            for n in calls[id(g)]:
                here = pos + ((n.end_lineno, n.end_col_offset),)
                w = self.writer_call(n)
                if w == "method":
                    events.append((here, "write", self.target_names(n.func.value, ctx), g.name))
                elif w == "open":
                    pe = n.func.value if isinstance(n.func, ast.Attribute) else (n.args[0] if n.args else None)
                    events.append((here, "write", self.target_names(pe, ctx) if pe is not None else [(False, "?")], g.name))
                elif w == "other":
                    events.append((here, "write", [(False, "?")], g.name))
                for h in self.callee_defs(n):
                    if not (may_write[id(h)] or may_clean[id(h)]):
                        continue
                    if any(h is s for s in stack) or len(stack) >= self.MAXDEPTH:
                        if may_write[id(h)]:
                            events.append((here, "write", [(False, "?")], "%s (call chain not followed: %s)" % (h.name, "recursive" if any(h is s for s in stack) else "too deep")))
                        continue
                    effects(h, bind(n, h, ctx), here, stack + [h], uncond and self.unconditional(n, g))

        effects(fn, {}, (), [fn], True)
        events.sort(key=lambda e: e[0])
        writes = [e for e in events if e[1] == "write"]
        if not writes:
            raise Reject("plugin %s: no write found in %s or in what it calls inside the plugin package" % (self.name, entry))
        first_write = writes[0][0]
        cleans = [e for e in events if e[1] == "cleanup" and e[3] and e[0] < first_write]
        cleanup_first = bool(cleans)
        pats = [p for c in cleans for p in c[2]]
        sfx = [s for w in writes for s in w[2]]
        fixed = all(c for c, _ in sfx)
        if cleanup_first:
            exts = [p[1:] for p in pats if p.startswith("*.") and "/" not in p and not any(ch in p[1:] for ch in "*?[")]
            owned = all(s.endswith(tuple(exts)) and "/" not in s for _, s in sfx) if exts else False
        else:
            owned = fixed
        return {"name": self.name, "entry": entry, "cleanup_first": cleanup_first, "patterns": pats, "fixed_names": fixed, "writes_owned": owned,
                "written": sorted({("const:" if c else "suffix:") + s for c, s in sfx}),
                "effects": [{"position": [list(x) for x in e[0]], "kind": e[1], "what": sorted({"%s%s" % ("const:" if c else "suffix:", s) for c, s in e[2]}) if e[1] == "write" else e[2],
                             "in" if e[1] == "write" else "unconditional": e[3]} for e in events]}


def main(out_v, out_json):
    sites, plugs = [], []
    for name in PLUGINS:
        if not os.path.isdir(os.path.join(PLUGROOT, name)):
            raise Reject("plugin directory missing: " + name)
        p = Plugin(name)
        sites += p.scan()
        plugs.append(p.ownership())
    # the loader / entry point (model.py, __main__.py): same scan of sets, random values and listings, no ownership
    sites += Plugin("generator", os.path.join(REPO, "generator")).scan()
    # module-level state of all of generator/: output must not depend on what the process generated before
    try:
        msites, minfo = emit_modstate.analyse(REPO)
    except RecursionError as e:
        raise Reject("module-state analysis: recursion limit (%s)" % e)
    sites += msites
    sites.sort(key=lambda s: (s["file"], s["line"], s["what"]))
    v = ["(* generated by lib/x_emit.py from generator/plugins — do not edit *)",
         "From Coq Require Import List String. Import ListNotations.", "From LSP Require Import Emit.", "Open Scope string_scope.", ""]
    for i, s in enumerate(sites):
        v.append("(* %s *)" % s["why"].replace("*)", "* )"))
        v.append("Definition site_%d : site := mkSite %s %d %s %s." % (i, q(s["file"]), s["line"], q(s["what"]), s["class"]))
    v.append("Definition sites : list site := [%s]." % "; ".join("site_%d" % i for i in range(len(sites))))
    for pl in plugs:
        v.append("(* %s: entry %s, cleanup patterns %s, written names %s *)" % (pl["name"], pl["entry"], pl["patterns"], pl["written"]))
    v.append("Definition plugins : list plugin := [%s]." % "; ".join(
        "mkPlugin %s %s %s %s" % (q(pl["name"]), str(pl["cleanup_first"]).lower(), str(pl["fixed_names"]).lower(), str(pl["writes_owned"]).lower()) for pl in plugs))
    v.append("")
    write_if_changed(out_v, "\n".join(v))
    write_if_changed(out_json, json.dumps({"sites": sites, "plugins": plugs, "modstate": minfo}, indent=1, sort_keys=True) + "\n")
    bad = [s for s in sites if s["class"] in ("SExposed", "SSortedByKey", "SModState")]
    print("x_emit: %d sites (%s), %d not covered; %d module-level names immutable and never rebound in %d modules; plugins: %s" % (
        len(sites), ", ".join("%s %d" % (k, sum(1 for s in sites if s["class"] == k)) for k in sorted({s["class"] for s in sites})), len(bad),
        minfo["immutable_module_names"], len(minfo["modules"]),
        ", ".join("%s[cleanup=%s fixed=%s owned=%s]" % (p["name"], p["cleanup_first"], p["fixed_names"], p["writes_owned"]) for p in plugs)))


if __name__ == "__main__":
    try:
        main(sys.argv[1], sys.argv[2])
    except Reject as e:
        print("REJECT: %s" % e)
        sys.exit(3)
    except SyntaxError as e:
        print("REJECT: syntax error in source: %s" % e)
        sys.exit(3)
