"""x_emit — classify every source of run-to-run variation in the generator and its four plugins (property C16, PARTIAL).

Reads (AST only): generator/plugins/{python,rust,dotnet,testdata}/*.py and generator/*.py (model.py, __main__.py: the same
                  set / random / listing scan, no ownership analysis); module-level state of all of generator/ via
                  lib/emit_modstate.py (classes SModConst / SMemoPure / SModState, see there for the decision procedure)
Emits:            <out.v>    Gen.EmitData: `sites : list site`, `plugins : list plugin` (types of LSP.Emit)
                  <out.json> the same with the reasoning chain per site

Sites:  set(...) / frozenset(...) / {a, b} / set comprehensions                       (hash-seed dependent iteration order)
        reads of the random `.id_` attribute of model objects; calls of uuid.* / random.* / secrets.* / id() / hash() /
        time.* / datetime.now / os.getpid / os.urandom                                (run dependent values)
        uses of a dict that is keyed by such ids
        directory listings: .glob / .rglob / .iterdir / os.listdir / os.scandir / os.walk / glob.glob   (OS dependent order)
Each site is classified by its consumer, following the value upwards through transparent wrappers (list(), tuple(),
comprehensions, +, |), through local variables and `self.x` attributes (all uses), through `return` (all call sites in the
plugin) and through arguments of plugin functions (all uses of the parameter), depth <= 5:
        SSorted      reaches sorted(...) (or min/max) before anything order dependent
        SMember      only `x in S` tests                 SSize   only len()/truth value/any/all/sum
        SKeyOnly     id used as dict key / `in` on a dict / == comparison      SErrorOnly   only inside raise / logging
        SValuesOnly  .values() of the id-keyed dict      SDeleteOnly / SKeyedWrite   listing only deleted / one write per item
        SIdSource    a uuid/random value that is only stored as the `id_` field of a model object (its reads are sites themselves)
        SExposed     anything else (fail-closed): iteration order or value may reach the output
        SModConst / SMemoPure / SModState   module-level state (emit_modstate): constant after import / pure memo / changed by a
                     function (NOT covered: the output may depend on what the process generated before)
Plugins: the function exported as `generate` of each plugin: does it call a cleanup (a loop that only unlinks <dir>.glob(PAT))
before its first write, are the written names fixed string constants, do all written names match the cleaned pattern.
usage: x_emit.py <out.v> <out.json>
"""
import ast
import json
import os
import sys

import emit_modstate
from vcommon import REPO, q, write_if_changed

PLUGROOT = os.path.join(REPO, "generator", "plugins")
PLUGINS = ["python", "rust", "dotnet", "testdata"]
ORDER = {"SExposed": 0, "SModState": 0, "SModConst": 9, "SMemoPure": 9, "SIdSource": 9, "SSorted": 1, "SKeyedWrite": 2, "SDeleteOnly": 3, "SValuesOnly": 4, "SMember": 5, "SSize": 6, "SKeyOnly": 7, "SErrorOnly": 8}
TRANSPARENT = {"list", "tuple", "iter", "enumerate", "reversed", "set", "frozenset", "filter", "map", "zip", "chain"}
AGG = {"len", "any", "all", "sum", "bool"}
SORTERS = {"sorted", "min", "max"}
SET_MUT = {"add", "update", "discard", "remove", "clear", "difference_update", "intersection_update", "symmetric_difference_update"}
RANDOM_CALLS = {"uuid", "random", "secrets"}
RANDOM_FUNCS = {"id", "hash", "getpid", "urandom", "time", "time_ns", "now", "utcnow", "today", "perf_counter", "monotonic", "uuid1", "uuid4", "getrandbits"}
LISTING = {"glob", "rglob", "iterdir", "listdir", "scandir", "walk"}
DELETERS = {"unlink", "remove", "rmtree", "rmdir"}
LOGGERS = {"debug", "info", "warning", "error", "exception", "critical", "log", "warn"}


class Reject(Exception):
    pass


def dotted(e):
    parts = []
    while isinstance(e, ast.Attribute):
        parts.append(e.attr)
        e = e.value
    if isinstance(e, ast.Name):
        parts.append(e.id)
        return ".".join(reversed(parts))
    return None


def weakest(classes):
    classes = [c for c in classes if c]
    if not classes:
        return None
    return min(classes, key=lambda c: ORDER[c[0]])


class Plugin:
    def __init__(self, name, directory=None):
        self.name = name
        self.dir = directory or os.path.join(PLUGROOT, name)
        self.rel = os.path.relpath(self.dir, REPO).replace(os.sep, "/")
        self.mods = {}
        self.funcs = {}        # simple name -> [FunctionDef]
        for fn in sorted(os.listdir(self.dir)):
            if fn.endswith(".py"):
                path = os.path.join(self.dir, fn)
                tree = ast.parse(open(path).read(), filename=path)
                for n in ast.walk(tree):
                    for ch in ast.iter_child_nodes(n):
                        ch._parent = n
                        ch._file = self.rel + "/" + fn
                tree._file = self.rel + "/" + fn
                self.mods[fn] = tree
                for n in ast.walk(tree):
                    if isinstance(n, (ast.FunctionDef, ast.AsyncFunctionDef)):
                        self.funcs.setdefault(n.name, []).append(n)

    # ---- helpers
    @staticmethod
    def enclosing(n, kinds):
        p = getattr(n, "_parent", None)
        while p is not None and not isinstance(p, kinds):
            p = getattr(p, "_parent", None)
        return p

    def in_raise_or_log(self, n):
        p = n
        while p is not None:
            if isinstance(p, ast.Raise):
                return "inside raise"
            if isinstance(p, ast.Call) and isinstance(p.func, ast.Attribute) and p.func.attr in LOGGERS and (dotted(p.func.value) or "").lower().endswith(("logger", "logging", "log")):
                return "inside a logging call"
            if isinstance(p, ast.stmt):
                if isinstance(p, ast.Assert):
                    return "inside assert"
                break
            p = getattr(p, "_parent", None)
        # statement level: walk up statements too
        st = self.enclosing(n, ast.Raise)
        return "inside raise" if st is not None else None

    # ---- consumer analysis of an unordered value
    def consume(self, node, depth, kind="set"):
        """(class, reason) for how the value of `node` is used"""
        if depth > 5:
            return ("SExposed", "analysis depth exceeded at line %d" % node.lineno)
        p = getattr(node, "_parent", None)
        if p is None:
            return ("SExposed", "no consumer")
        if isinstance(p, ast.Call):
            fname = p.func.id if isinstance(p.func, ast.Name) else (p.func.attr if isinstance(p.func, ast.Attribute) else None)
            is_arg = any(a is node for a in p.args) or any(k.value is node for k in p.keywords)
            if is_arg and isinstance(p.func, ast.Name):
                if fname in SORTERS and p.args and p.args[0] is node:
                    return ("SSorted", "%s(...) at line %d" % (fname, p.lineno))
                if fname in AGG:
                    return ("SSize", "%s(...) at line %d" % (fname, p.lineno))
                if fname in TRANSPARENT:
                    return self.consume(p, depth, kind)
                if fname in self.funcs:
                    return self.param_uses(p, node, fname, depth)
                return ("SExposed", "passed to %s() at line %d" % (fname, p.lineno))
            if is_arg and isinstance(p.func, ast.Attribute):
                if fname in SET_MUT or fname in ("issubset", "issuperset", "isdisjoint", "union", "intersection", "difference"):
                    return self.consume(p, depth, kind) if fname in ("union", "intersection", "difference") else ("SMember", "set algebra %s at line %d" % (fname, p.lineno))
                if fname in self.funcs:
                    return self.param_uses(p, node, fname, depth)
                return ("SExposed", "passed to .%s() at line %d" % (fname, p.lineno))
            if isinstance(p.func, ast.Attribute) and p.func.value is node:
                # method called on the set itself
                if fname in SET_MUT or fname in ("issubset", "issuperset", "isdisjoint", "__contains__", "copy"):
                    return ("SMember", "method .%s at line %d" % (fname, p.lineno)) if fname != "copy" else self.consume(p, depth, kind)
                if fname in ("union", "intersection", "difference", "symmetric_difference"):
                    return self.consume(p, depth, kind)
                return ("SExposed", "method .%s at line %d" % (fname, p.lineno))
        if isinstance(p, ast.Attribute) and p.value is node:
            gp = getattr(p, "_parent", None)
            if isinstance(gp, ast.Call) and gp.func is p:
                # method called on the set itself
                m = p.attr
                if m in SET_MUT or m in ("issubset", "issuperset", "isdisjoint", "__contains__"):
                    return ("SMember", "method .%s at line %d" % (m, gp.lineno))
                if m in ("union", "intersection", "difference", "symmetric_difference", "copy"):
                    return self.consume(gp, depth, kind)
                return ("SExposed", "method .%s at line %d" % (m, gp.lineno))
            return self.consume(p, depth, kind)
        if isinstance(p, ast.Compare):
            if any(c is node for c in p.comparators) and all(isinstance(o, (ast.In, ast.NotIn)) for o in p.ops):
                return ("SMember", "`in` test at line %d" % p.lineno)
            if all(isinstance(o, (ast.Eq, ast.NotEq, ast.LtE, ast.GtE, ast.Lt, ast.Gt)) for o in p.ops):
                return ("SMember", "set comparison at line %d" % p.lineno)
            if p.left is node and all(isinstance(o, (ast.In, ast.NotIn)) for o in p.ops):
                return ("SMember", "compared as a whole (== against the elements of a container) at line %d" % p.lineno)
        if isinstance(p, ast.BinOp):
            return self.consume(p, depth, kind)
        if isinstance(p, (ast.BoolOp, ast.UnaryOp)) or (isinstance(p, (ast.If, ast.While, ast.IfExp)) and p.test is node):
            return ("SSize", "truth value at line %d" % p.lineno)
        if isinstance(p, ast.comprehension) and p.iter is node:
            comp = p._parent
            return self.consume(comp, depth, kind)
        if isinstance(p, ast.Starred):
            return self.consume(p, depth, kind)
        if isinstance(p, (ast.Assign, ast.AnnAssign)) and p.value is node:
            tgs = p.targets if isinstance(p, ast.Assign) else [p.target]
            if len(tgs) == 1:
                return self.var_uses(tgs[0], p, depth)
            return ("SExposed", "multiple assignment at line %d" % p.lineno)
        if isinstance(p, ast.AugAssign) and p.value is node:
            return self.var_uses(p.target, p, depth)
        if isinstance(p, ast.Return):
            fn = self.enclosing(p, (ast.FunctionDef, ast.AsyncFunctionDef))
            return self.call_sites(fn, depth)
        if isinstance(p, ast.arguments):
            # default value of a parameter: all uses of the parameter
            fn = p._parent
            names = [a.arg for a in p.posonlyargs + p.args]
            pname = None
            for i, d in enumerate(p.defaults):
                if d is node:
                    pname = names[len(names) - len(p.defaults) + i]
            for k, d in zip(p.kwonlyargs, p.kw_defaults):
                if d is node:
                    pname = k.arg
            if pname is None:
                return ("SExposed", "default value at line %d" % node.lineno)
            rs = [self.consume(n, depth + 1) for n in ast.walk(fn) if isinstance(n, ast.Name) and n.id == pname and isinstance(n.ctx, ast.Load)]
            w = weakest(rs) or ("SSize", "never read")
            return (w[0], "default of parameter %s: %s" % (pname, w[1]))
        if isinstance(p, ast.For) and p.iter is node:
            return ("SExposed", "for-loop over it at line %d" % p.lineno)
        if isinstance(p, ast.Expr):
            return ("SSize", "value discarded at line %d" % p.lineno)
        if isinstance(p, ast.keyword):
            return self.consume(p, depth, kind) if False else ("SExposed", "keyword argument at line %d" % node.lineno)
        return ("SExposed", "%s at line %d" % (type(p).__name__, getattr(p, "lineno", node.lineno)))

    def var_uses(self, target, stmt, depth):
        """all uses of a variable / self attribute that was assigned an unordered value"""
        key = dotted(target)
        if key is None:
            return ("SExposed", "stored into %s at line %d" % (ast.unparse(target), stmt.lineno))
        if "." in key:
            scope = self.enclosing(stmt, ast.ClassDef) or self.enclosing(stmt, ast.Module)
        else:
            scope = self.enclosing(stmt, (ast.FunctionDef, ast.AsyncFunctionDef)) or self.enclosing(stmt, ast.Module)
        res = []
        for n in ast.walk(scope):
            if isinstance(n, (ast.Name, ast.Attribute)) and isinstance(getattr(n, "ctx", None), ast.Load) and dotted(n) == key:
                if isinstance(getattr(n, "_parent", None), ast.Attribute) and dotted(n._parent) is not None and isinstance(n._parent.ctx, ast.Load) \
                        and not isinstance(getattr(n._parent, "_parent", None), ast.Call):
                    continue
                res.append(self.consume(n, depth + 1))
        if not res:
            return ("SSize", "variable %s never read" % key)
        w = weakest(res)
        return (w[0], "variable %s: %s" % (key, w[1]))

    def param_uses(self, call, argnode, fname, depth):
        res = []
        for fn in self.funcs[fname]:
            params = [a.arg for a in fn.args.args]
            if params and params[0] in ("self", "cls") and isinstance(call.func, ast.Attribute):
                params = params[1:]
            pname = None
            for i, a in enumerate(call.args):
                if a is argnode and i < len(params):
                    pname = params[i]
            for k in call.keywords:
                if k.value is argnode:
                    pname = k.arg
            if pname is None:
                return ("SExposed", "cannot match argument of %s() at line %d" % (fname, call.lineno))
            uses = [n for n in ast.walk(fn) if isinstance(n, ast.Name) and n.id == pname and isinstance(n.ctx, ast.Load)]
            rs = [self.consume(n, depth + 1) for n in uses] or [("SSize", "parameter %s of %s never read" % (pname, fname))]
            w = weakest(rs)
            res.append((w[0], "parameter %s of %s(): %s" % (pname, fname, w[1])))
        return weakest(res)

    def call_sites(self, fn, depth):
        if fn is None:
            return ("SExposed", "return outside a function")
        sites = []
        for tree in self.mods.values():
            for n in ast.walk(tree):
                if isinstance(n, ast.Call):
                    nm = n.func.id if isinstance(n.func, ast.Name) else (n.func.attr if isinstance(n.func, ast.Attribute) else None)
                    if nm == fn.name:
                        sites.append(n)
        if not sites:
            return ("SExposed", "returned from %s(), which has no call site inside the plugin" % fn.name)
        rs = [self.consume(c, depth + 1) for c in sites]
        w = weakest(rs)
        return (w[0], "returned from %s() (%d call sites): %s" % (fn.name, len(sites), w[1]))

    # ---- ids
    def id_source(self, node):
        """a random value whose only destination is the `id_` field of a model object: follows str()/format wrappers, a lambda
        body, the converter=/factory=/default= keyword of a field declaration, up to `id_ = ...` / `x.id_ = ...`"""
        n = node
        for _ in range(8):
            p = getattr(n, "_parent", None)
            if p is None:
                return None
            if isinstance(p, ast.Call) and any(a is n for a in p.args) and isinstance(p.func, ast.Name) and p.func.id in ("str", "repr", "format"):
                n = p
            elif isinstance(p, ast.Attribute) and p.value is n and p.attr in ("hex", "urn", "int"):
                n = p
            elif isinstance(p, (ast.FormattedValue, ast.JoinedStr)):
                n = p
            elif isinstance(p, ast.Lambda) and p.body is n:
                n = p
            elif isinstance(p, ast.keyword) and p.arg in ("converter", "factory", "default", "default_factory"):
                n = p._parent
            elif isinstance(p, ast.Call) and p.func is n and isinstance(n, ast.Attribute):
                n = p
            elif isinstance(p, (ast.Assign, ast.AnnAssign)) and p.value is n:
                tgs = p.targets if isinstance(p, ast.Assign) else [p.target]
                names = [t.id if isinstance(t, ast.Name) else (t.attr if isinstance(t, ast.Attribute) else None) for t in tgs]
                if names and all(x == "id_" for x in names):
                    return ("SIdSource", "stored only as the id_ field (line %d)" % p.lineno)
                return None
            elif isinstance(p, ast.Return):
                fn = self.enclosing(p, (ast.FunctionDef, ast.Lambda))
                if isinstance(fn, ast.Lambda):
                    n = fn
                else:
                    return None
            else:
                return None
        return None

    def id_consumer(self, node):
        why = self.in_raise_or_log(node)
        if why:
            return ("SErrorOnly", why)
        p = node._parent
        if isinstance(p, ast.Subscript) and p.slice is node:
            return ("SKeyOnly", "dict key at line %d" % p.lineno)
        if isinstance(p, ast.Compare):
            if p.left is node and all(isinstance(o, (ast.In, ast.NotIn)) for o in p.ops):
                return ("SKeyOnly", "`in` test at line %d" % p.lineno)
            if all(isinstance(o, (ast.Eq, ast.NotEq, ast.Is, ast.IsNot)) for o in p.ops):
                return ("SKeyOnly", "identity comparison at line %d" % p.lineno)
        if isinstance(p, ast.Call) and isinstance(p.func, ast.Attribute) and p.func.attr in ("get", "pop", "setdefault", "__contains__", "add", "discard", "remove") \
                and p.args and p.args[0] is node:
            return ("SKeyOnly", ".%s(key) at line %d" % (p.func.attr, p.lineno))
        if isinstance(p, ast.FormattedValue) or isinstance(p, ast.JoinedStr):
            return ("SExposed", "formatted into a string at line %d" % node.lineno)
        return ("SExposed", "%s at line %d" % (type(p).__name__, node.lineno))

    def scan(self):
        sites = []
        id_dicts = set()
        for fn, tree in self.mods.items():
            f = self.rel + "/" + fn
            for n in ast.walk(tree):
                # sets
                if (isinstance(n, ast.Call) and isinstance(n.func, ast.Name) and n.func.id in ("set", "frozenset")) or isinstance(n, (ast.Set, ast.SetComp)):
                    if isinstance(n, ast.Call) and not n.args and not n.keywords:
                        c = self.consume(n, 0)       # empty set(): a variable that is filled later
                    else:
                        c = self.consume(n, 0)
                    sites.append({"file": f, "line": n.lineno, "what": ast.unparse(n)[:70], "kind": "set", "class": c[0], "why": c[1]})
                # random ids
                if isinstance(n, ast.Attribute) and n.attr == "id_" and isinstance(n.ctx, ast.Load):
                    c = self.id_consumer(n)
                    sites.append({"file": f, "line": n.lineno, "what": ast.unparse(n)[:70], "kind": "id", "class": c[0], "why": c[1]})
                    if c[0] == "SKeyOnly" and isinstance(n._parent, ast.Subscript):
                        d = dotted(n._parent.value)
                        if d:
                            id_dicts.add((fn, d))
                if isinstance(n, ast.Attribute) and n.attr == "id_" and isinstance(n.ctx, ast.Store):
                    sites.append({"file": f, "line": n.lineno, "what": ast.unparse(n._parent)[:70], "kind": "id", "class": "SKeyOnly", "why": "assignment of an id"})
                if isinstance(n, ast.Call):
                    d = dotted(n.func) or ""
                    parts = d.split(".")
                    if (parts[0] in RANDOM_CALLS and len(parts) > 1) or (len(parts) == 1 and parts[0] in ("id", "hash")) or \
                            (len(parts) > 1 and parts[-1] in RANDOM_FUNCS and parts[0] in ("os", "time", "datetime", "uuid", "random", "secrets")) or \
                            (len(parts) > 2 and parts[0] == "datetime" and parts[-1] in RANDOM_FUNCS):
                        c = self.id_source(n) or self.id_consumer(n)
                        sites.append({"file": f, "line": n.lineno, "what": ast.unparse(n)[:70], "kind": "random", "class": c[0], "why": c[1]})
                    # directory listings
                    last = parts[-1] if d else (n.func.attr if isinstance(n.func, ast.Attribute) else "")
                    if last in LISTING and (isinstance(n.func, ast.Attribute)):
                        c = self.listing(n)
                        sites.append({"file": f, "line": n.lineno, "what": ast.unparse(n)[:70], "kind": "listing", "class": c[0], "why": c[1]})
            # imports of randomness sources are reported too (any use shows up above)
        # uses of the id-keyed dicts
        for fn, d in sorted(id_dicts):
            tree = self.mods[fn]
            for n in ast.walk(tree):
                if isinstance(n, ast.Attribute) and dotted(n) == d and isinstance(n.ctx, ast.Load):
                    p = n._parent
                    f = self.rel + "/" + fn
                    if isinstance(p, ast.Subscript) and p.value is n:
                        continue
                    if isinstance(p, ast.Compare) and any(c is n for c in p.comparators):
                        continue
                    if isinstance(p, ast.Attribute) and p.value is n and isinstance(p._parent, ast.Call):
                        m = p.attr
                        if m == "values":
                            sites.append({"file": f, "line": n.lineno, "what": ast.unparse(p._parent)[:70], "kind": "id-dict", "class": "SValuesOnly", "why": "insertion-ordered values"})
                            continue
                        if m in ("get", "pop", "setdefault", "__contains__"):
                            continue
                        sites.append({"file": f, "line": n.lineno, "what": ast.unparse(p._parent)[:70], "kind": "id-dict", "class": "SExposed", "why": "keys of the id-keyed dict are read via .%s()" % m})
                        continue
                    if isinstance(p, ast.Call) and isinstance(p.func, ast.Name) and p.func.id == "len":
                        continue
                    sites.append({"file": f, "line": n.lineno, "what": ast.unparse(p)[:70], "kind": "id-dict", "class": "SExposed", "why": "the id-keyed dict itself is iterated / passed on"})
        return sites

    def listing(self, n):
        p = n._parent
        if isinstance(p, ast.Call) and isinstance(p.func, ast.Name) and p.func.id in ("list", "tuple", "iter") and len(p.args) == 1 \
                and isinstance(getattr(p, "_parent", None), (ast.For, ast.comprehension)) and p._parent.iter is p:
            n, p = p, p._parent                 # for x in list(d.glob(...)): same as iterating the listing
        if isinstance(p, ast.Call) and isinstance(p.func, ast.Name) and p.func.id in SORTERS:
            gp = getattr(p, "_parent", None)
            if isinstance(gp, ast.For) and gp.iter is p and self.loop_only_deletes(gp):
                return ("SDeleteOnly", "loop at line %d only deletes the (sorted) listed files" % gp.lineno)
            return ("SSorted", "sorted(...) at line %d" % p.lineno)
        if isinstance(p, ast.comprehension) and p.iter is n and isinstance(p.target, ast.Name) and not p.ifs:
            comp = p._parent
            elt = getattr(comp, "elt", None)
            if isinstance(elt, ast.Call) and isinstance(elt.func, ast.Attribute) and elt.func.attr in DELETERS and len(comp.generators) == 1 \
                    and (dotted(elt.func.value) == p.target.id or (elt.args and dotted(elt.args[0]) == p.target.id)):
                return ("SDeleteOnly", "comprehension at line %d only deletes the listed files" % comp.lineno)
        if isinstance(p, ast.Call) and isinstance(p.func, ast.Name) and p.func.id in AGG:
            return ("SSize", "%s() at line %d" % (p.func.id, p.lineno))
        if isinstance(p, ast.For) and p.iter is n and isinstance(p.target, ast.Name) and not p.orelse:
            var = p.target.id
            only_delete, keyed = True, True
            for st in p.body:
                if isinstance(st, ast.Expr) and isinstance(st.value, ast.Call) and isinstance(st.value.func, ast.Attribute):
                    c = st.value
                    if c.func.attr in DELETERS and (dotted(c.func.value) == var or (c.args and dotted(c.args[0]) == var)):
                        keyed = False
                        continue
                    only_delete = False
                    if c.func.attr in ("write_text", "write_bytes") and any(isinstance(x, ast.Attribute) and x.attr == "name" and dotted(x.value) == var for x in ast.walk(c.func.value)):
                        continue
                    keyed = False
                elif isinstance(st, ast.Assign) and all(isinstance(t, ast.Name) for t in st.targets):
                    only_delete = False
                    for x in ast.walk(st.value):
                        if isinstance(x, ast.Call) and (dotted(x.func) or "").split(".")[-1] in ("append", "extend", "add", "update", "write_text"):
                            keyed = False
                else:
                    only_delete = keyed = False
            if only_delete:
                return ("SDeleteOnly", "loop at line %d only deletes the listed files" % p.lineno)
            if keyed:
                return ("SKeyedWrite", "loop at line %d writes one file per item under the item's own name" % p.lineno)
            return ("SExposed", "loop at line %d over a directory listing" % p.lineno)
        return ("SExposed", "directory listing consumed by %s at line %d" % (type(p).__name__, n.lineno))

    def loop_only_deletes(self, p):
        if not (isinstance(p.target, ast.Name) and not p.orelse):
            return False
        var = p.target.id
        for st in p.body:
            if isinstance(st, ast.Expr) and isinstance(st.value, ast.Constant):
                continue
            if not (isinstance(st, ast.Expr) and isinstance(st.value, ast.Call) and isinstance(st.value.func, ast.Attribute)):
                return False
            c = st.value
            if not (c.func.attr in DELETERS and (dotted(c.func.value) == var or (c.args and dotted(c.args[0]) == var))):
                return False
        return True

    # ---- ownership
    def str_suffixes(self, e, fn, depth=0):
        """(list of (is_constant, suffix)) for the possible values of a file-name expression"""
        if isinstance(e, ast.Constant) and isinstance(e.value, str):
            return [(True, e.value)]
        if isinstance(e, ast.JoinedStr):
            last = e.values[-1] if e.values else None
            return [(False, last.value if isinstance(last, ast.Constant) else "")]
        if isinstance(e, ast.Name) and depth < 9:
            out = []
            for n in ast.walk(fn):
                if isinstance(n, ast.Assign) and any(isinstance(t, ast.Name) and t.id == e.id for t in n.targets):
                    out += self.str_suffixes(n.value, fn, depth + 1)
                if isinstance(n, (ast.For, ast.comprehension)):
                    it = n.iter
                    while isinstance(it, ast.Call) and isinstance(it.func, ast.Name) and it.func.id in ("sorted", "list", "tuple", "reversed", "iter") and it.args:
                        it = it.args[0]                     # order / copy wrappers do not change the names
                    if isinstance(n.target, ast.Name) and n.target.id == e.id:
                        if isinstance(it, ast.Call) and isinstance(it.func, ast.Attribute) and it.func.attr == "keys" and not it.args:
                            it = it.func.value              # for k in d.keys()
                        out += self.dict_keys(it, fn, depth + 1)
                    elif isinstance(n.target, ast.Tuple) and any(isinstance(t, ast.Name) and t.id == e.id for t in n.target.elts):
                        first = n.target.elts[0]
                        if isinstance(first, ast.Name) and first.id == e.id and len(n.target.elts) == 2 and isinstance(it, ast.Call) \
                                and isinstance(it.func, ast.Attribute) and it.func.attr == "items" and not it.args:
                            out += self.dict_keys(it.func.value, fn, depth + 1)       # for k, v in d.items()
                        else:
                            out.append((False, ""))
            return out or [(False, "?")]
        if isinstance(e, ast.Attribute) and e.attr == "name":
            return [(False, "<listed name>")]
        return [(False, "?")]

    def dict_keys(self, e, fn, depth):
        """file names = keys of the dict that expression e evaluates to"""
        if isinstance(e, ast.Dict):
            out = []
            for k in e.keys:
                out += self.str_suffixes(k, fn, depth)
            return out
        if isinstance(e, ast.Name):
            out = []
            for n in ast.walk(fn):
                if isinstance(n, (ast.Assign, ast.AnnAssign)):
                    tg = n.targets if isinstance(n, ast.Assign) else [n.target]
                    if any(isinstance(t, ast.Name) and t.id == e.id for t in tg) and n.value is not None:
                        out += self.dict_keys(n.value, fn, depth + 1)
                if isinstance(n, ast.Assign) and any(isinstance(t, ast.Subscript) and isinstance(t.value, ast.Name) and t.value.id == e.id for t in n.targets):
                    for t in n.targets:
                        if isinstance(t, ast.Subscript):
                            out += self.str_suffixes(t.slice, fn, depth + 1)
            return out
        if isinstance(e, ast.Call) and depth < 9:
            nm = e.func.id if isinstance(e.func, ast.Name) else (e.func.attr if isinstance(e.func, ast.Attribute) else None)
            out = []
            for g in self.funcs.get(nm, []):
                for r in ast.walk(g):
                    if isinstance(r, ast.Return) and r.value is not None:
                        out += self.dict_keys(r.value, g, depth + 1)
            if out:
                return out
        return [(False, "?")]

    def ownership(self):
        init = self.mods.get("__init__.py")
        entry = None
        for n in ast.walk(init):
            if isinstance(n, ast.ImportFrom):
                for a in n.names:
                    if (a.asname or a.name) == "generate":
                        entry = a.name
        if entry is None or entry not in self.funcs:
            raise Reject("plugin %s: no `generate` export found" % self.name)
        fn = self.funcs[entry][0]
        events = []      # (line, 'cleanup', pattern) | (line, 'write', suffixes)

        def cleanup_pattern(g):
            pats = []
            for n in ast.walk(g):
                if isinstance(n, (ast.For, ast.comprehension)):
                    it = n.iter
                    while isinstance(it, ast.Call) and isinstance(it.func, ast.Name) and it.func.id in ("sorted", "list", "tuple", "iter") and it.args:
                        it = it.args[0]
                    if isinstance(it, ast.Call) and isinstance(it.func, ast.Attribute) and it.func.attr in ("glob", "rglob") \
                            and it.args and isinstance(it.args[0], ast.Constant):
                        if self.listing(it)[0] == "SDeleteOnly":
                            pats.append(it.args[0].value)
            return pats

        def visit_fn(g, depth):
            for n in ast.walk(g):
                if isinstance(n, ast.Call):
                    nm = n.func.id if isinstance(n.func, ast.Name) else (n.func.attr if isinstance(n.func, ast.Attribute) else None)
                    if nm in ("write_text", "write_bytes") and isinstance(n.func, ast.Attribute):
                        recv = n.func.value
                        name_e = None
                        def path_name(pe):
                            """the file-name part of a path expression:  d / name,  d.joinpath(name),  Path(d, name)"""
                            if isinstance(pe, ast.BinOp) and isinstance(pe.op, ast.Div):
                                return pe.right
                            if isinstance(pe, ast.Call) and pe.args and not pe.keywords:
                                last = pe.func.attr if isinstance(pe.func, ast.Attribute) else (pe.func.id if isinstance(pe.func, ast.Name) else None)
                                if last == "joinpath" or (last in ("Path", "PurePath", "join") and len(pe.args) >= 2):
                                    return pe.args[-1]
                            return None
                        name_e = path_name(recv)
                        if name_e is None and isinstance(recv, ast.Name):
                            for m in ast.walk(g):
                                if isinstance(m, (ast.Assign, ast.AnnAssign)) and m.value is not None \
                                        and any(isinstance(t, ast.Name) and t.id == recv.id for t in (m.targets if isinstance(m, ast.Assign) else [m.target])):
                                    name_e = path_name(m.value) or name_e
                        sfx = self.str_suffixes(name_e, g) if name_e is not None else [(True, "<fixed path %s>" % ast.unparse(recv))] if isinstance(recv, ast.Name) else [(False, "?")]
                        events.append((n.lineno if g is fn else call_line[0], "write", sfx))
                    elif nm in self.funcs and depth < 2 and g is fn:
                        for h in self.funcs[nm]:
                            pats = cleanup_pattern(h)
                            if pats:
                                events.append((n.lineno, "cleanup", pats))
                            else:
                                call_line[0] = n.lineno
                                if any(isinstance(x, ast.Call) and isinstance(x.func, ast.Attribute) and x.func.attr in ("write_text", "write_bytes") for x in ast.walk(h)):
                                    visit_fn(h, depth + 1)
        call_line = [0]
        visit_fn(fn, 0)
        events.sort(key=lambda e: e[0])
        writes = [e for e in events if e[1] == "write"]
        cleans = [e for e in events if e[1] == "cleanup"]
        if not writes:
            raise Reject("plugin %s: no write found in %s" % (self.name, entry))
        cleanup_first = bool(cleans) and cleans[0][0] < writes[0][0]
        pats = [p for c in cleans for p in c[2]]
        sfx = [s for w in writes for s in w[2]]
        fixed = all(c for c, _ in sfx)
        if cleanup_first:
            exts = [p[1:] for p in pats if p.startswith("*.") and "/" not in p]
            owned = all((s.endswith(tuple(exts)) and "/" not in s) or s == "<listed name>" for _, s in sfx) if exts else False
        else:
            owned = fixed
        return {"name": self.name, "entry": entry, "cleanup_first": cleanup_first, "patterns": pats, "fixed_names": fixed, "writes_owned": owned,
                "written": sorted({("const:" if c else "suffix:") + s for c, s in sfx})}


def main(out_v, out_json):
    sites, plugs = [], []
    for name in PLUGINS:
        if not os.path.isdir(os.path.join(PLUGROOT, name)):
            raise Reject("plugin directory missing: " + name)
        p = Plugin(name)
        sites += p.scan()
        plugs.append(p.ownership())
    # the loader / entry point (model.py, __main__.py): same scan of sets, random values and listings, no ownership
    sites += Plugin("generator", os.path.join(REPO, "generator")).scan()
    # module-level state of all of generator/: output must not depend on what the process generated before
    try:
        msites, minfo = emit_modstate.analyse(REPO)
    except RecursionError as e:
        raise Reject("module-state analysis: recursion limit (%s)" % e)
    sites += msites
    sites.sort(key=lambda s: (s["file"], s["line"], s["what"]))
    v = ["(* generated by lib/x_emit.py from generator/plugins — do not edit *)",
         "From Coq Require Import List String. Import ListNotations.", "From LSP Require Import Emit.", "Open Scope string_scope.", ""]
    for i, s in enumerate(sites):
        v.append("(* %s *)" % s["why"].replace("*)", "* )"))
        v.append("Definition site_%d : site := mkSite %s %d %s %s." % (i, q(s["file"]), s["line"], q(s["what"]), s["class"]))
    v.append("Definition sites : list site := [%s]." % "; ".join("site_%d" % i for i in range(len(sites))))
    for pl in plugs:
        v.append("(* %s: entry %s, cleanup patterns %s, written names %s *)" % (pl["name"], pl["entry"], pl["patterns"], pl["written"]))
    v.append("Definition plugins : list plugin := [%s]." % "; ".join(
        "mkPlugin %s %s %s %s" % (q(pl["name"]), str(pl["cleanup_first"]).lower(), str(pl["fixed_names"]).lower(), str(pl["writes_owned"]).lower()) for pl in plugs))
    v.append("")
    write_if_changed(out_v, "\n".join(v))
    write_if_changed(out_json, json.dumps({"sites": sites, "plugins": plugs, "modstate": minfo}, indent=1, sort_keys=True) + "\n")
    bad = [s for s in sites if s["class"] in ("SExposed", "SModState")]
    print("x_emit: %d sites (%s), %d not covered; %d module-level names immutable and never rebound in %d modules; plugins: %s" % (
        len(sites), ", ".join("%s %d" % (k, sum(1 for s in sites if s["class"] == k)) for k in sorted({s["class"] for s in sites})), len(bad),
        minfo["immutable_module_names"], len(minfo["modules"]),
        ", ".join("%s[cleanup=%s fixed=%s owned=%s]" % (p["name"], p["cleanup_first"], p["fixed_names"], p["writes_owned"]) for p in plugs)))


if __name__ == "__main__":
    try:
        main(sys.argv[1], sys.argv[2])
    except Reject as e:
        print("REJECT: %s" % e)
        sys.exit(3)
    except SyntaxError as e:
        print("REJECT: syntax error in source: %s" % e)
        sys.exit(3)
