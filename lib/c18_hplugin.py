"""Recording generator plugin of the C18 process-history stream (lib/c18_history.py): keeps the model it was handed, read back
attribute by attribute (as r_loader.readback does), and writes that read-back into the output directory - so a step that
reaches the plugin is visible both in CALLS and on disk."""
import json
import os

import attrs

CALLS = []


def readback(v):
    if attrs.has(type(v)):
        r = {}
        for a in attrs.fields(type(v)):
            if a.name == "id_":
                continue
            x = getattr(v, a.name)
            if x is not None:
                r[a.name] = readback(x)
        return r
    if isinstance(v, dict):
        return {k: readback(x) for k, x in v.items()}
    if isinstance(v, (list, tuple)):
        return [readback(x) for x in v]
    return v


def generate(spec, output_dir, test_dir):
    rb = readback(spec)
    CALLS.append(rb)
    os.makedirs(output_dir, exist_ok=True)
    with open(os.path.join(output_dir, "model-as-seen-by-the-plugin.json"), "w") as f:
        json.dump(rb, f)
