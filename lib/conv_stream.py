"""conv_stream — correspondence between the Coq model of the converter (LSP.Sem over Gen.PkgData) and the real one.

build_conv()            regenerate Gen/MMData.v + Gen/PkgData.v from the tree and compile them
run_cases(cases, tag)   run every case through the real converter (r_conv.py) and through the model
                        (Cases_<tag>_<i>.v shards, vm_compute), return per-case verdicts
A case is a dict: target (name in ALL_TYPES_MAP), input (JSON), kind (label), mmty (Coq `ty` term or None: when given,
the input is first certified valid by MM.valid_b inside Coq).
"""
import concurrent.futures
import json
import os
import re

import vcommon as V
from mmlib import cj, canon

PALETTE = [None, "zz", -5, 2**31, 1.5, True, [], {}, [1], {"x": 1}]      # replacement values of the type-confusion edits
STR_OF = [None, -5, 2**31, 1.5, True, [], {}, [1], {"x": 1}, 1, False, 0]


def build_conv(chk=None):
    """Returns (ok, failures:list of (what, name, detail))."""
    fails = []
    mm_v = os.path.join(V.GEN, "MMData.v")
    pkg_v = os.path.join(V.GEN, "PkgData.v")
    p = V.run_py("x_mm.py", [os.path.join(V.REPO, "generator", "lsp.json"), mm_v])
    if chk:
        chk.obligation("translate:x_mm", p.returncode == 0, (p.stdout + p.stderr)[-300:])
    if p.returncode != 0:
        fails.append(("translator", "x_mm", (p.stdout + p.stderr)[-1500:]))
    p2 = V.run_py("x_pkg.py", [pkg_v, os.path.join(V.GEN, "pkg.json")])
    if chk:
        chk.obligation("translate:x_pkg", p2.returncode == 0, (p2.stdout + p2.stderr)[-300:])
    if p2.returncode != 0:
        fails.append(("translator", "x_pkg", (p2.stdout + p2.stderr)[-1500:]))
    if fails:
        return False, fails
    # the tables must not depend on what other converters went through the package's hooks before (lib/conv_cfg.py, 'after-foreign'):
    # the same translator, run after such a history, has to produce the same text
    if os.environ.get("VERIF_NO_FOREIGN") != "1":
        alt_v, alt_j = pkg_v[:-2] + "_hist.v.txt", os.path.join(V.GEN, "pkg_hist.json")
        p3 = V.run_py("x_pkg.py", [alt_v, alt_j], extra_env={"VERIF_CONV_CFG": "after-foreign"})
        same = p3.returncode == 0 and open(alt_v).read() == open(pkg_v).read()
        if chk:
            chk.obligation("translate:x_pkg-independent-of-converter-history", same, "" if same else (p3.stdout + p3.stderr)[-200:])
        if not same:
            rows = []
            if p3.returncode == 0:
                a, b = open(pkg_v).read().split("\n"), open(alt_v).read().split("\n")
                rows = [{"fresh_process": x[:400], "after_customised_user_converter": y[:400]} for x, y in zip(a, b) if x != y][:6]
            fails.append(("history-dependence", "x_pkg tables differ after a customised user converter was used (VERIF_CONV_CFG=after-foreign)",
                          json.dumps({"history": "after-foreign (lib/conv_cfg.py)", "differing_rows": rows, "translator": (p3.stdout + p3.stderr)[-300:] if p3.returncode else ""})))
            return False, fails
    ok, res = V.compile_chain([mm_v, pkg_v])
    if not ok:
        fails.append(("coqc", os.path.basename(res[-1][0]), res[-1][1].text[-1500:]))
    return ok, fails


def real_run(cases, str_of=(), cfg=None):
    req = {"cases": [{"target": c["target"], "input": c["input"]} for c in cases], "str_of": list(str_of)}
    cfg = cfg or os.environ.get("VERIF_REPLAY_CONV_CFG")       # set by the driver when a replay file records a converter history
    p = V.run_py("r_conv.py", input_=json.dumps(req), timeout=3600, extra_env={"VERIF_CONV_CFG": cfg} if cfg else None)
    if p.returncode != 0:
        raise RuntimeError("r_conv failed: " + p.stderr[-3000:])
    return json.loads(p.stdout)


HISTORY_DEVIANTS = []      # (target, input) of the results of this process that were observed under the 'after-foreign' history


def _rkey(r):
    return (r.get("ok"), json.dumps(r.get("dump"), sort_keys=True), json.dumps(r.get("unstr"), sort_keys=True), r.get("unstr_ok"), r.get("out") if "out" in r else None)


HISTORY_CFGS = ("after-foreign", "user-omit", "nodetail")


def merge_foreign_history(cases, results, rerun, key=_rkey):
    """Further runs of the same inputs on converters with another past or configuration (lib/conv_cfg.py):
      after-foreign  a default get_converter() created AFTER a customised user converter (and the application's own same-named attrs
                     classes) went through the package's hooks in the same process;
      user-omit      get_converter(cattrs.Converter(omit_if_default=True));   nodetail   ...(detailed_validation=False).
    A converter must not depend on which converters were created or used before it, nor on these options of the converter it is built on
    (C19), so all runs agree on the unchanged tree (ok/raise, object graph, re-serialisation; exception TYPES are not compared).  Where
    one differs, the deviating result REPLACES the first one, marked, and each property's own oracle judges it (the model/real
    correspondence flags it as well).  [rerun(cfg)] performs one such run.  VERIF_NO_FOREIGN=1 switches the extra runs off."""
    if os.environ.get("VERIF_NO_FOREIGN") == "1" or os.environ.get("VERIF_CONV_CFG") or os.environ.get("VERIF_REPLAY_CONV_CFG"):
        return 0
    import concurrent.futures as _cf

    def one(cfg):
        try:
            return cfg, rerun(cfg), None
        except Exception as e:
            return cfg, None, str(e)[-300:]
    with _cf.ThreadPoolExecutor(len(HISTORY_CFGS)) as ex:
        runs = list(ex.map(one, HISTORY_CFGS))
    n = 0
    for cfg, second, err in runs:
        if second is None:          # the run itself failing is a finding of its own
            HISTORY_DEVIANTS.append((cfg, "<whole run>", "the run failed: %s" % err))
            continue
        for i, (a, b) in enumerate(zip(results, second)):
            if not a.get("converter_history") and key(a) != key(b):
                results[i] = dict(b, converter_history=cfg)
                n += 1
                if len(HISTORY_DEVIANTS) < 8:
                    HISTORY_DEVIANTS.append((cfg, cases[i].get("target"), cases[i].get("input")))
    return n


def real_results(cases):
    """real converter only (model unavailable), with the foreign-converter history merged in like run_cases does"""
    res = real_run(cases)["results"]
    merge_foreign_history(cases, res, lambda cfg: real_run(cases, cfg=cfg)["results"])
    return res


def _unfl(j):
    """inverse of r_conv.fl / dump's $f marker -> Coq json term printer input"""
    return j


def cjx(j):
    """printer for runner output: {"$f":[n,d]} is a float"""
    if isinstance(j, dict):
        if set(j) == {"$f"}:
            return "(JFlt (%d) (%d))" % tuple(j["$f"])
        return "(JObj [%s])" % "; ".join("(%s, %s)" % (V.q(k), cjx(j[k])) for k in sorted(j))
    if isinstance(j, list):
        return "(JArr [%s])" % "; ".join(cjx(x) for x in j)
    return cj(j)


def target_pty(name, pkg):
    if name.startswith("("):
        return name            # a type given directly in the pty grammar (union types of the hook fuzz stream)
    if name in pkg["classes"]:
        return "(PyCls %s)" % V.q(name)
    if name in pkg["enums"]:
        return "(PyEnum %s)" % V.q(name)
    return "(alias_ty %s)" % V.q(name)


HDR = """From LSP Require Import Base MM Sem Corr.
From Gen Require Import MMData PkgData.
Open Scope string_scope.
Definition alias_ty (n : string) : pty := match assoc n alias_objects with Some t => t | None => PyFwd n end.
Definition pystr := str_table [%s].
Definition req_ty (m : string) : ty := match find (fun r => String.eqb (r_method r) m) (requests mm) with Some r => request_ty r | None => TBase BNull end.
Definition resp_ty (m : string) : ty := match find (fun r => String.eqb (r_method r) m) (requests mm) with Some r => response_ty r | None => TBase BNull end.
Definition notif_ty (m : string) : ty := match find (fun r => String.eqb (n_method r) m) (notifications mm) with Some r => notification_ty r | None => TBase BNull end.
"""


def load_pkg(mmv=None):
    """pkg.json written by x_pkg; when the package could not be translated, a fallback derived from the metamodel alone
    (structure names, message class names by the typeName rule) so that the search on the real code can still run"""
    p = os.path.join(V.GEN, "pkg.json")
    vo = os.path.join(V.GEN, "PkgData.vo")
    if os.path.exists(p) and os.path.exists(vo) and os.path.getmtime(p) >= os.path.getmtime(os.path.join(V.GEN, "PkgData.v")) - 5:
        return json.load(open(p))
    import mmlib
    mmv = mmv or mmlib.MMView()
    methods = {}
    for r in mmv.doc["requests"]:
        n = r.get("typeName") or ""
        n = n if n.endswith("Request") else n + "Request"
        methods[r["method"]] = [n, n.replace("Request", "") + "Response"]
    for r in mmv.doc["notifications"]:
        n = r.get("typeName") or ""
        methods[r["method"]] = [n if n.endswith("Notification") else n + "Notification", None]
    return {"classes": [s for s in mmv.S if s != "LSPObject"], "enums": list(mmv.E), "methods": methods, "unions": [], "fallback": True}


def run_cases(cases, tag, shard=250, workers=8, model=True):
    """Returns list of verdict codes per case (0 agree, 1 ok/raise, 2 graph, 3 unstructured, 4 not valid, 5 fuel) and the real results.
    model=False: only the real converter is run (the model is unavailable because a translator or coqc failed)."""
    # str() of non-string values: the fixed palette plus every node of the fuzz inputs (cattrs coerces with str() wherever `str` is expected)
    str_of, seen = list(STR_OF), {json.dumps(v, sort_keys=True) for v in STR_OF}

    capped = [False]

    def nodes(v):
        if isinstance(v, str):
            return
        k = json.dumps(v, sort_keys=True)
        if k not in seen:
            if len(seen) < 12000:
                seen.add(k)
                str_of.append(v)
            else:
                capped[0] = True        # the str() table is full: this input cannot be run through the model (its str() oracle is missing)
        if isinstance(v, list):
            for x in v:
                nodes(x)
        elif isinstance(v, dict):
            for x in v.values():
                nodes(x)
    no_model = set()
    for i, c in enumerate(cases):
        if c.get("kind") == "hook-fuzz":
            capped[0] = False
            nodes(c["input"])
            if capped[0]:
                no_model.add(i)
    real = real_run(cases, str_of)
    merge_foreign_history(cases, real["results"], lambda cfg: real_run(cases, str_of, cfg=cfg)["results"])
    if not model:
        return [0] * len(cases), real["results"]
    pkg = json.load(open(os.path.join(V.GEN, "pkg.json")))
    tbl = "; ".join("(%s, %s)" % (cj(v), V.q(s)) for v, s in zip(str_of, real["str_of"]))
    rows = []
    for c, r in zip(cases, real["results"]):
        if r["ok"]:
            exp = "(XOk %s %s)" % (cjx(r["dump"]), ("(Some %s)" % cjx(r["unstr"])) if r["unstr_ok"] else "None")
        else:
            exp = "XRaise"
        rows.append("{| c_ty := %s; c_in := %s; c_exp := %s; c_mm := %s |}"
                    % (target_pty(c["target"], pkg), cj(c["input"]), exp, ("(Some %s)" % c["mmty"]) if c.get("mmty") else "None"))
    # remove stale shards of this tag
    os.makedirs(V.PROPS_OUT, exist_ok=True)
    # the str() table is compiled once and shared by the shards (it can be large for the fuzz stream)
    tblf = os.path.join(V.PROPS_OUT, "CasesTbl_%s.v" % tag)
    V.write_if_changed(tblf, HDR % tbl)
    rt = V.coqc(tblf)
    if not rt.ok:
        raise RuntimeError("cases table %s failed: %s" % (tblf, rt.text[-1500:]))
    files = []
    for i in range(0, len(rows), shard):
        f = os.path.join(V.PROPS_OUT, "Cases_%s_%d.v" % (tag, i // shard))
        V.write_if_changed(f, "From LSP Require Import Base MM Sem Corr.\nFrom Gen Require Import MMData PkgData.\nFrom Props Require Import CasesTbl_%s.\nOpen Scope string_scope.\n" % tag
                           + "Definition cases : list case := [\n" + ";\n".join(rows[i:i + shard]) + "].\n"
                           "Eval vm_compute in (bad_cases mm Sg pystr %d cases).\n" % i)
        files.append(f)
    verdict = [0] * len(cases)
    with concurrent.futures.ThreadPoolExecutor(workers) as ex:
        outs = list(ex.map(V.coqc, files))
    for f, r in zip(files, outs):
        if not r.ok:
            raise RuntimeError("cases shard %s failed: %s" % (f, r.text[-1500:]))
        body = r.out.split(": list (nat * nat)")[0]
        for a, b_ in re.findall(r"\(\s*(\d+)\s*,\s*(\d+)\s*\)", body):
            verdict[int(a)] = int(b_)
    for i in no_model:
        verdict[i] = 0           # not comparable: the model's str() oracle table was full (the real result is still judged by the caller)
    return verdict, real["results"]


def base_cases(mmv, rng, n_random=1, malformed=True):
    """The standard stream: every structure at three (alternative, depth) settings + n_random random values each,
    every request / response / notification, and single-edit malformed inputs."""
    from mmlib import ref
    pkg = json.load(open(os.path.join(V.GEN, "pkg.json")))
    cases = []
    for sn in mmv.S:
        if sn == "LSPObject" or sn not in pkg["classes"]:
            continue
        t = ref(sn)
        tm = "(TRef %s)" % V.q(sn)
        for alt, depth in ((0, 0), (1, 3), (2, 2)):
            cases.append({"target": sn, "input": mmv.value(t, 0, alt, depth), "kind": "valid-sys", "mmty": tm})
        for _ in range(n_random):
            cases.append({"target": sn, "input": mmv.rand(t, rng, 0, rng.choice([1, 2, 3])), "kind": "valid-rand", "mmty": tm})
        if malformed:
            base = mmv.value(t, 0, 0, 0)
            for pn, p in mmv.flat(sn).items():
                r = rng.random()
                if pn in base and r < 0.5:
                    j = dict(base); del j[pn]
                    cases.append({"target": sn, "input": j, "kind": "missing"})
                elif r < 0.7:
                    j = dict(base); j[pn] = rng.choice(PALETTE)
                    cases.append({"target": sn, "input": j, "kind": "confuse"})
            j = dict(base); j["zzExtra"] = {"a": [1]}
            cases.append({"target": sn, "input": j, "kind": "extra"})
    for kind, r in mmv.messages():
        names = pkg["methods"].get(r["method"])
        if not names:
            continue
        m = r["method"]
        if kind == "request":
            j = {"jsonrpc": "2.0", "id": rng.choice([1, "x", 2**31 - 1]), "method": m}
            if "params" in r:
                j["params"] = mmv.rand(r["params"], rng, 1, 2)
            cases.append({"target": names[0], "input": j, "kind": "valid-msg", "mmty": "(req_ty %s)" % V.q(m)})
            if names[1]:
                cases.append({"target": names[1], "input": {"jsonrpc": "2.0", "id": 1, "result": mmv.rand(r["result"], rng, 1, 2)},
                              "kind": "valid-msg", "mmty": "(resp_ty %s)" % V.q(m)})
            if malformed:
                cases.append({"target": names[0], "input": {"jsonrpc": "2.0", "id": 1, "method": "nope"}, "kind": "badmethod"})
        else:
            j = {"jsonrpc": "2.0", "method": m}
            if "params" in r:
                j["params"] = mmv.rand(r["params"], rng, 1, 2)
            cases.append({"target": names[0], "input": j, "kind": "valid-msg", "mmty": "(notif_ty %s)" % V.q(m)})
    return cases


def run_traces(cases, tag="tr"):
    """dispatch traces of the MODEL on the given cases: list of list of (union type string, path string | 'no-handler')"""
    if not cases:
        return []
    pkg = json.load(open(os.path.join(V.GEN, "pkg.json")))
    rows = ["(%s, %s)" % (target_pty(c["target"], pkg), cj(c["input"])) for c in cases]
    hdr = ("From LSP Require Import Base Sem Trace.\nFrom Gen Require Import PkgData.\nOpen Scope string_scope.\n"
           "Definition alias_ty (n : string) : pty := match assoc n alias_objects with Some t => t | None => PyFwd n end.\n")
    outs = V.coq_eval("Trace_" + tag, hdr + "Definition cases : list (pty * json) := [\n" + ";\n".join(rows) + "].\n",
                      ["map (fun c => map (show union_table) (trace Sg 60 (fst c) (snd c))) cases"])
    txt = outs[0].rsplit(":", 1)[0]
    # parse a list of lists of (nat, option (list bool))
    res, cur, depth = [], None, 0
    tok = re.findall(r"\[|\]|\(\s*\d+\s*,|Some|None|true|false", txt)
    i = 0
    # structure: [ [ (n, Some [b; b]) ; (n, None) ] ; [ ... ] ]
    while i < len(tok):
        t = tok[i]
        if t == "[":
            depth += 1
            if depth == 2:
                cur = []
        elif t == "]":
            if depth == 2:
                res.append(cur)
                cur = None
            depth -= 1
        elif t.startswith("(") and depth == 2:
            idx = int(re.search(r"\d+", t).group(0))
            i += 1
            if tok[i] == "None":
                path = "no-handler"
            else:
                i += 1  # '['
                depth += 1
                bits = []
                i += 1
                while tok[i] != "]":
                    bits.append("T" if tok[i] == "true" else "F")
                    i += 1
                depth -= 1
                path = "".join(bits) or "-"
            u = pkg["unions"][idx] if idx < len(pkg["unions"]) else "<union not in table>"
            cur.append((u, path))
        i += 1
    return res
