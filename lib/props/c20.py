"""C20 — Position order, Range/Location equality, reprs.

proof:          coq/props/C20.v over the methods translated from types.py by x_pos (all ints, all strings)
tie:            x_pos regenerates Gen/PosData.v from the AST (+ run-time origin check of every comparison method);
                the hand-written model LSP.Order is run (vm_compute) against the real classes on generated operand pairs
search:         the real classes against the lexicographic specification on the boundary grid and random pairs
"""
import itertools
import json
import os
import random

import vcommon as V

RULE = ("operand pairs over positions on the boundary grid {0,1,2^31-2,2^31-1}^2 plus seeded random ints, ranges and locations built "
        "from them, six operators, unrelated operands (foreign object, None, int, str, tuple, the other two classes); "
        "a case is non-trivial when both operands are protocol objects or one is; distinct = distinct (op, a, b) triples")

GRID = [0, 1, 2**31 - 2, 2**31 - 1]
OPS = ["Lt", "Le", "Gt", "Ge", "Eq", "Ne"]


def cval(v):
    k = v[0]
    if k == "pos":
        return "(pos (%d) (%d))" % (v[1], v[2])
    if k == "rng":
        return "(rng %s %s)" % (cval(v[1]), cval(v[2]))
    if k == "loc":
        return "(loc %s %s)" % (V.q(v[1]), cval(v[2]))
    if k in ("other", "none", "duck"):
        return "VOther"
    if k == "int":
        return "(VI (%d))" % v[1]
    if k == "str":
        return "(VS %s)" % V.q(v[1])
    if k == "tup":
        return "(VT [%s])" % "; ".join(cval(x) for x in v[1])
    raise ValueError(k)


def spec(op, a, b):
    """The property's own oracle (independent of model and code). Returns 1/0/2 or None when the spec says nothing."""
    def key(v):
        if v[0] == "pos":
            return (v[1], v[2])
        if v[0] == "rng":
            return (key(v[1]), key(v[2]))
        if v[0] == "loc":
            return (v[1], key(v[2]))
    three = ("pos", "rng", "loc")
    if a[0] in three and b[0] in three and a[0] == b[0]:
        if op in ("Eq", "Ne"):
            return int((key(a) == key(b)) == (op == "Eq"))
        if a[0] == "pos":
            x, y = key(a), key(b)
            return int({"Lt": x < y, "Le": x <= y, "Gt": x > y, "Ge": x >= y}[op])
        return 2   # Range/Location are not ordered
    if a[0] in three or b[0] in three:
        return {"Eq": 0, "Ne": 1}.get(op, 2)
    return None


def gen_cases(rng, n_random):
    pts = [["pos", l, c] for l in GRID for c in GRID]
    cases = []
    for a, b in itertools.product(pts, pts):
        for op in OPS:
            cases.append([op, a, b])
    def rpos():
        return ["pos", rng.choice(GRID + [rng.randrange(2**31), rng.randrange(50)]), rng.choice(GRID + [rng.randrange(2**31), rng.randrange(50)])]
    def rrng():
        return ["rng", rpos(), rpos()]
    def rloc():
        return ["loc", rng.choice(["file:///a", "file:///b", "file:///é中", ""]), rrng()]
    for _ in range(n_random):
        a = rpos(); b = rng.choice([rpos(), a, ["pos", a[1], rng.randrange(2**31)]])
        cases.append([rng.choice(OPS), a, b])
        r = rrng(); r2 = rng.choice([rrng(), r, ["rng", r[1], rpos()], ["rng", rpos(), r[2]]])
        cases.append([rng.choice(OPS), r, r2])
        lo = rloc(); lo2 = rng.choice([rloc(), lo, ["loc", lo[1], rrng()], ["loc", "file:///zz", lo[2]]])
        cases.append([rng.choice(OPS), lo, lo2])
    # locations whose uris differ only in spelling (percent-encoding, case, trailing slash): structural equality says unequal
    r0 = ["rng", ["pos", 1, 2], ["pos", 3, 4]]
    spell = ["file:///dir/a%20b.py", "file:///dir/a b.py", "file:///c%3A/x", "file:///c:/x", "file:///c%3a/x", "FILE:///dir/a%20b.py", "file:///dir/a%20b.py/", "file:///dir/A%20b.py"]
    for u in spell:
        for w in spell:
            for op in ("Eq", "Ne"):
                cases.append([op, ["loc", u, r0], ["loc", w, r0]])
    unrel = [["other"], ["none"], ["int", 3], ["str", "1:2"], ["tup", [["int", 1], ["int", 2]]]]
    for x in (rpos(), rrng(), rloc()):
        for u in unrel + [rpos(), rrng(), rloc()]:
            if u[0] == x[0]:
                continue
            for op in OPS:
                cases.append([op, x, u]); cases.append([op, u, x])
    # structural look-alikes of an unrelated type (same attribute names, equal values): still unrelated operands
    for x in (rpos(), rrng(), rloc(), ["pos", 0, 0]):
        ducks = [["duck", x]] + ([["duck", x, "lsp"]] if x[0] == "loc" else [])
        for d in ducks:
            for op in OPS:
                cases.append([op, x, d]); cases.append([op, d, x])
    reprs = [["pos", 0, 0], ["pos", 2**31 - 1, 7], rrng(), rloc(), ["loc", "file:///é中", rrng()]]
    return cases, reprs


def mutate(v, path, newval):
    """the value description after `path := newval` (path through start/end/range/line/character/uri)"""
    import copy as _c
    v = _c.deepcopy(v)
    idx = {"pos": {"line": 1, "character": 2}, "rng": {"start": 1, "end": 2}, "loc": {"uri": 1, "range": 2}}
    t = v
    for name in path[:-1]:
        t = t[idx[t[0]][name]]
    t[idx[t[0]][path[-1]]] = newval
    return v


def gen_mutations(rng, n):
    """[op, a, b, path, new value]: a and b are compared, a is changed in place, then a op b is asked again"""
    out = []
    def rp():
        return ["pos", rng.choice(GRID + [rng.randrange(50)]), rng.choice(GRID + [rng.randrange(50)])]
    def ok(z):
        return min(max(z, 0), 2**31 - 1)          # attribute assignment runs the attrs validators: stay inside the uinteger range
    for _ in range(n):
        a, b = rp(), rp()
        for path, nv in ((["line"], ok(b[1] + rng.choice([-1, 0, 1, 5]))), (["character"], ok(b[2] + rng.choice([-1, 0, 1]))), (["line"], b[1])):
            for op in OPS:
                out.append([op, a, b, path, nv])
        r, r2 = ["rng", rp(), rp()], ["rng", rp(), rp()]
        for op in ("Eq", "Ne"):
            out.append([op, r, r, ["end", "character"], ok(r[2][2] - 1) if r[2][2] else 1])            # equal ranges, then one end moves
            out.append([op, r, r2, ["start", "line"], r2[1][1]])
            lo = ["loc", "file:///a", r]
            out.append([op, lo, lo, ["range", "end", "line"], ok(r[2][1] - 3) if r[2][1] >= 3 else r[2][1] + 3])
            out.append([op, lo, ["loc", "file:///b", r], ["uri"], "file:///b"])
    return out


def real_run(cases, reprs, mutations=()):
    p = V.run_py("r_pos.py", input_=json.dumps({"cases": cases, "reprs": reprs, "mutations": list(mutations)}))
    if p.returncode != 0:
        raise RuntimeError("r_pos failed: " + p.stderr[-2000:])
    return json.loads(p.stdout)


def spec_search(chk, cases, real):
    """First input on which the REAL classes contradict the specification."""
    for (op, a, b), got in zip(cases, real):
        want = spec(op, a, b)
        if want is not None and want != got:
            return {"op": op, "a": a, "b": b, "expected": want, "observed_impl": got,
                    "codes": "1 True, 0 False, 2 TypeError, 9 other"}
    return None


def repr_spec(v):
    if v[0] == "pos":
        return "%d:%d" % (v[1], v[2])
    if v[0] == "rng":
        return repr_spec(v[1]) + "-" + repr_spec(v[2])
    return v[1] + ":" + repr_spec(v[2])


def run(chk):
    rng = random.Random(chk.seed)
    chk.trusted = V.STD_TRUSTED + [
        "translator lib/x_pos.py (AST of the three classes + run-time origin check of their comparison methods)",
        "hand-written model LSP.Order of CPython's rich comparison, tuple comparison, functools.total_ordering, f-strings (validated by the correspondence run, not verified)",
        "str(int) is an uninterpreted function `dec` in C20_repr",
    ]
    chk.assumptions = ["operands hold ints in line/character (what the uinteger validator admits); exotic subclasses of int with overridden comparison are outside the model"]
    gen = os.path.join(V.GEN, "PosData.v")
    failed = []
    with V.build_lock():
        p = V.run_py("x_pos.py", [gen])
        chk.obligation("translate:x_pos", p.returncode == 0, (p.stdout + p.stderr)[-300:])
        compiled = False
        if p.returncode == 0:
            prop = V.stage_prop("C20")
            ok, res = V.compile_chain([gen, prop])
            compiled = ok
            names = V.theorems_in(prop)
            out = res[-1][1].text
            if ok:
                for n in names:
                    chk.obligation(n, True)
                chk.assumptions.append("Print Assumptions: %d theorems 'Closed under the global context', axioms: %s"
                                       % (out.count("Closed under the global context"), V.parse_assumptions(out).get("axioms", [])))
            else:
                # find which theorem broke
                import re
                m = re.search(r"\(in proof ([A-Za-z0-9_']+)\)", out)
                bad = m.group(1) if m else None
                if not bad:
                    m = re.search(r'line (\d+)', out)
                    if m:
                        ln = int(m.group(1)); txt = open(prop).read().split("\n")
                        for i in range(min(ln, len(txt)) - 1, -1, -1):
                            mm = re.match(r"\s*(?:Theorem|Lemma|Example)\s+([A-Za-z0-9_']+)", txt[i])
                            if mm:
                                bad = mm.group(1); break
                for n in names:
                    chk.obligation(n, False if n == bad else None is not None, "coqc failed here" if n == bad else "not reached / not re-checked")
                failed.append(("proof", bad or "C20.v", out[-1500:]))
        else:
            failed.append(("translator", "x_pos", (p.stdout + p.stderr)[-1500:]))

        # correspondence: model (vm_compute) vs real classes
        n_random = 150 if chk.tier == "quick" else 3000
        cases, reprs = gen_cases(rng, n_random)
        real = real_run(cases, reprs)
        for c in cases:
            chk.count(c, nontrivial=True)
        for c, r in list(zip(cases, real["cases"]))[:: max(1, len(cases) // 5)][:5]:
            chk.sample({"case": c, "impl": r})
        disagree = []
        if p.returncode == 0 and os.path.exists(gen[:-2] + ".vo"):
            rows = ["(%s, %s, %s, %d)" % (op, cval(a), cval(b), r) for (op, a, b), r in zip(cases, real["cases"])]
            hdr = ("From Coq Require Import String List ZArith. Import ListNotations.\nFrom LSP Require Import Order.\nFrom Gen Require Import PosData.\n"
                   "Open Scope string_scope. Open Scope Z_scope.\n"
                   "Definition pos (l c : Z) : val := VO \"Position\" [(\"line\", VI l); (\"character\", VI c)].\n"
                   "Definition rng (a b : val) : val := VO \"Range\" [(\"start\", a); (\"end\", b)].\n"
                   "Definition loc (u : string) (r : val) : val := VO \"Location\" [(\"uri\", VS u); (\"range\", r)].\n"
                   "Definition code (o : out) : Z := match o with Val (VB true) => 1 | Val (VB false) => 0 | TypeErr => 2 | _ => 9 end.\n"
                   "Definition agree (x : cop * val * val * Z) : bool := match x with (o, a, b, r) => code (binop classes 8 o a b) =? r end.\n")
            shard = 600
            files = []
            for i in range(0, len(rows), shard):
                f = os.path.join(V.PROPS_OUT, "CasesC20_%d.v" % (i // shard))
                V.write_if_changed(f, hdr + "Definition cases := [\n" + ";\n".join(rows[i:i + shard]) + "].\n"
                                   "Definition bad := map fst (filter (fun p => negb (agree (snd p))) (combine (seq %d (length cases)) cases)).\n"
                                   "Eval vm_compute in bad.\n" % i)
                files.append(f)
            import re
            for f in files:
                r = V.coqc(f)
                if not r.ok:
                    raise RuntimeError("cases file failed: " + r.text[-800:])
                body = r.out.split(": list nat")[0]
                disagree += [int(x) for x in re.findall(r"\d+", body)]
            # repr correspondence
            rrows = ["(%s, %s)" % (cval(v), V.q(s if s is not None else "<raise>")) for v, s in zip(reprs, real["reprs"])]
            f = os.path.join(V.PROPS_OUT, "CasesC20_repr.v")
            # dec is instantiated by a table built from the ints that occur
            ints = sorted({x for v in reprs for x in _ints(v)})
            dec = "Definition dec (z : Z) : string := " + " ".join("if z =? %d then %s else" % (z, V.q(str(z))) for z in ints) + ' "?".\n'
            V.write_if_changed(f, hdr + dec + "Definition rcases := [\n" + ";\n".join(rrows) + "].\n"
                               "Definition rbad := map fst (filter (fun p => match repr classes dec 5 (fst (snd p)) with RS l => negb (String.eqb (String.concat \"\" l) (snd (snd p))) | RErr => true end) (combine (seq 0 (length rcases)) rcases)).\n"
                               "Eval vm_compute in rbad.\n")
            r = V.coqc(f)
            if not r.ok:
                raise RuntimeError("repr cases file failed: " + r.text[-800:])
            rbad = [int(x) for x in re.findall(r"\d+", r.out.split(": list nat")[0])]
            chk.obligation("correspondence:Order-vs-real-classes", not disagree and not rbad,
                           "%d operator cases, %d reprs, %d+%d disagreements" % (len(cases), len(reprs), len(disagree), len(rbad)))
            if disagree or rbad:
                failed.append(("correspondence", "LSP.Order vs lsprotocol.types",
                               json.dumps([{"case": cases[i], "impl": real["cases"][i]} for i in disagree[:5]] + [{"repr": reprs[i], "impl": real["reprs"][i]} for i in rbad[:5]])))
        chk.extra["traces_validated_against_impl"] = len(cases) + len(reprs)
        chk.extra["disagreements"] = len(disagree)

    # search on the real code (always run: it is cheap, and it is the replay source)
    w = spec_search(chk, cases, real["cases"])
    if not w:
        # histories: compare, change the first operand in place, compare again
        muts = gen_mutations(rng, 6 if chk.tier == "quick" else 60)
        mres = real_run([], [], muts)["mutations"]
        for (op, a, b, path, nv), got in zip(muts, mres):
            chk.count(("mutation", op, json.dumps([a, b, path, nv])))
            a2 = mutate(a, path, nv)          # the runner builds two separate objects even when a and b are the same description
            want = spec(op, a2, b)
            if want is not None and want != got:
                w = {"op": op, "a": a, "b": b, "history": ["all six operators on (a, b)", "a.%s = %r" % (".".join(path), nv)], "a_after": a2,
                     "expected": want, "observed_impl": got, "codes": "1 True, 0 False, 2 TypeError, 9 other", "mutation": [op, a, b, path, nv]}
                break
        chk.extra["mutation_histories"] = len(muts)
    rw = None
    for v, s in zip(reprs, real["reprs"]):
        if s != repr_spec(v):
            rw = {"repr_of": v, "expected": repr_spec(v), "observed_impl": s}
            break
    if w or rw:
        chk.violation({"property": "C20", "kind": "real classes contradict the specification", "input": w or rw,
                       "broken": [f[:2] for f in failed],
                       "how_to_replay": "./check C20 --replay <this file>"})
    elif failed:
        chk.violation({"property": "C20", "kind": "obligation no longer checks", "broken": [{"what": a, "name": b, "detail": c} for a, b, c in failed],
                       "searched": "%d operand pairs and %d reprs on the real classes against the specification: none fails" % (len(cases), len(reprs))},
                      no_input=True)


def _ints(v):
    if v[0] == "pos":
        return [v[1], v[2]]
    if v[0] == "rng":
        return _ints(v[1]) + _ints(v[2])
    return _ints(v[2])


def replay(path):
    r = json.load(open(path))
    inp = r.get("input") or {}
    if "mutation" in inp:
        got = real_run([], [], [inp["mutation"]])["mutations"][0]
        print("after", inp.get("history"), "expected", inp["expected"], "observed", got)
        return 1 if got != inp["expected"] else 0
    if "op" in inp:
        got = real_run([[inp["op"], inp["a"], inp["b"]]], [])["cases"][0]
        print("expected", inp["expected"], "observed", got)
        return 1 if got != inp["expected"] else 0
    if "repr_of" in inp:
        got = real_run([], [inp["repr_of"]])["reprs"][0]
        print("expected", inp["expected"], "observed", got)
        return 1 if got != inp["expected"] else 0
    print("no concrete input recorded:", json.dumps(r.get("broken"))[:2000])
    return 1
