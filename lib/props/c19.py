"""C19 — converters are independent of creation order, count, configuration and threads.

proof:   coq/Once.v (generic: once_safe, once_done, resolve_exactly_once, resolve_at_most_once for every program accepted by
         lock_ok — all K, N, schedules; history_independent, creation_noninterference for a register function that writes
         only its argument) instantiated in coq/props/C19.v on the program / write set translated from the current
         _hooks.py + converters.py by lib/x_once.py.  When lock_ok fails, coq/props/C19_refuted.v must produce a witness
         schedule (find_witness, kernel-checked), which is replayed on the real code.
tie:     schedule stream — model schedules are forced on the REAL code (lib/r_once.py: monkey-patched attrs.has /
         attrs.resolve_types / lock wrapper, one fresh interpreter per schedule) and every observation (parking labels per
         move, per-thread outcome, number of resolve_types calls, flag, readiness at return) is compared with the model.
search:  the same schedule runs + creation histories + a 16-thread stress run against the property's own oracle
         (no exception; equal results on a fixed battery).
"""
import concurrent.futures as cf
import itertools
import json
import os
import random
import re

import vcommon as V

RULE = ("schedule stream: macro schedules (one entry = one thread runs to its next yield point: start, lock acquire/release, two "
        "positions inside the ALL_TYPES_MAP iteration, before the first and before the last resolve_types) for 2 threads x 5 moves "
        "(quick: the model's witness or canonical orders + a seeded sample of 24; thorough: all 252 interleavings + 3-thread samples), "
        "each in a fresh interpreter, followed by a round-robin drain; distinct = distinct (threads, schedule). "
        "history stream: every creation history up to length 3 (thorough 4) over {fresh, user Converter(), detailed_validation on/off, "
        "GenConverter}, each in a fresh interpreter, every converter run on a 29-input battery, earlier converters re-run at the end; "
        "the 100th converter. stress: 16 threads x 20 fresh interpreters.")

CFGS = ["fresh", "user", "dv_on", "dv_off", "gen", "forbid", "poshook"]
KMODEL = 4
LABELS = {0: "start", 1: "finished", 2: "crashed", 3: "acquire", 4: "release", 5: "iter@1", 6: "iter@2", 7: "before-first-resolve",
          8: "before-last-resolve", 9: "other", 99: "hang"}


# ------------------------------------------------------------------------------------------------ real runs
def real(mode, spec, timeout=120):
    p = V.run_py("r_once.py", [mode], input_=json.dumps(spec), timeout=timeout)
    if p.returncode != 0:
        return {"runner_error": (p.stderr or p.stdout)[-1500:]}
    try:
        return json.loads(p.stdout)
    except Exception:
        return {"runner_error": "unparsable output: " + p.stdout[-500:] + p.stderr[-500:]}


def drain(n, rounds=12):
    return list(range(n)) * rounds


def sched_spec(n, moves, first_is_acquire):
    return {"n": n, "moves": list(moves) + drain(n), "has_pos": [5, 50], "skip_first_acquire": bool(first_is_acquire), "battery": True}


def oracle_fail(res, ref_digest):
    """Does a real schedule/stress/history observation contradict the property text? -> reason or None"""
    if "runner_error" in res:
        return "runner: " + res["runner_error"][-300:]
    for t, th in enumerate(res.get("threads", [])):
        if th.get("status") == "exc":
            return "thread %d: %s: %s" % (t, th.get("type"), th.get("msg"))
        if th.get("status") == "parked":
            return "thread %d never returned (parked at %s)" % (t, LABELS.get(th.get("label"), th.get("label")))
        if ref_digest and th.get("battery") and th["battery"] != ref_digest:
            return "thread %d: results on the battery differ from the reference (%s vs %s)" % (t, th["battery"], ref_digest)
    return None


# ------------------------------------------------------------------------------------------------ model runs
def parse_coq_value(txt):
    body = txt.split("=", 1)[1]
    body = body.rsplit("\n     :", 1)[0]
    body = re.sub(r"\btrue\b", "True", re.sub(r"\bfalse\b", "False", body.replace(";", ",")))
    import ast
    return ast.literal_eval(body.strip())


def model_predict(cases):
    """cases: [(n, moves+drain)] -> [(trace [(label, ready)], (stats, loglen, flag))] by vm_compute over Gen.OnceData"""
    res = []
    shard = 130
    files = []
    for i in range(0, len(cases), shard):
        f = os.path.join(V.PROPS_OUT, "CasesC19_%d.v" % (i // shard))
        rows = ";\n".join("(%d, [%s])" % (n, "; ".join(map(str, ms))) for n, ms in cases[i:i + shard])
        V.write_if_changed(f, "From Coq Require Import List Arith Bool. Import ListNotations.\nFrom LSP Require Import Once.\n"
                              "From Gen Require Import OnceData.\nDefinition cases : list (nat * list nat) := [\n" + rows + "].\n"
                              "Definition out := map (fun c : nat * list nat => let (l, s) := tracem once_prog %d (fst c) (snd c) init in "
                              "(l, summary once_prog (fst c) s)) cases.\nEval vm_compute in out.\n" % KMODEL)
        files.append(f)
    for f in files:
        r = V.coqc(f, timeout=300)
        if not r.ok:
            raise RuntimeError("cases file failed: " + r.text[-800:])
        res += parse_coq_value(r.out)
    return res


def compare(n, pred, res, kreal, first_is_acquire):
    """model prediction vs real observation for one schedule -> list of differences"""
    diffs = []
    (trace, (stats, loglen, flag)) = pred
    norm = (lambda x: 3 if (first_is_acquire and x == 0) else x)
    mt = [norm(l) for l, _ in trace]
    rt = [norm(x) for x in res["trace"]]
    if mt != rt:
        diffs.append("parking labels per move: model %s real %s" % (mt, rt))
    for t in range(n):
        th = res["threads"][t]
        want = {1: "ok", 2: "exc", 0: "parked"}[stats[t]]
        if th["status"] != want:
            diffs.append("thread %d: model %s real %s" % (t, want, th["status"]))
        elif want == "exc" and th.get("type") != "RuntimeError":
            diffs.append("thread %d: model RuntimeError real %s" % (t, th.get("type")))
    mq, mr = divmod(loglen, KMODEL)
    rq, rr = divmod(res["resolve_calls"], max(1, kreal))
    if (mq, mr == 0) != (rq, rr == 0):
        diffs.append("resolve_types calls: model %d/%d real %d/%d" % (loglen, KMODEL, res["resolve_calls"], kreal))
    if res.get("flag") is not None and bool(res["flag"]) != bool(flag):
        diffs.append("flag: model %s real %s" % (flag, res["flag"]))
    # readiness when a thread returned
    seen = set()
    for (lab, rdy), t in zip(trace, res["_moves"]):
        if lab == 1 and t not in seen:
            seen.add(t)
            th = res["threads"][t]
            if th["status"] == "ok":
                r_ready = bool(th.get("flag_at_return")) and th.get("unresolved_at_return") == 0
                if r_ready != bool(rdy):
                    diffs.append("thread %d readiness at return: model %s real %s" % (t, rdy, r_ready))
    return diffs


# ------------------------------------------------------------------------------------------------ schedules
def all_interleavings(n, k):
    base = [t for t in range(n) for _ in range(k)]
    return sorted(set(itertools.permutations(base))) if n * k <= 10 else None


def schedule_set(tier, rng, witness):
    two = all_interleavings(2, 5)
    canon = [tuple([0] * 5 + [1] * 5), tuple([1] * 5 + [0] * 5), tuple([0, 1] * 5), tuple([1, 0] * 5), (0, 0, 1, 0, 1, 0, 1, 1, 1, 0)]
    out = []
    if witness:
        out.append((2, tuple(witness)))
    if tier == "quick":
        pick = canon + rng.sample(two, 24)
        for s in pick:
            if (2, s) not in out and len(out) < 24:
                out.append((2, s))
    else:
        for s in canon + two:
            if (2, s) not in out:
                out.append((2, s))
        base3 = [0] * 5 + [1] * 5 + [2] * 5
        for _ in range(40):
            s = base3[:]
            rng.shuffle(s)
            if (3, tuple(s)) not in out:
                out.append((3, tuple(s)))
        # three threads, the third arriving inside the other two's race
        out.append((3, (0, 0, 1, 2, 0, 1, 2, 0, 1, 2)))
    return out


def history_groups(maxlen):
    """(all histories up to maxlen, their grouping into fresh interpreters): a history of length <= 2 gets an interpreter of
    its own; the five histories that extend the same prefix of length >= 2 share one (the first of them starts fresh, the others
    continue it — a concatenation of histories is again a history)."""
    hs, groups = [], []
    for k in range(1, maxlen + 1):
        for h in itertools.product(CFGS, repeat=k):
            hs.append(list(h))
    for k in (1, 2):
        if k <= maxlen:
            groups += [[list(h)] for h in itertools.product(CFGS, repeat=k)]
    for k in range(3, maxlen + 1):
        for pre in itertools.product(CFGS, repeat=k - 1):
            groups.append([list(pre) + [x] for x in CFGS])
    return hs, groups


def solo_refs(solo):
    """reference digests from the runs in which one configuration is created alone in a fresh interpreter"""
    refs = {"strict": {}, "common": None, "common_poshook": None}
    for cfg, r in solo.items():
        try:
            c, st = r["histories"][0][0].split(":")
        except Exception:
            continue
        refs["strict"][cfg] = st
        if cfg == "poshook":
            refs["common_poshook"] = c
        elif refs["common"] is None:
            refs["common"] = c
    return refs


def judge_history(group, r, refs):
    """first converter of a history run whose results differ from its configuration's reference -> dict, else None"""
    if "runner_error" in r:
        return {"cfg": None, "observed": r["runner_error"][-600:], "expected": "converters are created and used without error"}
    items = []
    for h, row in zip(group, r["histories"]):
        items += [("history %s, converter %d" % (h, i), cfg, d) for i, (cfg, d) in enumerate(zip(h, row))]
    items += [("converter %d (%s) re-run after all later ones were created" % (i, cfg), cfg, d) for i, (cfg, d) in enumerate(r.get("later", []))]
    items += [("churn: user-supplied converter %d (%s), created after the previous ones were used and garbage-collected" % (i, cfg), cfg, d)
              for i, (cfg, d) in enumerate(r.get("churn", []))]
    if r.get("hundred"):
        items.append(("the 100th converter", "fresh", r["hundred"]))
    for where, cfg, d in items:
        if d.startswith("create-raise"):
            return {"cfg": cfg, "where": where, "observed": d, "expected": "the converter is created without error"}
        c, st = d.split(":")
        want_c = refs["common_poshook"] if cfg == "poshook" else refs["common"]
        if c != want_c:
            return {"cfg": cfg, "where": where, "observed": d, "expected": "values and ok/raise outcomes equal to the reference %s" % want_c}
        if st != refs["strict"].get(cfg):
            return {"cfg": cfg, "where": where, "observed": d,
                    "expected": "the same results incl. exception kinds as configuration %s created alone in a fresh interpreter (%s)" % (cfg, refs["strict"].get(cfg))}
    return None


def explain_history(bad):
    """which battery inputs behave differently: configuration created alone vs. created after the failing histories"""
    solo = real("history", {"histories": [], "detail_cfg": bad["cfg"]})
    after = real("history", {"histories": bad["histories"], "detail_cfg": bad["cfg"]})
    if "runner_error" in solo or "runner_error" in after:
        return None
    out = []
    for i, (a, b) in enumerate(zip(solo["detail"], after["detail"])):
        if a != b:
            out.append({"battery_index": i, "created_alone": str(a)[:300], "created_after_the_history": str(b)[:300]})
    return out[:6]


# ------------------------------------------------------------------------------------------------ the check
def failing_theorem(path, text):
    m = re.search(r'line (\d+)', text)
    if not m:
        return None
    ln = int(m.group(1))
    src = open(path).read().split("\n")
    for i in range(min(ln, len(src)) - 1, -1, -1):
        mm = re.match(r"\s*(?:Theorem|Lemma|Example)\s+([A-Za-z0-9_']+)", src[i])
        if mm:
            return mm.group(1)
    return None


def finding_key(info):
    ops = [op for op, _ in info["program"]] if info else []
    if not info:
        return "once-race:untranslated"
    if "IAcquire" not in ops:
        return "once-race:no-lock"
    return "once-race:" + "-".join(op[1:] + (str(a) if a is not None else "") for op, a in info["program"])


def run(chk):
    rng = random.Random(chk.seed)
    chk.trusted = V.STD_TRUSTED + [
        "translator lib/x_once.py (AST of _resolve_forward_references, register_hooks and its module-level callees, converters.get_converter)",
        "hand-written semantics LSP.Once of the dict iterator (size check on every next()), of the first resolve_types call growing the "
        "namespace dict, of Lock / with / try-finally — validated by the schedule stream on the real code, not verified",
        "library calls made by register_hooks (cattrs.gen.*, attrs.fields, Converter.register_*) are assumed not to write lsprotocol "
        "module state; validated by the history stream",
        "real preemption is not modelled: the theorems quantify over all interleavings of the modelled yield points",
    ]
    chk.assumptions = ["threads interact only through the module-level flag, the lock and ALL_TYPES_MAP (closed world of _hooks.py)",
                       "behaviour of a converter = results on the fixed battery of lib/r_once.py (21 structure inputs incl. invalid ones, 9 unstructure inputs)"]
    gen_v = os.path.join(V.GEN, "OnceData.v")
    gen_j = os.path.join(V.GEN, "once.json")
    broken = []          # (what, name, detail)
    info = None
    witness = None       # (kind, moves)
    lock_ok = False
    with V.build_lock():
        p = V.run_py("x_once.py", [gen_v, gen_j])
        chk.obligation("translate:x_once", p.returncode == 0, (p.stdout + p.stderr)[-300:])
        if p.returncode == 0:
            info = json.load(open(gen_j))
            prop = V.stage_prop("C19")
            ok, res = V.compile_chain([gen_v, prop], timeout=300)
            names = V.theorems_in(prop)
            out = res[-1][1].text
            if ok:
                lock_ok = True
                for n in names:
                    chk.obligation(n, True)
                chk.assumptions.append("Print Assumptions (C19.v): %d x 'Closed under the global context', axioms: %s"
                                       % (out.count("Closed under the global context"), V.parse_assumptions(out).get("axioms", [])))
            elif len(res) == 1:
                broken.append(("translator-output", "OnceData.v does not compile", out[-800:]))
            else:
                bad = failing_theorem(prop, out)
                reached = True
                for n in names:
                    if n == bad:
                        reached = False
                        extra = ""
                        if n == "reg_pure_current":
                            extra = "register_hooks / its callees write module-level state: " + "; ".join(
                                "%s (%s, line %d)" % (w["what"], w["fn"], w["line"]) for w in info["writes"] if w["kind"] == "WGlobal") + " — "
                        chk.obligation(n, False, extra + "coqc failed here: " + out[-200:].replace("\n", " "))
                    else:
                        chk.obligation(n, reached, "" if reached else "not reached: depends on " + str(bad))
                broken.append(("proof", bad or "C19.v", ("module-level state written: %s | " % [w["what"] for w in info["writes"] if w["kind"] == "WGlobal"]
                                                         if bad == "reg_pure_current" else "") + out[-800:]))
                if bad not in ("calls_once_current", "reg_pure_current", "C19_history_independent", "C19_creation_noninterference"):
                    # the locking discipline is not the proved one: ask Coq for a witness schedule
                    rp = V.stage_prop("C19_refuted")
                    r = V.coqc(rp, timeout=300)
                    m = re.search(r"=\s*Some\s*\((B\w+),\s*\[([0-9;\s]*)\]\)", r.text)
                    if r.ok and m:
                        witness = (m.group(1), [int(x) for x in m.group(2).split(";") if x.strip()])
                        chk.obligation("C19_refuted", True, "kernel-checked witness %s %s; %s" % (witness[0], witness[1],
                                       "Closed under the global context" if "Closed under the global context" in r.text else r.text[-200:]))
                    else:
                        chk.obligation("C19_refuted", False, "no witness among the 2-thread schedules: " + r.text[-300:].replace("\n", " "))
                else:
                    # history obligations broke; the lock part was not reached — check it separately
                    pass
        else:
            broken.append(("translator", "x_once", (p.stdout + p.stderr)[-800:]))

        # model predictions for the schedule stream
        scheds = schedule_set(chk.tier, rng, witness[1] if witness else None)
        fia = bool(info and info.get("first_is_acquire"))
        preds = None
        if info and os.path.exists(gen_v[:-2] + ".vo"):
            preds = model_predict([(n, list(ms) + drain(n)) for n, ms in scheds])

    # ---- the three real-code streams are submitted together (fresh interpreter per item)
    maxlen = 3 if chk.tier == "quick" else 4
    hs, hgroups = history_groups(maxlen)
    specs = [sched_spec(n, ms, fia) for n, ms in scheds]
    reps = 20
    bt = 4
    ylines = []
    if any(b[1] in ("reg_pure_current", "x_once") or b[0] in ("translator", "translator-output") for b in broken):
        # register_hooks (or what it calls) writes module-level state, or could not be translated: a race on that state is what the search
        # has to exhibit — more fresh interpreters, and every thread uses its converter at once
        reps, bt = 80, 16
        ylines = sorted({w["line"] for w in (info or {}).get("writes", []) if w.get("kind") == "WGlobal" and isinstance(w.get("line"), int)})
        ylines = sorted(set(ylines) | {l - 1 for l in ylines} | {l + 1 for l in ylines})
    with cf.ThreadPoolExecutor(14) as ex:
        f_h = [ex.submit(real, "history", {"histories": g, "recheck": 12}) for g in hgroups]
        long_hist = [rng.choices(CFGS, k=3) for _ in range(12)]
        f_long = ex.submit(real, "history", {"histories": long_hist, "hundred": True, "recheck": 60, "churn": 48})
        f_s = [ex.submit(real, "sched", sp) for sp in specs]
        f_st = [ex.submit(real, "stress", dict({"threads": 16, "battery": True, "battery_threads": bt}, **({"yield_lines": ylines} if ylines and k_ % 2 == 0 else {}))) for k_ in range(reps)]
        hres = [f.result() for f in f_h]
        long_run = f_long.result()
        sres = [f.result() for f in f_s]
        st = [f.result() for f in f_st]
    for h in hs:
        chk.count(("hist", tuple(h)))
    # references: every configuration created ALONE in a fresh interpreter (the first len(CFGS) groups are the histories [cfg])
    refs = solo_refs(dict((g[0][0], r) for g, r in zip(hgroups[:len(CFGS)], hres[:len(CFGS)])))
    ref = refs.get("common")
    hist_bad = None
    for g, r in list(zip(hgroups, hres)) + [(long_hist, long_run)]:
        why = judge_history(g, r, refs)
        if why and not hist_bad:
            hist_bad = dict(why, histories=g)
    if hist_bad and hist_bad.get("cfg") in CFGS:
        hist_bad["inputs_that_differ"] = explain_history(hist_bad)
    n_conv = sum(r.get("n_convs", 0) for r in hres if "runner_error" not in r) + long_run.get("n_convs", 0)
    chk.obligation("history-stream:real-converters-agree", hist_bad is None,
                   "%d histories over %s in %d fresh interpreters + 1 long run, %d converters; every converter compared with the same "
                   "configuration created alone in a fresh interpreter: %s inputs incl. %s invalid ones with exception kinds; across "
                   "configurations: values and ok/raise on %s inputs (reference %s)"
                   % (len(hs), CFGS, len(hgroups), n_conv, (long_run.get("n_battery") or 0) + (long_run.get("n_strict") or 0), long_run.get("n_strict"),
                      long_run.get("n_battery"), ref))
    chk.sample({"histories_in_one_interpreter": hgroups[-1], "digests": hres[-1].get("histories")})

    # ---- schedule stream on the real code
    disagreements, real_fail, predicted_fail = [], [], 0
    for i, ((n, ms), spec, r) in enumerate(zip(scheds, specs, sres)):
        chk.count(("sched", n, ms))
        if "runner_error" in r:
            disagreements.append({"schedule": [n, list(ms)], "diff": ["runner failed: " + r["runner_error"][-300:]]})
            continue
        r["_moves"] = spec["moves"]
        why = oracle_fail(r, ref)
        if why:
            real_fail.append((n, list(ms), why, r))
        if preds is not None:
            d = compare(n, preds[i], r, r.get("kreal", 1), fia)
            if 2 in preds[i][1][0]:
                predicted_fail += 1
            if d:
                disagreements.append({"schedule": [n, list(ms)], "diff": d})
        if i in (0, 7):
            chk.sample({"schedule": [n, list(ms)], "real": {"trace": [LABELS.get(x, x) for x in r["trace"][:len(ms)]],
                                                           "threads": [t.get("status") + (":" + t.get("type", "") if t.get("status") == "exc" else "") for t in r["threads"]],
                                                           "resolve_calls": r["resolve_calls"]},
                        "model": None if preds is None else {"stats": preds[i][1][0], "log": preds[i][1][1]}})
    if preds is not None:
        chk.obligation("correspondence:Once-vs-real-schedules", not disagreements,
                       "%d forced schedules, %d disagreements; model predicts a crash in %d, the real code fails in %d"
                       % (len(scheds), len(disagreements), predicted_fail, len(real_fail)))
        if disagreements:
            broken.append(("correspondence", "LSP.Once vs lsprotocol._hooks under forced schedules", json.dumps(disagreements[:4])[:1500]))
    chk.extra["traces_validated_against_impl"] = len(scheds) if preds is not None else 0
    chk.extra["schedule_disagreements"] = len(disagreements)

    # ---- stress (supports the search; proves nothing)
    stress_fail = []
    for r in st:
        chk.count(("stress", len(stress_fail), id(r)), nontrivial=False)
        if "runner_error" in r:
            stress_fail.append(r["runner_error"][-300:])
            continue
        bad = [x for x in r["results"] if x is None or x[0] != "ok" or (ref and x[1] and x[1] != ref)]
        if bad:
            stress_fail.append(bad[0])
    chk.extra["stress"] = {"runs": reps, "threads": 16, "failing_runs": len(stress_fail), "first": stress_fail[:1]}

    # ---- configuration x site stream: every union site / alternative / shape of the metamodel (the C14 per-site stream: valid values
    #      only) through converters created in each configuration, each in its own fresh interpreter; ok/raise, the structured graph and
    #      the re-serialisation must be the same as the default configuration's
    import conv_props as CP
    import conv_stream as CS
    import mmlib
    mmv = mmlib.MMView()
    pkg = CS.load_pkg(mmv)
    scases = CP.site_stream(mmv, pkg, single_optional=(chk.tier != "quick")) + CP.sys_cases(mmv, pkg)
    if chk.tier == "quick":
        scases = [c for i, c in enumerate(scases) if c.get("kind") != "valid-sys" or i % 2 == 0]
    cfgs = ["", "nodetail", "detail", "user", "user-omit", "third", "after-foreign"]
    with cf.ThreadPoolExecutor(7) as ex:
        cres = list(ex.map(lambda g: CS.real_run(scases, cfg=g or None)["results"], cfgs))
    cfg_bad = None
    for g, res in zip(cfgs[1:], cres[1:]):
        for c, a, b in zip(scases, cres[0], res):
            chk.count(("cfg-site", g, c["target"], json.dumps(c["input"], sort_keys=True)))
            same = a["ok"] == b["ok"] and (not a["ok"] or (a.get("dump") == b.get("dump") and a.get("unstr") == b.get("unstr") and a.get("unstr_ok") == b.get("unstr_ok")))
            if not same and cfg_bad is None:
                cfg_bad = {"configuration": g, "target": c["target"], "site": c.get("site"), "json": c["input"],
                           "default_converter": {k: a.get(k) for k in ("ok", "err", "msg", "unstr")}, "this_converter": {k: b.get(k) for k in ("ok", "err", "msg", "unstr")}}
    chk.obligation("configuration-stream:site-inputs-agree", cfg_bad is None,
                   "%d valid inputs (every union site x alternative x shape + systematic values) x configurations %s, each in a fresh interpreter" % (len(scases), cfgs))
    chk.extra["configuration_site_inputs"] = len(scases)
    if cfg_bad:
        chk.violation({"property": "C19", "kind": "configuration", "input": {"mode": "config-site", "spec": cfg_bad},
                       "expected": "the same ok/raise, structured value and re-serialisation as the default get_converter() on this valid input",
                       "observed_impl": cfg_bad, "broken": [b[:2] for b in broken],
                       "how_to_replay": "./check C19 --replay <this file>  (VERIF_CONV_CFG=<configuration> python lib/r_conv.py)"})

    # ---- verdict
    key = finding_key(info)
    opens, _ = V.known_findings("C19")
    known = {o["key"]: o for o in opens}
    how = "./check C19 --replay <this file>"
    explained = False      # real failures that are instances of the refutation witness

    if witness and witness[0] == "BCrash":
        wr = next((r for (n, ms), r in zip(scheds, sres) if n == 2 and list(ms) == witness[1]), None)
        wfail = wr is not None and "runner_error" not in wr and any(t.get("status") == "exc" for t in wr["threads"])
        replay_obj = {"property": "C19", "kind": "once-race", "key": key, "obligation": "lock_ok_current (coq/props/C19.v); refuted by C19_refuted",
                      "input": {"mode": "sched", "spec": sched_spec(2, witness[1], fia)},
                      "witness_schedule": {"threads": 2, "moves": witness[1], "meaning": "each entry lets that thread run to its next yield point"},
                      "translated_program": info["program"], "expected": "every get_converter() call returns a converter",
                      "observed_model": "a thread crashes (RuntimeError out of the ALL_TYPES_MAP iteration)",
                      "observed_impl": None if wr is None else {"threads": wr.get("threads"), "trace": [LABELS.get(x, x) for x in wr.get("trace", [])[:len(witness[1])]]},
                      "also": {"forced_schedules_failing": len(real_fail), "stress_runs_failing": len(stress_fail)}, "how_to_replay": how}
        if wfail:
            explained = True
            if key in known:
                # re-confirm the recorded witness itself
                wit_path = os.path.join(V.VERIF, known[key]["witness"])
                still = replay(wit_path, quiet=True) == 1 if os.path.exists(wit_path) else True
                if still:
                    chk.known("key=%s %s" % (key, known[key]["text"]))
                else:
                    chk.violation(dict(replay_obj, note="the recorded witness %s no longer fails but the current witness does" % known[key]["witness"]))
            else:
                chk.violation(replay_obj)
        else:
            chk.violation(dict(replay_obj, note="the model's witness does not crash the real code: model and code disagree"), no_input=True)
    elif witness:
        wr = next((r for (n, ms), r in zip(scheds, sres) if n == 2 and list(ms) == witness[1]), None)
        why = oracle_fail(wr, ref) if wr else None
        replay_obj = {"property": "C19", "kind": "once-protocol", "key": key, "obligation": broken[0][1] if broken else "lock_ok_current",
                      "input": {"mode": "sched", "spec": sched_spec(2, witness[1], fia)}, "translated_program": info["program"],
                      "observed_model": {"BNotReady": "a thread returns from the initialiser while the flag is unset or classes are unresolved",
                                         "BTwice": "a class is resolved more than once"}.get(witness[0], witness[0]),
                      "witness_schedule": {"threads": 2, "moves": witness[1]},
                      "observed_impl": None if wr is None else {"threads": wr.get("threads"), "resolve_calls": wr.get("resolve_calls"), "kreal": wr.get("kreal")},
                      "expected": "same results as the reference converter, no exception", "how_to_replay": how}
        if why:
            explained = True
            chk.violation(dict(replay_obj, failing=why))
        elif real_fail:
            pass        # reported below with its own replay
        else:
            chk.violation(dict(replay_obj, searched="%d forced schedules, %d histories, %d stress runs on the real code: none fails the property's oracle"
                                                    % (len(scheds), len(hs), reps)), no_input=True)
            explained = True

    if hist_bad:
        chk.violation({"property": "C19", "kind": "history", "input": {"mode": "history", "spec": dict({"histories": hist_bad["histories"], "recheck": 12}, **({"churn": 48, "hundred": True, "recheck": 60} if str(hist_bad.get("where", "")).startswith(("churn", "the 100th")) else {}))},
                       "expected": hist_bad["expected"], "observed_impl": {k: v for k, v in hist_bad.items() if k not in ("expected", "histories")},
                       "module_state_written_by_register_hooks": [w for w in (info or {}).get("writes", []) if w["kind"] == "WGlobal"],
                       "broken": [b[:2] for b in broken], "how_to_replay": how})
    if real_fail and not explained:
        n, ms, why, r = real_fail[0]
        chk.violation({"property": "C19", "kind": "schedule", "key": key, "input": {"mode": "sched", "spec": sched_spec(n, ms, fia)},
                       "expected": "every thread gets a converter that gives the reference results", "observed_impl": {"why": why, "threads": r.get("threads")},
                       "broken": [b[:2] for b in broken], "forced_schedules_failing": len(real_fail), "how_to_replay": how})
        explained = True
    if stress_fail and not explained:
        chk.violation({"property": "C19", "kind": "stress", "input": {"mode": "stress", "spec": dict({"threads": 16, "battery": True, "battery_threads": bt}, **({"yield_lines": ylines} if ylines else {})), "repeat": 60},
                       "expected": "16 concurrent first calls all succeed", "observed_impl": stress_fail[0], "broken": [b[:2] for b in broken],
                       "how_to_replay": how + "  (non-deterministic: repeated 60 times)"})
        explained = True
    if broken and not chk.violations and not chk.known_printed:
        chk.violation({"property": "C19", "kind": "obligation no longer checks", "broken": [{"what": a, "name": b, "detail": c} for a, b, c in broken],
                       "searched": "%d forced schedules, %d histories, %d stress runs on the real code: none fails the property's oracle" % (len(scheds), len(hs), reps)},
                      no_input=True)
    elif broken and chk.known_printed and any(b[0] in ("correspondence", "translator", "translator-output") for b in broken):
        chk.violation({"property": "C19", "kind": "obligation no longer checks", "broken": [{"what": a, "name": b, "detail": c} for a, b, c in broken]}, no_input=True)


def replay(path, quiet=False):
    r = json.load(open(path))
    inp = r.get("input")
    if not inp:
        if not quiet:
            print("no concrete input recorded:", json.dumps(r.get("broken") or r.get("obligation"))[:2000])
        return 1
    mode, spec = inp["mode"], inp["spec"]
    if mode == "config-site":
        import conv_stream as CS
        case = [{"target": spec["target"], "input": spec["json"]}]
        a = CS.real_run(case)["results"][0]
        b = CS.real_run(case, cfg=spec["configuration"])["results"][0]
        same = a["ok"] == b["ok"] and (not a["ok"] or (a.get("dump") == b.get("dump") and a.get("unstr") == b.get("unstr")))
        if not quiet:
            print("default:", {k: a.get(k) for k in ("ok", "err", "msg")}, "|", spec["configuration"] + ":", {k: b.get(k) for k in ("ok", "err", "msg")})
        return 0 if same else 1
    ref = r.get("reference")
    for _ in range(inp.get("repeat", 1)):
        res = real(mode, spec)
        if mode == "sched":
            if ref is None:
                ref = (real("history", {"histories": [["fresh"]]}).get("histories") or [[None]])[0][0]
            why = oracle_fail(res, ref)
        elif mode == "stress":
            bad = [x for x in res.get("results", []) if x is None or x[0] != "ok"] if "runner_error" not in res else [res]
            why = str(bad[0]) if bad else None
        else:
            cfgs = sorted({c for h in spec["histories"] for c in h} | {"fresh"})
            refs = solo_refs({c: real("history", {"histories": [[c]]}) for c in cfgs})
            bad = judge_history(spec["histories"], res, refs)
            why = None if bad is None else json.dumps(bad)[:800]
        if why:
            if not quiet:
                print("still fails:", why)
            return 1
    if not quiet:
        print("no longer fails")
    return 0
