"""C13 — enums carry exactly the metamodel's values; open ones accept custom values.

proof:   coq/props/C13.v: enum table = metamodel (ground, with multiplicity), every direct use site has the type/hook the
         generic lemmas need (instance, exhaustive), generic acceptance / rejection / round-trip lemmas for every value
tie:     x_mm, x_pkg; converter correspondence on every (use site, value) pair
search:  every direct use site x every declared value + custom values on the real converter; enum members vs metamodel
"""
import json
import os
import random

import conv_stream as CS
import mmlib
import vcommon as V

RULE = ("every direct use site (property / array element / map value whose type is the enumeration) x every declared value "
        "+ custom values of the base type (seeded); oracle: accepted and round-tripped unless the enumeration is closed and the value undeclared; distinct = (class, property, value)")


def sites(mmv):
    for sn in mmv.S:
        if sn == "LSPObject":
            continue
        for pn, p in mmv.flat(sn).items():
            t = p["type"]
            if t["kind"] == "reference" and t["name"] in mmv.E:
                yield sn, pn, "prop", t["name"]
            elif t["kind"] == "array" and t["element"]["kind"] == "reference" and t["element"]["name"] in mmv.E:
                yield sn, pn, "elem", t["element"]["name"]
            elif t["kind"] == "map" and t["value"]["kind"] == "reference" and t["value"]["name"] in mmv.E:
                yield sn, pn, "mapval", t["value"]["name"]


def wrap(kind, v):
    return v if kind == "prop" else [v] if kind == "elem" else {"k": v}


def union_positions(mmv, t, arr=False, depth=0):
    """[(inside an array?, [structure names among the alternatives])] for the `or` types met at or just below a property type"""
    t = mmv.resolve_alias(t)
    out = []
    if depth > 3:
        return out
    if t["kind"] == "or":
        names = []
        for a in t["items"]:
            ra = mmv.resolve_alias(a)
            if ra["kind"] == "reference" and ra["name"] in mmv.S:
                names.append(ra["name"])
            elif ra["kind"] == "array" and mmv.resolve_alias(ra["element"])["kind"] == "reference" and mmv.resolve_alias(ra["element"])["name"] in mmv.S:
                out.append((True, [mmv.resolve_alias(ra["element"])["name"]]))          # ... | X[] | ...
            elif ra["kind"] in ("array", "or"):
                out += union_positions(mmv, ra, arr or ra["kind"] == "array", depth + 1)
        if names:
            out.append((arr, names))
    elif t["kind"] == "array":
        et = mmv.resolve_alias(t["element"])
        if et["kind"] == "or":
            out += union_positions(mmv, et, True, depth + 1)
    return out


def run(chk):
    rng = random.Random(chk.seed)
    chk.rule = RULE
    chk.trusted = V.STD_TRUSTED + ["translators x_mm, x_pkg", "hand-written converter model LSP.Sem (validated by the correspondence stream)"]
    mmv = mmlib.MMView()
    open_enums = {e["name"] for e in mmv.doc["enumerations"] if e.get("supportsCustomValues")} | {"CompletionItemKind"}
    with V.build_lock():
        ok, fails = CS.build_conv(chk)
        if ok:
            proved, f2 = V.prove(chk, "C13", [])
            fails += f2
        pkg = CS.load_pkg(mmv)
        cases, meta = [], []
        for sn, pn, kind, en in sites(mmv):
            if pkg and sn not in pkg["classes"]:
                continue
            e = mmv.E[en]
            isstr = e["type"]["name"] == "string"
            declared = [v["value"] for v in e["values"]]
            custom = (["zz.custom", ""] if isstr else [max(declared) + 977, 0 if 0 not in declared else max(declared) + 5])
            if isstr:
                # custom values that are NEAR a declared one (another case, a blank, one character more or less): they are custom values
                # like any other and must come back unchanged
                near = []
                for v in declared[:3]:
                    near += [v.upper(), v.capitalize(), v.swapcase(), v + " ", v[:-1], v + "x"]
                custom += [x for x in dict.fromkeys(near) if x not in declared and x not in custom]
            if not isstr:
                # the ends of the base type's range (uinteger / integer), as far as they are not declared values
                base = next((e["type"]["name"] for e in mmv.doc["enumerations"] if e["name"] == en), "integer")
                custom += [b for b in ([0, 2**31 - 1] if base == "uinteger" else [-2**31, 2**31 - 1]) if b not in declared and b not in custom]
            if chk.tier == "thorough":
                custom += ([rng.choice(["é", "a b", "X" * 40])] if isstr else [rng.randrange(1000, 2**31 - 1)])
            base = mmv.value(mmlib.ref(sn), 0, 0, 0)
            for v in declared + custom:
                j = dict(base)
                j[pn] = wrap(kind, v)
                want = (v in declared) or (en in open_enums)
                cases.append({"target": sn, "input": j, "kind": "enum"})
                meta.append((sn, pn, kind, en, v, want))
                chk.count((sn, pn, v))
        # the same use sites NESTED under the positions that reach their class through a union (where a dispatching hook, not the class's
        # own structure function, decides how the object is built): Y.q : ... | X | ... or (X | ...)[]; one declared and one undeclared
        # value each; an undeclared value of a closed enumeration must still be rejected unless another alternative admits the object
        import r_ctor_valid
        parents = {}
        for yn in mmv.S:
            if yn == "LSPObject" or (pkg and yn not in pkg["classes"]):
                continue
            for qn, q in mmv.flat(yn).items():
                for arr, alts in union_positions(mmv, q["type"]):
                    for xn in alts:
                        parents.setdefault(xn, []).append((yn, qn, arr, q["type"]))
        n_nested = 0
        for sn, pn, kind, en in sites(mmv):
            if pkg and sn not in pkg["classes"]:
                continue
            e = mmv.E[en]
            declared = [v["value"] for v in e["values"]]
            outside = "zz.custom" if e["type"]["name"] == "string" else max(declared) + 977
            xbase = mmv.value(mmlib.ref(sn), 0, 0, 0)
            for yn, qn, arr, qt in parents.get(sn, [])[:4]:
                ybase = mmv.value(mmlib.ref(yn), 0, 0, 0)
                for v in (declared[0], outside):
                    x = dict(xbase)
                    x[pn] = wrap(kind, v)
                    j = dict(ybase)
                    j[qn] = [x] if arr else x
                    want = (v in declared) or (en in open_enums) or r_ctor_valid.valid(mmv, qt, j[qn])
                    cases.append({"target": yn, "input": j, "kind": "enum-nested"})
                    meta.append((yn, "%s.%s" % (qn, pn), "nested:" + kind, en, v, want))
                    chk.count((yn, qn, sn, pn, v))
                    n_nested += 1
        chk.extra["nested_use_sites"] = n_nested
        if ok:
            verdict, real = CS.run_cases(cases, "C13")
            nbad = sum(1 for v in verdict if v)
            chk.obligation("correspondence:Sem-vs-real-converter(enum sites)", nbad == 0, "%d cases, %d disagreements" % (len(cases), nbad))
            chk.extra["traces_validated_against_impl"] = len(cases)
            if nbad:
                i = [k for k, v in enumerate(verdict) if v][0]
                fails.append(("correspondence", "LSP.Sem vs converter", json.dumps({"case": cases[i], "code": verdict[i]})[:1500]))
        else:
            real = CS.real_results(cases)
    chk.extra["use_sites"] = len({m[:3] for m in meta})
    witness = None
    for m, c, r in zip(meta, cases, real):
        sn, pn, kind, en, v, want = m
        if r["ok"] != want:
            witness = witness or {"class": sn, "property": pn, "site": kind, "enum": en, "value": v, "json": c["input"], "expected": "accepted" if want else "rejected", "observed": "accepted" if r["ok"] else "raises %s" % r.get("err")}
        elif want and kind.startswith("nested:"):
            pass        # accepted as required; the round trip of nested values is C01's
        elif want:
            out = r.get("unstr") or {}
            got = out.get(pn) if isinstance(out, dict) else None
            if not r.get("unstr_ok") or got != wrap(kind, v):
                witness = witness or {"class": sn, "property": pn, "site": kind, "enum": en, "value": v, "json": c["input"], "expected": "round-trips", "observed": got}
    if cases:
        chk.sample({"class": meta[0][0], "property": meta[0][1], "enum": meta[0][3], "value": meta[0][4], "expected_accept": meta[0][5]})
    # enum members vs metamodel on the real package
    p = V.run_py("s_image.py")
    issues = [i for i in (json.loads(p.stdout) if p.returncode == 0 else []) if i["what"] in ("enum values", "missing enum")]
    if issues and not witness:
        witness = issues[0]
    if witness:
        chk.violation({"property": "C13", "kind": "real package/converter contradicts the enumeration rule", "input": witness, "broken": [f[:2] for f in fails]})
    elif fails:
        chk.violation({"property": "C13", "kind": "obligation no longer checks", "broken": [{"what": a, "name": b, "detail": c} for a, b, c in fails],
                       "searched": "%d (use site, value) pairs on the real converter: as specified" % len(cases)}, no_input=True)


def replay(path):
    r = json.load(open(path))
    inp = r.get("input")
    if not inp or "json" not in inp:
        print("no concrete converter input recorded:", json.dumps(inp)[:300])
        return 1
    res = CS.real_run([{"target": inp["class"], "input": inp["json"]}])["results"][0]
    obs = "accepted" if res["ok"] else "rejected"
    print("observed:", obs, "expected:", inp["expected"])
    if inp["expected"] in ("accepted", "rejected"):
        return 1 if obs != inp["expected"] else 0
    return 1
