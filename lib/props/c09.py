"""C09 — method catalogue and type registry agree with the metamodel.

proof:   coq/props/C09.v: W_cat ... = true by vm_compute (exhaustive: 95 methods x {row, request/notification class,
         response class, params, registration options, direction, constant}; converse inclusions; registry completeness;
         no unresolved forward reference), meaning via LSP.CatThy reflection lemmas
tie:     x_mm, x_pkg (live METHOD_TO_TYPES, _MESSAGE_DIRECTION / message_direction, UPPER_SNAKE constants, ALL_TYPES_MAP)
search:  lib/s_catalogue.py on the real module objects
"""
import json
import re

import conv_stream as CS
import mmlib
import vcommon as V

RULE = "exhaustive: every method of the metamodel x 7 components, every catalogue row / direction entry / constant (converse), every defined type name vs the registry; distinct = (method, component)"


def run(chk):
    chk.rule = RULE
    chk.trusted = V.STD_TRUSTED + ["translators x_mm, x_pkg (reads the same dict objects a user gets)", "specification functions of LSP.CatSpec (envelope class shapes, py_of) — the pinned reading of C09"]
    mmv = mmlib.MMView()
    with V.build_lock():
        ok, fails = CS.build_conv(chk)
        proved = False
        witnesses = []
        if ok:
            proved, f2 = V.prove(chk, "C09", [])
            fails += f2
            if not proved:
                try:
                    outs = V.coq_eval("ExplainC09", "From LSP Require Import Base MM Sem Image CatSpec.\nFrom Gen Require Import MMData PkgData.\n",
                                      ["cat_why mm Sg alias_objects catalogue method_constants registry_names defined_types"])
                    witnesses = [{"method": a, "why": b} for a, b in re.findall(r'\("([^"]*)",\s*(C\w+)\)', outs[0])][:30]
                except Exception as e:
                    witnesses = [{"explain_failed": str(e)[-300:]}]
    for kind, e in mmv.messages():
        for comp in ("row", "class", "response", "params", "regopts", "direction", "constant"):
            chk.count((e["method"], comp))
    chk.exhaustive = True
    chk.extra["methods"] = len(mmv.messages())
    chk.sample({"method": mmv.doc["requests"][0]["method"], "direction": mmv.doc["requests"][0]["messageDirection"]})
    p = V.run_py("s_catalogue.py")
    issues = json.loads(p.stdout) if p.returncode == 0 else None
    chk.obligation("search:real-catalogue-vs-metamodel", p.returncode == 0, "%s issues" % (len(issues) if issues is not None else "failed: " + p.stderr[-300:]))
    if issues:
        chk.violation({"property": "C09", "kind": "catalogue/registry differs from the metamodel", "input": issues[0], "all": issues[:25], "model_explain": witnesses})
    elif fails or p.returncode != 0:
        chk.violation({"property": "C09", "kind": "obligation no longer checks", "broken": [{"what": a, "name": b, "detail": c} for a, b, c in fails] or [{"what": "search", "detail": p.stderr[-1500:]}],
                       "model_explain": witnesses, "searched": "s_catalogue.py over every method/row/constant/registry name of the real module: no difference"}, no_input=True)


def replay(path):
    r = json.load(open(path))
    p = V.run_py("s_catalogue.py")
    if p.returncode != 0:
        print("package does not import:", p.stderr[-500:])
        return 1
    issues = json.loads(p.stdout)
    inp = r.get("input") or {}
    still = [i for i in issues if i["method"] == inp.get("method") and i["component"] == inp.get("component")]
    print("still failing:" if still else "no longer failing", json.dumps(still or inp)[:500])
    return 1 if still else 0
