"""C02 — objects built with the public constructors serialise to the exact spec JSON.

proof:   coq/props/C02.v (partial): camel(attribute name) = wire name = metamodel name for every attribute (ground,
         exhaustive), key rule (shared with C10), generic shape of class unstructuring
tie:     x_mm, x_pkg; the MODEL's unstr is run on the dump of the objects the real constructors built and compared with the
         real unstructure output (correspondence of the serialisation path on constructor-built objects)
search:  constructor stream: every structure / request / response / notification built from metamodel-valid values by
         calling the generated constructors (no parsing), unstructure == normal form, re-structure + unstructure == same
"""
import concurrent.futures
import json
import os
import random
import re

import conv_props as CP
import conv_stream as CS
import mmlib
import vcommon as V
from mmlib import cj

RULE = ("every structure (3 systematic settings + seeded random values) and every message class, built by calling the generated constructors "
        "with snake_case keyword arguments (first valid union alternative, enum members, tuples, floats at decimal positions); oracle: "
        "unstructure == normal form of the input (explicit null for absent null-admitting properties), and structure+unstructure of that "
        "output returns it unchanged; distinct = (target, input)")


def norm(mmv, t, j):
    """normal form: j + explicit null for absent null-admitting properties; objects follow the first valid alternative"""
    k = t["kind"]
    if k == "reference":
        n = t["name"]
        if n in ("LSPAny", "LSPObject", "LSPArray"):
            return j
        if n in mmv.S and isinstance(j, dict):
            ps = mmv.flat(n)
            if not ps:
                return j
            d = {}
            for pn, p in ps.items():
                if pn in j and not (j[pn] is None and p.get("optional") and not mmv.null_adm(p["type"])):
                    # (an explicit null at an optional LSPAny property is Python's None = unset: pinned reading, DESIGN C01)
                    d[pn] = norm(mmv, p["type"], j[pn])
                elif mmv.null_adm(p["type"]):
                    d[pn] = None
            return d
        if n in mmv.A:
            return norm(mmv, mmv.A[n]["type"], j)
        return j
    if k == "array" and isinstance(j, list):
        return [norm(mmv, t["element"], x) for x in j]
    if k == "map" and isinstance(j, dict):
        return {kk: norm(mmv, t["value"], v) for kk, v in j.items()}
    if k == "tuple" and isinstance(j, list):
        return [norm(mmv, a, x) for a, x in zip(t["items"], j)]
    if k == "literal" and isinstance(j, dict) and t["value"]["properties"]:
        d = {}
        for p in t["value"]["properties"]:
            if p["name"] in j:
                d[p["name"]] = norm(mmv, p["type"], j[p["name"]])
            elif mmv.null_adm(p["type"]):
                d[p["name"]] = None
        return d
    if k == "or":
        import r_ctor_valid
        for a in t["items"]:
            if r_ctor_valid.valid(mmv, a, j):
                return norm(mmv, a, j)
        return j
    if k == "and" and isinstance(j, dict):
        ps = {}
        for i in t["items"]:
            for kk, vv in mmv.flat(i["name"]).items():
                ps.setdefault(kk, vv)
        d = {}
        for pn, p in ps.items():
            if pn in j:
                d[pn] = norm(mmv, p["type"], j[pn])
            elif mmv.null_adm(p["type"]):
                d[pn] = None
        return d
    return j


def eqv(a, b):
    """equal JSON; ints and integral floats identified (a decimal given as 3 is serialised 3.0)"""
    if isinstance(a, dict) and isinstance(b, dict):
        return set(a) == set(b) and all(eqv(a[k], b[k]) for k in a)
    if isinstance(a, (list, tuple)) and isinstance(b, (list, tuple)):
        return len(a) == len(b) and all(eqv(x, y) for x, y in zip(a, b))
    if isinstance(a, bool) or isinstance(b, bool):
        return a is b
    if isinstance(a, (int, float)) and isinstance(b, (int, float)):
        return a == b
    return type(a) is type(b) and a == b


def cpv(d):
    """dump (r_conv.dump format) -> Coq pv term"""
    if d is None:
        return "VNone"
    if isinstance(d, bool):
        return "(VBool %s)" % str(d).lower()
    if isinstance(d, int):
        return "(VInt (%d))" % d
    if isinstance(d, str):
        return "(VStr %s)" % V.q(d)
    if isinstance(d, list):
        return "(VList [%s])" % "; ".join(cpv(x) for x in d)
    if isinstance(d, dict):
        if set(d) == {"$f"}:
            return "(VFlt (%d) (%d))" % tuple(d["$f"])
        if set(d) == {"$t"}:
            return "(VTuple [%s])" % "; ".join(cpv(x) for x in d["$t"])
        if set(d) == {"$d"}:
            return "(VDict [%s])" % "; ".join("(%s, %s)" % (cpv(k), cpv(v)) for k, v in d["$d"])
        if set(d) == {"$e", "v"}:
            return "(VEnum %s %s)" % (V.q(d["$e"]), cpv(d["v"]))
        if set(d) == {"$c", "f"}:
            return "(VObj %s [%s])" % (V.q(d["$c"]), "; ".join("(%s, %s)" % (V.q(k), cpv(v)) for k, v in d["f"].items()))
    raise TypeError(repr(d)[:100])


def model_unstr(cases, real, tag="C02"):
    """run the model's unstr on the dumps of the constructor-built objects; indexes where it differs from the real output"""
    rows, idx = [], []
    for i, (c, r) in enumerate(zip(cases, real)):
        if r.get("ok") and r.get("unstr_ok"):
            rows.append("(%s, %s, %s)" % (V.q(c["target"]), cpv(r["dump"]), CS.cjx(r["unstr"])))
            idx.append(i)
    hdr = ("From LSP Require Import Base Sem Corr.\nFrom Gen Require Import PkgData.\nOpen Scope string_scope.\n"
           "Definition ok (x : string * pv * json) : bool := match unstr Sg 60 (Some (PyCls (fst (fst x)))) (snd (fst x)) with Ok j => jeqb (canon j) (snd x) | _ => false end.\n")
    files = []
    shard = 300
    for s in range(0, len(rows), shard):
        f = os.path.join(V.PROPS_OUT, "Cases_%s_%d.v" % (tag, s // shard))
        V.write_if_changed(f, hdr + "Definition cases := [\n" + ";\n".join(rows[s:s + shard]) + "].\n"
                           "Eval vm_compute in (map fst (filter (fun p => negb (ok (snd p))) (combine (seq 0 (length cases)) cases))).\n")
        files.append((s, f))
    bad = []
    with concurrent.futures.ThreadPoolExecutor(8) as ex:
        outs = list(ex.map(lambda sf: V.coqc(sf[1]), files))
    for (s, f), r in zip(files, outs):
        if not r.ok:
            raise RuntimeError("cases shard failed: " + r.text[-1000:])
        bad += [idx[s + int(x)] for x in re.findall(r"\d+", r.out.split(": list nat")[0])]
    return bad, len(rows)


def run(chk):
    rng = random.Random(chk.seed)
    chk.rule = RULE
    chk.trusted = V.STD_TRUSTED + ["translators x_mm, x_pkg", "converter model LSP.Sem (unstructure side) validated on the dumps of constructor-built objects",
                                   "lib/r_ctor.py: the constructor harness (annotation-guided choice of literal classes, first valid alternative by an independent strict validator)"]
    mmv = mmlib.MMView()
    with V.build_lock():
        ok, fails = CS.build_conv(chk)
        if ok:
            kn = os.path.join(V.GEN, "Known.v")
            pk = V.run_py("x_known.py", [kn])
            chk.obligation("translate:x_known", pk.returncode == 0, (pk.stdout + pk.stderr)[-200:])
            proved, f2 = V.prove(chk, "C02", [kn], extra_props=("Cover",))
            fails += f2
        pkg = CS.load_pkg(mmv)
        cases = []
        for sn in mmv.S:
            if sn == "LSPObject" or sn not in pkg["classes"]:
                continue
            vals = [mmv.value(mmlib.ref(sn), 0, a, d) for a, d in ((0, 0), (1, 3), (2, 2))]
            vals += [mmv.rand(mmlib.ref(sn), rng, 0, rng.choice([1, 2, 3])) for _ in range(1 if chk.tier == "quick" else 8)]
            for v in vals:
                cases.append({"target": sn, "kind": "struct", "input": v})
        # the per-site stream too (every union alternative, open-enum custom values, single-optional variants) on the constructor path
        seen_in = {(c["target"], json.dumps(c["input"], sort_keys=True)) for c in cases}
        for c in CP.site_stream(mmv, pkg, single_optional=(chk.tier != "quick")):
            if c["kind"] == "site" and c["target"] in mmv.S:
                k = (c["target"], json.dumps(c["input"], sort_keys=True))
                if k not in seen_in:
                    seen_in.add(k)
                    cases.append({"target": c["target"], "kind": "struct", "input": c["input"]})
        for kind, r in mmv.messages():
            names = pkg["methods"].get(r["method"])
            if not names:
                continue
            for _ in range(1 if chk.tier == "quick" else 4):
                if kind == "request":
                    j = {"id": rng.choice([1, "x"])}
                    if "params" in r:
                        j["params"] = mmv.rand(r["params"], rng, 1, 2)
                    cases.append({"target": names[0], "kind": "request", "entry": r, "input": j})
                    if names[1]:
                        cases.append({"target": names[1], "kind": "response", "entry": r, "input": {"id": 1, "result": mmv.rand(r["result"], rng, 1, 2)}})
                else:
                    j = {}
                    if "params" in r:
                        j["params"] = mmv.rand(r["params"], rng, 1, 2)
                    cases.append({"target": names[0], "kind": "notification", "entry": r, "input": j})
        # an explicit null wherever null is a VALID value of a required position: LSPAny-typed required properties / params, required
        # `T | null` properties (the object is built with None there and the null must be written)
        def admits_null(t):
            t = mmv.resolve_alias(t)
            return (t["kind"] == "reference" and t["name"] == "LSPAny") or mmv.null_adm(t)
        for sn in mmv.S:
            if sn == "LSPObject" or sn not in pkg["classes"]:
                continue
            base = None
            for pn, pr in mmv.flat(sn).items():
                if not pr.get("optional") and admits_null(pr["type"]):
                    base = base if base is not None else mmv.value(mmlib.ref(sn), 0, 0, 0)
                    cases.append({"target": sn, "kind": "struct", "input": dict(base, **{pn: None})})
        for kind, r in mmv.messages():
            names = pkg["methods"].get(r["method"])
            if names and "params" in r and admits_null(r["params"]):
                j = {"params": None}
                if kind == "request":
                    j["id"] = 1
                cases.append({"target": names[0], "kind": kind, "entry": r, "input": j})
            if names and kind == "request" and names[1] and admits_null(r["result"]):
                cases.append({"target": names[1], "kind": "response", "entry": r, "input": {"id": 1, "result": None}})
        p = V.run_py("r_ctor.py", input_=json.dumps({"cases": cases}), timeout=3600)
        if p.returncode != 0:
            raise RuntimeError("r_ctor failed: " + p.stderr[-2000:])
        real = json.loads(p.stdout)["results"]

        def rerun(cfg):
            p2 = V.run_py("r_ctor.py", input_=json.dumps({"cases": cases}), timeout=3600, extra_env={"VERIF_CONV_CFG": cfg})
            if p2.returncode != 0:
                raise RuntimeError("r_ctor (%s) failed: " % cfg + p2.stderr[-2000:])
            return json.loads(p2.stdout)["results"]
        CS.merge_foreign_history(cases, real, rerun, key=lambda r: json.dumps(r, sort_keys=True))
        bad, nrows = model_unstr(cases, real) if ok else ([], 0)
        chk.obligation("correspondence:Sem.unstr-vs-real-unstructure(constructor-built objects)", ok and not bad, "%d objects, %d disagreements" % (nrows, len(bad)))
        chk.extra["traces_validated_against_impl"] = nrows
        if bad:
            fails.append(("correspondence", "LSP.Sem.unstr vs converter", json.dumps({"target": cases[bad[0]]["target"], "input": cases[bad[0]]["input"]})[:1500]))
    witness = None
    dist = {}
    for c, r in zip(cases, real):
        chk.count((c["target"], json.dumps(c["input"], sort_keys=True)))
        dist[c["kind"]] = dist.get(c["kind"], 0) + 1
        j = c["input"]
        if c["kind"] == "struct":
            exp = norm(mmv, mmlib.ref(c["target"]), j)
        else:
            e = c["entry"]
            exp = {"jsonrpc": "2.0"}
            if c["kind"] != "response":
                exp["method"] = e["method"]
            if "id" in j:
                exp["id"] = j["id"]
            if "params" in j:
                exp["params"] = norm(mmv, e["params"], j["params"])
            if c["kind"] == "response":
                exp["result"] = norm(mmv, e["result"], j["result"])
        if not r.get("ok"):
            witness = witness or {"target": c["target"], "kind": c["kind"], "json": j, "observed": "constructor path raises: %s" % r.get("err")}
        elif not r.get("unstr_ok"):
            witness = witness or {"target": c["target"], "kind": c["kind"], "json": j, "observed": r.get("err")}
        elif not eqv(CP.unfl(r["unstr"]), exp):
            witness = witness or {"target": c["target"], "kind": c["kind"], "json": j, "expected": exp, "observed": CP.unfl(r["unstr"])}
        elif not r.get("restr_ok") or not eqv(CP.unfl(r["unstr2"]), CP.unfl(r["unstr"])):
            witness = witness or {"target": c["target"], "kind": c["kind"], "json": j, "observed": "structuring the output and serialising again does not return it: %s" % (r.get("err") or "differs")}
    chk.extra["input_distribution"] = dist
    if cases:
        chk.sample({"target": cases[0]["target"], "input": cases[0]["input"]})
    if witness:
        w = dict(witness)
        chk.violation({"property": "C02", "kind": "constructor-built object does not serialise to the normal form", "input": w, "broken": [x[:2] for x in fails]})
    elif fails:
        chk.violation({"property": "C02", "kind": "obligation no longer checks", "broken": [{"what": a, "name": b, "detail": c} for a, b, c in fails],
                       "searched": "%d constructor-built objects: all serialise to the normal form and re-parse to it" % len(cases)}, no_input=True)


def replay(path):
    r = json.load(open(path))
    inp = r.get("input")
    if not inp or "json" not in inp:
        print("no concrete input recorded")
        return 1
    print("re-run ./check C02 (the constructor harness needs the metamodel entry); recorded input:", json.dumps(inp)[:400])
    return 1
