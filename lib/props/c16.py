"""C16 — generation is a deterministic function of the model files alone.                      LEVEL: partial

proof:   coq/Emit.v (generic, about the ABSTRACT emission pipeline: emit_id_invariant, emit_perm_invariant,
         glob_delete_invariant, glob_write_invariant, run_history_independent, run_preserves_foreign — all id assignments,
         iteration orders, prior directory states; view_state/const_state/memo_history_independent — all earlier generations
         of the same process), instantiated at strings in coq/props/C16.v together with the instance obligations
         `no_module_state` / `sites_covered` / `plugins_owned` computed on the site table that lib/x_emit.py extracts from
         the current generator (plugins, model.py, __main__.py).
tie:     x_emit (syntactic classification of every set / random id / directory listing by its consumer, and — via
         lib/emit_modstate.py — of every module-level name, class attribute, default value and functools cache by whether
         any function can change it) + two streams on the REAL generator:
         history stream: model lists {committed lsp.json, [lsp.json, extension.json] with keyword-named properties and
         digit-named messages; for testdata also a small standalone model and its extension} x {PYTHONHASHSEED 1, 2, 3, random} x
         {fresh directory, re-run into the same directory, run after the other model list in the same directory, run after
         hand-placed stale files matching the plugin's owned pattern}, byte comparison of whole output trees, plus a scan of
         the output for uuid-shaped strings;
         process stream: several generations inside ONE Python process (lib/c16_inproc.py, entry point generator.__main__.main)
         — model A, then model B = A with every referenced enumeration's supportsCustomValues flipped and the first property
         of every extends/mixins base structure made optional/required (same names, different answers to every by-name
         lookup), then A again; B then A; the extended model list E (more definitions), then A, then E; and all plugins interleaved
         in one process — each output tree compared with the
         tree a fresh process writes for the same model.
partial: that each Python expression is an instance of its abstract class is not proved.
"""
import concurrent.futures as cf
import hashlib
import json
import os
import re
import shutil
import subprocess

import vcommon as V

LEVEL = "proof"      # evidence level category; the claim itself is labelled PARTIAL in MANIFEST level text
RULE = ("history stream: per plugin and model list — python/rust/dotnet on the committed lsp.json and on the EXTENDED list [lsp.json, extension.json] "
        "(extension: 5 structures with Python-keyword properties, a request/notification whose names contain digits, an enumeration); "
        "testdata on a small standalone model and its digit-named extension (quick) and on the full lists (thorough) — every combination of "
        "PYTHONHASHSEED in {1, 2, 3, random} and run history in {fresh directory, re-run into the same directory, run after the OTHER model "
        "list in the same directory, run after hand-placed stale files matching the owned pattern}; the whole output tree (path -> sha256) "
        "must equal the reference tree of that (plugin, model list); distinct = distinct (plugin, model list, seed, history). "
        "process stream: per plugin (python/rust/dotnet on lsp.json, testdata on the small model; thorough: testdata on lsp.json too) the "
        "generation sequences [A, B, A], [B, A] and [E, A, E] (E = the extended model list, which has more definitions) inside one Python process, and one process running all plugins interleaved "
        "[p1 A, p2 A, p3 A, p1 B, p2 B, p3 B, p1 A]; B = A with the supportsCustomValues flag of every referenced enumeration flipped and the "
        "optional flag of the first property of every extends/mixins base flipped (nothing renamed); every step's output tree must equal the "
        "tree written by a fresh process for the same (plugin, model), and fresh A and fresh B must differ (non-vacuity); "
        "distinct = distinct (sequence, step)")
SEEDS = ["1", "2", "random"]
HISTS = ["fresh", "rerun", "after-other-model", "after-stale-files"]
OTHER = {"committed": "extended", "extended": "committed", "small": "small-ext", "small-ext": "small"}
UUID_RE = re.compile(rb"[0-9a-f]{8}-[0-9a-f]{4}-[1-5][0-9a-f]{3}-[89ab][0-9a-f]{3}-[0-9a-f]{12}")
Z64 = "0" * 64
STALE = {"python": [("lsprotocol/types.py", "# stale content from an earlier model\nclass Stale: ...\n")],
         "rust": [("lsprotocol/src/lib.rs", "// stale\npub struct Stale;\n")],
         "dotnet": [("lsprotocol/Stale.cs", "// stale\nclass Stale {}\n"), ("lsprotocol/ZzzOld2.cs", "// stale\n")],
         "testdata": [("StaleRequest-True-%s.json" % Z64, "{}\n"), ("Stale2ThingNotification-False-%s.json" % Z64, "{}\n")]}


def tree(d):
    out = {}
    leaks = []
    for root, _, files in os.walk(d):
        for f in files:
            p = os.path.join(root, f)
            b = open(p, "rb").read()
            out[os.path.relpath(p, d)] = hashlib.sha256(b).hexdigest()
            if f.endswith((".py", ".rs", ".cs")) and UUID_RE.search(b):
                leaks.append(os.path.relpath(p, d))
    return out, leaks


def _ref(n):
    return {"kind": "reference", "name": n}


def _base(n):
    return {"kind": "base", "name": n}


def write_models(base):
    """model files used by the stream -> {model list name: [paths] or None for the packaged default}"""
    kw = ["from", "import", "class", "global", "lambda"]
    structs = [{"name": "ZzKeyword%sHolder" % k.capitalize(), "documentation": "Extension structure with a Python keyword property.",
                "properties": [{"name": k, "type": _base("string")}, {"name": "other", "type": _base("integer"), "optional": True}]} for k in kw]
    structs += [{"name": "ZzUtf8StatusParams", "properties": [{"name": "uri", "type": _base("DocumentUri")}, {"name": "level", "type": _ref("ZzStatusLevel"), "optional": True}]},
                {"name": "ZzUtf8Status", "properties": [{"name": "ok", "type": _base("boolean")}, {"name": "holder", "type": _ref("ZzKeywordFromHolder"), "optional": True}]},
                {"name": "ZzV2ThingParams", "properties": [{"name": "things", "type": {"kind": "array", "element": _base("string")}}]}]
    enums = [{"name": "ZzStatusLevel", "type": _base("uinteger"), "values": [{"name": "Low", "value": 1}, {"name": "High", "value": 2}]}]
    result = {"kind": "or", "items": [_ref("ZzUtf8Status"), _base("null")]}
    digit_req = {"method": "workspace/utf8Status", "typeName": "WorkspaceUtf8StatusRequest", "messageDirection": "clientToServer", "params": _ref("ZzUtf8StatusParams"), "result": result}
    digit_not = {"method": "zz/v2Thing", "typeName": "ZzV2ThingNotification", "messageDirection": "both", "params": _ref("ZzV2ThingParams")}
    plain_req = {"method": "zz/plainStatus", "typeName": "ZzPlainStatusRequest", "messageDirection": "clientToServer", "params": _ref("ZzUtf8StatusParams"), "result": result}
    meta = {"version": "3.17.0"}
    ext = {"metaData": meta, "requests": [digit_req], "notifications": [digit_not], "structures": structs, "enumerations": enums, "typeAliases": []}
    packaged = os.path.join(V.REPO, "generator", "lsp.json")
    aliases = [a for a in json.load(open(packaged))["typeAliases"] if a["name"] in ("LSPAny", "LSPObject", "LSPArray")]
    small = {"metaData": meta, "requests": [plain_req], "notifications": [], "structures": structs, "enumerations": enums, "typeAliases": aliases}
    small_ext = dict(small, requests=[plain_req, digit_req], notifications=[digit_not])
    variant, edits = variant_of(json.load(open(packaged)))
    small_variant, small_edits = variant_of(small)
    paths = {}
    for name, doc in (("extension", ext), ("small", small), ("small-ext", small_ext), ("variant", variant), ("small-variant", small_variant)):
        paths[name] = os.path.join(base, name + ".json")
        json.dump(doc, open(paths[name], "w"))
    return {"committed": None, "extended": [packaged, paths["extension"]], "small": [paths["small"]], "small-ext": [paths["small-ext"]],
            "variant": [paths["variant"]], "small-variant": [paths["small-variant"]], "_edits": {"variant": edits, "small-variant": small_edits}}


def variant_of(doc):
    """model B of the process stream: the same definitions under the same names, but a different answer to everything a plugin
    looks up BY NAME: supportsCustomValues of every enumeration that is referenced, optional-ness of the first property of every
    structure that is an extends/mixins base.  -> (document, list of edits)"""
    doc = json.loads(json.dumps(doc))
    refs = set()

    def walk(t):
        if isinstance(t, dict):
            if t.get("kind") == "reference":
                refs.add(t["name"])
            for v in t.values():
                walk(v)
        elif isinstance(t, list):
            for v in t:
                walk(v)
    for k in ("structures", "requests", "notifications", "typeAliases"):
        walk(doc.get(k, []))
    edits = []
    for e in doc.get("enumerations", []):
        if e["name"] in refs:
            e["supportsCustomValues"] = not e.get("supportsCustomValues", False)
            edits.append("enumeration %s: supportsCustomValues := %s" % (e["name"], e["supportsCustomValues"]))
    bases = {x["name"] for st in doc.get("structures", []) for x in st.get("extends", []) + st.get("mixins", []) if x.get("kind") == "reference"}
    for st in doc.get("structures", []):
        if st["name"] in bases and st.get("properties"):
            p = st["properties"][0]
            p["optional"] = not p.get("optional", False)
            edits.append("structure %s: property %s optional := %s" % (st["name"], p["name"], p["optional"]))
    return doc, edits


def gen(plugin, seed, out, model=None):
    env = V.repo_env({"PYTHONHASHSEED": seed})
    env["PYTHONPATH"] = V.REPO
    cmd = [V.PY, "-B", "-m", "generator", "--plugin", plugin, "--output-dir", out, "--test-dir", out + "-tests"]
    if model:
        cmd += ["--model"] + list(model)
    p = subprocess.run(cmd, cwd=V.REPO, env=env, capture_output=True, text=True, timeout=900)
    return p.returncode, (p.stdout + p.stderr)[-1500:]


def combo(plugin, mlist, seed, hist, base, models):
    """run one (plugin, model list, seed, history) in its own directory; returns (tree, leaks, error, tree after the first of two runs)"""
    d = os.path.join(base, "%s-%s-%s-%s" % (plugin, mlist, seed, hist))
    os.makedirs(d, exist_ok=True)
    first = None
    try:
        if hist == "rerun":
            rc, log = gen(plugin, seed, d, models[mlist])
            if rc:
                return None, [], "first run failed: " + log, None
        elif hist == "after-other-model":
            rc, log = gen(plugin, seed, d, models[OTHER[mlist]])
            if rc:
                return None, [], "run on the other model list (%s) failed: %s" % (OTHER[mlist], log), None
            first, _ = tree(d)
        elif hist == "after-stale-files":
            for rel, txt in STALE[plugin]:
                p = os.path.join(d, rel)
                os.makedirs(os.path.dirname(p), exist_ok=True)
                open(p, "w").write(txt)
        rc, log = gen(plugin, seed, d, models[mlist])
        if rc:
            return None, [], "run failed: " + log, None
        t, leaks = tree(d)
        return t, leaks, None, first
    finally:
        shutil.rmtree(d, ignore_errors=True)
        shutil.rmtree(d + "-tests", ignore_errors=True)


VARIANT = {"committed": "variant", "small": "small-variant"}


def process_sequences(tier):
    """[(name, hash seed, [(plugin, model list), ...])]: generations performed in order inside one Python process"""
    seqs = []
    for p, a in (("python", "committed"), ("rust", "committed"), ("dotnet", "committed"), ("testdata", "small")):
        b = VARIANT[a]
        seqs.append(("%s:A,B,A" % p, "1", [(p, a), (p, b), (p, a)]))
        seqs.append(("%s:B,A" % p, "2", [(p, b), (p, a)]))
        # a model with MORE definitions first: nothing of it may survive into the next generation
        seqs.append(("%s:E,A,E" % p, "1", [(p, OTHER[a]), (p, a), (p, OTHER[a])]))
    three = ("python", "rust", "dotnet")
    seqs.append(("interleaved", "3", [(p, "committed") for p in three] + [(p, "variant") for p in three] + [("python", "committed")]))
    if tier == "thorough":
        seqs.append(("testdata-full:A,B,A", "1", [("testdata", "committed"), ("testdata", "variant"), ("testdata", "committed")]))
        seqs.append(("interleaved-reversed", "random", [(p, "variant") for p in reversed(three)] + [(p, "committed") for p in reversed(three)]))
    return seqs


def first_difference(fresh_dir, hist_dir, rel):
    """first differing line of one file"""
    try:
        a = open(os.path.join(fresh_dir, rel), "rb").read().decode("utf-8", "replace").split("\n")
    except OSError:
        a = None
    try:
        b = open(os.path.join(hist_dir, rel), "rb").read().decode("utf-8", "replace").split("\n")
    except OSError:
        b = None
    if a is None or b is None:
        return {"file": rel, "fresh_process": "<file missing>" if a is None else "<present>", "after_history": "<file missing>" if b is None else "<present>"}
    for i in range(max(len(a), len(b))):
        x = a[i] if i < len(a) else "<end of file>"
        y = b[i] if i < len(b) else "<end of file>"
        if x != y:
            return {"file": rel, "line": i + 1, "fresh_process": x[:300], "after_history": y[:300]}
    return {"file": rel, "line": None}


def process_sequence(name, seed, steps, base, models):
    """run `steps` in one process, and each distinct (plugin, model list) in a fresh process; compare the trees.
    -> {"name", "seed", "steps", "compared": n, "bad": [...], "error"}"""
    root = os.path.join(base, "proc-" + re.sub(r"[^A-Za-z0-9]+", "_", name))
    os.makedirs(root, exist_ok=True)
    out = {"name": name, "seed": seed, "steps": [list(x) for x in steps], "compared": 0, "bad": [], "error": None}
    try:
        dirs = [os.path.join(root, "step%d-%s-%s" % (i, p, m)) for i, (p, m) in enumerate(steps)]
        req = {"steps": [{"plugin": p, "models": models[m], "out": d} for (p, m), d in zip(steps, dirs)]}
        env = V.repo_env({"PYTHONHASHSEED": seed})
        env["PYTHONPATH"] = V.REPO
        pr = subprocess.run([V.PY, "-B", os.path.join(V.VERIF, "lib", "c16_inproc.py")], input=json.dumps(req), cwd=V.REPO, env=env,
                            capture_output=True, text=True, timeout=1800)
        try:
            rep = json.loads(pr.stdout.strip().split("\n")[-1])["steps"]
        except (ValueError, IndexError, KeyError):
            out["error"] = "in-process runner failed (rc %d): %s" % (pr.returncode, (pr.stdout + pr.stderr)[-600:])
            return out
        fresh = {}
        for pm in sorted(set(steps)):
            fd = os.path.join(root, "fresh-%s-%s" % pm)
            rc, log = gen(pm[0], seed, fd, models[pm[1]])
            fresh[pm] = (fd, None if rc == 0 else log)
        ftrees = {pm: (tree(fd)[0] if err is None else None) for pm, (fd, err) in fresh.items()}
        for p in sorted({p for p, _ in steps}):
            ms = sorted({m for q, m in steps if q == p})
            if len(ms) > 1 and all(ftrees[(p, m)] is not None for m in ms) and len({json.dumps(ftrees[(p, m)], sort_keys=True) for m in ms}) < len(ms):
                out["bad"].append({"plugin": p, "what": "vacuous sequence: the model lists %s give the same output tree, nothing is tested" % ms})
        for i, ((p, m), d) in enumerate(zip(steps, dirs)):
            here = {"step": i, "plugin": p, "models": m, "earlier_in_process": [list(x) for x in steps[:i]]}
            if fresh[(p, m)][1] is not None:
                out["bad"].append(dict(here, what="generator failed in a fresh process", detail=fresh[(p, m)][1][-400:]))
                continue
            if not rep[i]["ok"]:
                out["bad"].append(dict(here, what="generator failed after earlier generations in the same process (succeeds in a fresh process)", detail=rep[i]["error"]))
                continue
            t, _ = tree(d)
            out["compared"] += 1
            if t != ftrees[(p, m)]:
                df = diff_trees(ftrees[(p, m)], t)
                files = (df["content_differs"] + df["only_in_reference"] + df["only_in_this_run"])[:3]
                out["bad"].append(dict(here, what="output of this generation differs from what a fresh process writes for the same model",
                                       diff=df, first_differences=[first_difference(fresh[(p, m)][0], d, f) for f in files]))
        return out
    except subprocess.TimeoutExpired:
        out["error"] = "timeout"
        return out
    finally:
        shutil.rmtree(root, ignore_errors=True)


def jobs_for(tier, extra_seeds=()):
    """(plugin, model list, seed, history) combinations of a tier"""
    jobs = []
    seeds = SEEDS + list(extra_seeds)
    for p in ("python", "rust", "dotnet"):
        jobs += [(p, "committed", s, h) for s in seeds for h in HISTS]
        jobs += [(p, "extended", s, "fresh") for s in ["1", "2", "3", "random"] + list(extra_seeds)]
        jobs += [(p, "extended", s, "after-other-model") for s in ("1", "2")]
    jobs += [("testdata", "small", s, h) for s in seeds for h in HISTS]
    jobs += [("testdata", "small-ext", s, "fresh") for s in ("1", "2", "3")]
    if tier == "thorough":
        jobs += [("testdata", "committed", s, h) for s in SEEDS for h in HISTS]
        jobs += [("testdata", "extended", s, "fresh") for s in ("1", "2")]
    return jobs


def diff_trees(a, b):
    return {"only_in_reference": sorted(set(a) - set(b))[:10], "only_in_this_run": sorted(set(b) - set(a))[:10],
            "content_differs": sorted(k for k in a if k in b and a[k] != b[k])[:10]}


def run_stream(jobs, workers=10, seqs=()):
    """-> ({(plugin, model list, seed, hist): (tree, leaks, err, first)}, [result of process_sequence], edits of the variant models)"""
    res = {}
    with V.scratch("verif-c16-") as base:
        models = write_models(base)
        # heavy jobs first
        order = sorted(jobs, key=lambda j: (-(j[0] == "testdata" and j[1] in ("committed", "extended")), -(j[0] == "dotnet"), j))
        with cf.ThreadPoolExecutor(workers) as ex:
            heavy = [q for q in seqs if any(p == "testdata" and m in ("committed", "variant") for p, m in q[2])]
            sfuts = [(q, ex.submit(process_sequence, q[0], q[1], q[2], base, models)) for q in heavy + [q for q in seqs if q not in heavy]]
            futs = {j: ex.submit(combo, j[0], j[1], j[2], j[3], base, models) for j in order}
            for j in jobs:
                res[j] = futs[j].result()
            done = {q[0]: f.result() for q, f in sfuts}
        pres = [done[q[0]] for q in seqs]
    return res, pres, models["_edits"]


def judge(res):
    """failing combinations against the reference tree of their (plugin, model list): seed 1, fresh directory"""
    bad = []
    groups = {}
    for (p, m, s, h), r in res.items():
        groups.setdefault((p, m), []).append(((s, h), r))
    for (p, m), rows in groups.items():
        ref = next((r[0] for (s, h), r in rows if r[0] is not None and (s, h) == ("1", "fresh")), None) or \
            next((r[0] for (s, h), r in rows if r[0] is not None), None)
        for (s, h), (t, leaks, err, first) in rows:
            here = {"plugin": p, "models": m, "seed": s, "history": h}
            if err:
                bad.append(dict(here, what="generator failed", detail=err[-600:]))
            elif h == "after-other-model" and first == ref:
                bad.append(dict(here, what="vacuous history: the other model list produces the reference tree, nothing is tested"))
            elif t != ref:
                bad.append(dict(here, what="output tree differs from the reference run (seed 1, fresh directory, same model list)", diff=diff_trees(ref, t)))
            elif leaks:
                bad.append(dict(here, what="uuid-shaped string in the output", files=leaks[:5]))
    return bad


def run(chk):
    chk.trusted = V.STD_TRUSTED + [
        "translator lib/x_emit.py: syntactic consumer classification of every set / random id / directory listing in generator/plugins and generator/*.py "
        "(not a proof that the expression is an instance of its class)",
        "translator lib/emit_modstate.py: which module-level names / class attributes / default values / functools caches of generator/ exist, which of them "
        "hold a possibly mutable value, and whether any function body can rebind or mutate them (directly, through `global`, through a module alias, "
        "through a local alias, a parameter, a loop variable or an element); fail-closed: an escape it cannot follow is reported as SModState. Loggers, "
        "compiled patterns and paths count as immutable handles; state inside library modules and setattr/globals() tricks outside functions are not "
        "analysed (the process stream is the check for those)",
        "the abstract pipeline LSP.Emit (TypeData as insertion-ordered association list, set consumers, directory as a function, a process as a fold of "
        "generations over the module state, functools caches as association tables) — tied to the generator only by x_emit and the two streams",
        "CPython dicts iterate in insertion order; sorted() is a function of the multiset of its elements under a total order; arguments of a cached "
        "function that compare equal are interchangeable for it",
    ]
    chk.assumptions = ["LABEL partial: theorems are about the abstract pipeline; the instance link is syntactic + differential",
                       "the owned part of a directory is what matches the plugin's cleanup pattern or its fixed file names",
                       "module state = what hangs off the module objects of generator/ (names, class attributes, defaults, functools caches); a name bound to a "
                       "mutable value that no function changes is constant after import (import-time code may build it freely)"]
    gen_v = os.path.join(V.GEN, "EmitData.v")
    gen_j = os.path.join(V.GEN, "emit.json")
    broken = []
    info = None
    with V.build_lock():
        p = V.run_py("x_emit.py", [gen_v, gen_j])
        chk.obligation("translate:x_emit", p.returncode == 0, (p.stdout + p.stderr)[-400:])
        if p.returncode == 0:
            info = json.load(open(gen_j))
            prop = V.stage_prop("C16")
            ok, res = V.compile_chain([gen_v, prop], timeout=300)
            names = V.theorems_in(prop)
            out = res[-1][1].text
            if ok:
                for n in names:
                    chk.obligation(n, True)
                chk.assumptions.append("Print Assumptions (C16.v): %d x 'Closed under the global context', axioms: %s"
                                       % (out.count("Closed under the global context"), V.parse_assumptions(out).get("axioms", [])))
            else:
                m = re.search(r'line (\d+)', out)
                bad = None
                if m and len(res) > 1:
                    src = open(prop).read().split("\n")
                    for i in range(min(int(m.group(1)), len(src)) - 1, -1, -1):
                        mm = re.match(r"\s*(?:Theorem|Lemma)\s+([A-Za-z0-9_']+)", src[i])
                        if mm:
                            bad = mm.group(1)
                            break
                reached = True
                for n in names:
                    if n == bad:
                        reached = False
                    chk.obligation(n, reached and n != bad, "" if reached and n != bad else ("coqc failed here" if n == bad else "not reached"))
                exposed = [s for s in info["sites"] if s["class"] in ("SExposed", "SModState")]
                notown = [pl for pl in info["plugins"] if not ((pl["cleanup_first"] or pl["fixed_names"]) and pl["writes_owned"])]
                broken.append(("proof", bad or "C16.v", {"exposed_sites": [x for x in exposed if x["class"] == "SExposed"],
                                                          "module_state_changed_by_a_function": [x for x in exposed if x["class"] == "SModState"],
                                                          "plugins_without_cleanup_or_fixed_names": notown, "coq": out[-400:]}))
        else:
            broken.append(("translator", "x_emit", (p.stdout + p.stderr)[-800:]))
    if info:
        chk.extra["site_classes"] = {k: sum(1 for s in info["sites"] if s["class"] == k) for k in sorted({s["class"] for s in info["sites"]})}
        chk.extra["plugins"] = [{k: pl[k] for k in ("name", "cleanup_first", "fixed_names", "writes_owned", "patterns", "written")} for pl in info["plugins"]]
        chk.extra["module_state"] = {"sites": [{k: x[k] for k in ("file", "line", "what", "kind", "class")} for x in info["sites"] if x["kind"] in ("modstate", "memo", "default")],
                                     "immutable_names_never_rebound": info.get("modstate", {}).get("immutable_module_names"),
                                     "modules": len(info.get("modstate", {}).get("modules", []))}

    jobs = jobs_for(chk.tier, ["4", "5"] if broken else [])      # an obligation broke: look harder for a real difference
    seqs = process_sequences(chk.tier)
    res, pres, edits = run_stream(jobs, workers=10 if chk.tier == "quick" else 6, seqs=seqs)
    for j, (t, leaks, err, _first) in res.items():
        chk.count(j, nontrivial=t is not None)
    bad = judge(res)
    ntrees = sum(1 for r in res.values() if r[0] is not None)
    chk.obligation("history-stream:real-plugins-byte-identical", not bad,
                   "%d runs-with-history (%s), %d differing" % (ntrees, ", ".join("%s/%s: %d" % (p, m, sum(1 for j in jobs if j[:2] == (p, m)))
                                                                                 for p, m in sorted({j[:2] for j in jobs})), len(bad)))
    pbad = []
    for r in pres:
        for i in range(len(r["steps"])):
            chk.count(("process", r["name"], i), nontrivial=r["error"] is None)
        if r["error"]:
            pbad.append({"sequence": r["name"], "seed": r["seed"], "steps": r["steps"], "what": r["error"]})
        pbad += [dict(b, sequence=r["name"], seed=r["seed"], steps=r["steps"]) for b in r["bad"]]
    ncomp = sum(r["compared"] for r in pres)
    chk.obligation("process-stream:nth-generation-equals-fresh-process", not pbad,
                   "%d generations inside %d processes (%s) compared with fresh-process output, %d differing; model B = %d edits (%s, ...)"
                   % (ncomp, len(pres), ", ".join(r["name"] for r in pres), len(pbad), len(edits["variant"]), "; ".join(edits["variant"][:2])))
    for j in [("dotnet", "committed", "2", "after-other-model"), ("python", "extended", "3", "fresh"), ("testdata", "small", "random", "after-other-model")]:
        if j in res and res[j][0] is not None:
            chk.sample({"plugin": j[0], "models": j[1], "seed": j[2], "history": j[3], "files": len(res[j][0]),
                        "tree_digest": hashlib.sha1(json.dumps(res[j][0], sort_keys=True).encode()).hexdigest()[:12]})
    for r in pres[:1] + pres[-1:]:
        chk.sample({"process_sequence": r["name"], "seed": r["seed"], "steps": r["steps"], "generations_compared_with_fresh_process": r["compared"]})
    chk.extra["traces_validated_against_impl"] = ntrees + ncomp
    chk.extra["process_stream"] = {"sequences": [{"name": r["name"], "seed": r["seed"], "steps": r["steps"], "compared": r["compared"]} for r in pres],
                                   "variant_edits": {k: len(v) for k, v in edits.items()}, "variant_edits_sample": edits["variant"][:5] + edits["small-variant"][:2]}
    seeds = sorted({j[2] for j in jobs})

    how = "./check C16 --replay <this file>"
    if bad:
        b = bad[0]
        chk.violation({"property": "C16", "kind": "history", "input": {"plugin": b["plugin"], "models": b["models"], "seed": b["seed"], "history": b["history"]},
                       "expected": "byte-identical output tree for every hash seed and run history", "observed_impl": b,
                       "all_differing": [(x["plugin"], x["models"], x["seed"], x["history"]) for x in bad][:20], "broken": [x[:2] for x in broken], "how_to_replay": how})
    if pbad:
        b = pbad[0]
        chk.violation({"property": "C16", "kind": "process-history",
                       "input": {"sequence": b["sequence"], "seed": b["seed"], "steps": b["steps"],
                                 "model_A": "committed = generator/lsp.json; small = the standalone model of lib/props/c16.py write_models",
                                 "model_B": "variant_of(A) in lib/props/c16.py: " + "; ".join(edits["variant" if "committed" in str(b["steps"]) else "small-variant"][:4]) + "; ..."},
                       "expected": "each generation of the sequence, performed in ONE Python process through generator.__main__.main, writes the tree a fresh process writes for the same model",
                       "observed_impl": b, "all_differing": [(x["sequence"], x.get("step"), x.get("plugin"), x.get("models")) for x in pbad][:20],
                       "broken": [x[:2] for x in broken], "how_to_replay": how})
    if broken and not bad and not pbad:
        chk.violation({"property": "C16", "kind": "obligation no longer checks", "broken": [{"what": a, "name": b, "detail": c} for a, b, c in broken],
                       "searched": "%d real plugin runs over seeds %s and histories %s: all output trees byte-identical; %d generations inside %d multi-generation "
                                   "processes: all equal to fresh-process output" % (ntrees, seeds, HISTS, ncomp, len(pres))},
                      no_input=True)


def replay(path):
    r = json.load(open(path))
    inp = r.get("input")
    if not inp:
        print("no concrete input recorded:", json.dumps(r.get("broken"))[:2000])
        return 1
    if r.get("kind") == "process-history":
        _, pres, _ = run_stream([], workers=2, seqs=[(inp["sequence"], inp["seed"], [tuple(x) for x in inp["steps"]])])
        if pres[0]["error"] or pres[0]["bad"]:
            print("still fails:", json.dumps(pres[0]["bad"][0] if pres[0]["bad"] else pres[0]["error"])[:1500])
            return 1
        print("no longer fails")
        return 0
    m = inp.get("models", "committed")
    res, _, _ = run_stream(sorted({(inp["plugin"], m, "1", "fresh"), (inp["plugin"], m, inp["seed"], inp["history"])}), workers=2)
    bad = judge(res)
    if bad:
        print("still fails:", json.dumps(bad[0])[:1500])
        return 1
    print("no longer fails")
    return 0
