"""C16 — generation is a deterministic function of the model files alone.                      LEVEL: partial

proof:   coq/Emit.v (generic, about the ABSTRACT emission pipeline: emit_id_invariant, emit_perm_invariant, key_sorted_perm_invariant
         / key_sorted_ties_exposed, glob_delete_invariant, glob_write_invariant, run_history_independent, run_preserves_foreign — all
         id assignments, iteration orders, prior directory states; view_state/const_state/memo_history_independent — all earlier
         generations of the same process), instantiated at strings in coq/props/C16.v together with the instance obligations
         `no_module_state` / `sites_covered` / `plugins_owned` computed on the site table that lib/x_emit.py extracts from
         the current generator (plugins, model.py, __main__.py).
tie:     x_emit (syntactic classification of every set / random id / directory listing by its consumer — a keyed sort of a set counts
         as sorted only for a syntactically injective key — and, via lib/emit_modstate.py, of every module-level name, class attribute,
         default value and functools cache by whether any function can change it; ownership: effects of the exported generate function
         followed through the helper functions of the plugin package in order of effects) + two streams on the REAL generator:
         history stream: model lists {committed lsp.json; [lsp.json, extension.json] with keyword-named properties and digit-named
         messages; EVOLVED lists that stress order dependence: [lsp.json, collide.json] (methods, structures, properties, enumeration
         members whose derived names coincide or tie under plausible sort keys) and one evolved metamodel with ~100 additional
         declarations (lib/evolve.py); for testdata a small standalone model, its extension and its colliding extension}
         x {PYTHONHASHSEED 1, 2, 3, a fresh random number per run}
         x {fresh directory, re-run into the same directory, run after the other model list in the same directory, run after
         hand-placed stale files matching the plugin's owned pattern, run after a complete earlier output was DAMAGED in place
         (files under generated names truncated / edited to the same length / emptied / extended), run after hand-placed files the
         plugin does not own}, byte comparison of whole output trees, plus a scan of the output for uuid-shaped strings;
         for every plugin the stale-file history is repeated in OUTPUT DIRECTORIES WHOSE NAMES CONTAIN GLOB METACHARACTERS
         (`packages[net8]`, `a*b`, `q?x`, `out[1]/generated`; "history@kind", see DIRNAMES) and the earlier-different-model history in
         `packages[net8]`: a cleanup that treats the directory part of its pattern as a pattern (glob.glob(os.path.join(dir, PAT)),
         fnmatch on full paths, a shell) removes nothing there — x_emit does not accept such a loop as a cleanup either;
         a failing history is re-run, reduced to one planted file when possible, and recorded with the name of the output directory,
         file name, planted content, what stands under the planted name after the run and the first differing line;
         process stream: several generations inside ONE Python process (lib/c16_inproc.py, entry point generator.__main__.main)
         — model A, then model B = A with every referenced enumeration's supportsCustomValues flipped and the first property
         of every extends/mixins base structure made optional/required (same names, different answers to every by-name
         lookup), then A again; B then A; the extended model list E (more definitions), then A, then E; and all plugins interleaved
         in one process — each output tree compared with the
         tree a fresh process writes for the same model.
partial: that each Python expression is an instance of its abstract class is not proved.
"""
import concurrent.futures as cf
import hashlib
import json
import os
import random
import re
import shutil
import subprocess

import vcommon as V

LEVEL = "proof"      # evidence level category; the claim itself is labelled PARTIAL in MANIFEST level text
RULE = ("history stream: per plugin and model list — python/rust/dotnet on the committed lsp.json, on the EXTENDED list [lsp.json, extension.json] "
        "(extension: 5 structures with Python-keyword properties, a request/notification whose names contain digits, an enumeration), on the "
        "COLLIDING list [lsp.json, collide.json] (requests / notifications whose method-constant, snake-case, lower-case or last-segment names "
        "coincide with each other or with a committed method; structures, properties and enumeration members whose names differ only in case or "
        "separators) and on one evolved metamodel with ~100 additional declarations (lib/evolve.py: fam_core + reference families); "
        "testdata on a small standalone model, its digit-named extension and its colliding extension (quick) and on the full lists (thorough) — "
        "PYTHONHASHSEED in {1, 2, 3, a random number drawn per run and recorded} x run history in {fresh directory, re-run into the same "
        "directory, run after the OTHER model list in the same directory, run after hand-placed stale files matching the owned pattern, run "
        "after a complete earlier output was damaged in place (up to four generated files: truncated to half, one byte changed at the same "
        "length, emptied, extended), run after hand-placed files the plugin does not own (these are left out of the comparison; whether they "
        "survive is recorded)}; per plugin additionally the stale-file history in output directories named `packages[net8]`, `a*b`, `q?x` and "
        "`out[1]/generated` and the after-the-other-model-list history in `packages[net8]` (names with glob metacharacters; written `history@kind`; "
        "a kind the file system refuses is skipped and recorded); "
        "the whole output tree (path -> sha256) must equal the reference tree of that (plugin, model list); a failing "
        "combination is re-run next to the reference and reduced to one planted file when that still fails; "
        "distinct = distinct (plugin, model list, seed, history). "
        "process stream: per plugin (python/rust/dotnet on lsp.json, testdata on the small model; thorough: testdata on lsp.json too) the "
        "generation sequences [A, B, A], [B, A] and [E, A, E] (E = the extended model list, which has more definitions) inside one Python process, and one process running all plugins interleaved "
        "[p1 A, p2 A, p3 A, p1 B, p2 B, p3 B, p1 A]; B = A with the supportsCustomValues flag of every referenced enumeration flipped and the "
        "optional flag of the first property of every extends/mixins base flipped (nothing renamed); every step's output tree must equal the "
        "tree written by a fresh process for the same (plugin, model), and fresh A and fresh B must differ (non-vacuity); "
        "distinct = distinct (sequence, step)")
FIXED_SEEDS = ["1", "2"]
HISTS = ["fresh", "rerun", "after-other-model", "after-stale-files", "after-damaged-output", "after-foreign-files"]
PLANTED = ("after-stale-files", "after-damaged-output", "after-foreign-files")
OTHER = {"committed": "extended", "extended": "committed", "small": "small-ext", "small-ext": "small"}
UUID_RE = re.compile(rb"[0-9a-f]{8}-[0-9a-f]{4}-[1-5][0-9a-f]{3}-[89ab][0-9a-f]{3}-[0-9a-f]{12}")
Z64 = "0" * 64
# previous contents of the output directory, planted by hand before the run.
# role "owned-name": a name the plugin generates, with other bytes; "owned-pattern": matches what the plugin cleans, but is not
# generated for this model; "foreign": neither — must not influence the owned output
STALE = {"python": [("lsprotocol/types.py", "owned-name", "# stale content from an earlier model\nclass Stale: ...\n")],
         "rust": [("lsprotocol/src/lib.rs", "owned-name", "// stale\npub struct Stale;\n")],
         "dotnet": [("lsprotocol/Stale.cs", "owned-pattern", "// stale\nclass Stale {}\n"), ("lsprotocol/ZzzOld2.cs", "owned-pattern", "// stale\n"),
                    ("lsprotocol/Position.cs", "owned-name", "// an older Position\nclass Position {}\n")],
         "testdata": [("StaleRequest-True-%s.json" % Z64, "owned-pattern", "{}\n"), ("Stale2ThingNotification-False-%s.json" % Z64, "owned-pattern", "{}\n")]}
FOREIGN = {"python": [("lsprotocol/_hooks.py", "# hand written, not generated\n"), ("lsprotocol/py.typed", ""), ("notes.txt", "keep me\n")],
           "rust": [("lsprotocol/Cargo.toml", "[package]\nname = \"hand-written\"\n"), ("lsprotocol/src/extra.rs", "// hand written\n"), ("notes.txt", "keep me\n")],
           "dotnet": [("lsprotocol/lsprotocol.csproj", "<Project Sdk=\"Microsoft.NET.Sdk\" />\n"), ("lsprotocol/Position.cs.orig", "// backup\n"), ("notes.txt", "keep me\n")],
           "testdata": [("notes.txt", "keep me\n"), ("README.md", "# hand written\n"), ("index.jsonl", "{}\n")]}
DAMAGES = ["truncated", "same-length-edit", "emptied", "extended"]
# names of the OUTPUT DIRECTORY that contain glob metacharacters: a history "<history>@<kind>" is <history> performed in a directory of
# that name (created below the job's scratch directory).  pathlib's <dir>.glob(PAT) takes the directory literally; glob.glob(join(dir,
# PAT)), fnmatch on the full path, a shell `rm dir/*.cs` treat the directory part as a pattern too — then `packages[net8]` matches only
# `packagesn`, `packagese`, ... and the cleanup of the real directory removes nothing.  "ancestor": the metacharacter stands in a
# parent of the output directory.
DIRNAMES = {"brackets": "packages[net8]", "star": "a*b", "question": "q?x", "ancestor": os.path.join("out[1]", "generated")}


def split_hist(h):
    """'after-stale-files@brackets' -> ('after-stale-files', 'brackets'); 'rerun' -> ('rerun', None)"""
    a, _, k = h.partition("@")
    return a, (k or None)


def meta_histories(rnd):
    """(hash seed, history) run for every plugin in an output directory whose name contains glob metacharacters: hand-placed stale
    files under every kind of name, and the files of an earlier, different model under the bracket name"""
    return [("1", "after-stale-files@brackets"), ("2", "after-stale-files@star"), (rnd, "after-stale-files@question"),
            ("2", "after-stale-files@ancestor"), ("1", "after-other-model@brackets")]


def damage(kind, b):
    """what an interrupted run / an editor leaves behind under a generated name"""
    if kind == "truncated":
        return b[:len(b) // 2]
    if kind == "same-length-edit":
        m = len(b) // 2
        return (b[:m] + (b"#" if b[m:m + 1] != b"#" else b"%") + b[m + 1:]) if b else b"#"
    if kind == "emptied":
        return b""
    if kind == "extended":
        return b + b"\n// tail left behind by an earlier run\n"
    raise ValueError(kind)


def tree(d):
    out = {}
    leaks = []
    for root, _, files in os.walk(d):
        for f in files:
            p = os.path.join(root, f)
            b = open(p, "rb").read()
            out[os.path.relpath(p, d)] = hashlib.sha256(b).hexdigest()
            if f.endswith((".py", ".rs", ".cs")) and UUID_RE.search(b):
                leaks.append(os.path.relpath(p, d))
    return out, leaks


def _ref(n):
    return {"kind": "reference", "name": n}


def _base(n):
    return {"kind": "base", "name": n}


def collide_extension(params):
    """an extension model whose declarations stress every place where the generator orders or de-duplicates by a DERIVED name:
    methods with the same method constant (snake case, upper case: `workspaceSymbol/resolve` ~ `workspace/symbol/resolve`), the same
    lower-case form, the same last segment, the same length; structures / properties / enumeration members that differ only in case
    or separators.  Every declaration keeps a distinct typeName / name, so the committed generator accepts the list."""
    reqs, nots = [], []
    result = {"kind": "or", "items": [_ref(params), _base("null")]}
    for method, tn in (("workspace/symbol/resolve", "ZzWorkspaceSymbolTreeResolveRequest"), ("workspace_symbol/resolve", "ZzWorkspaceSymbolSnakeResolveRequest"),
                       ("zz/fooBar", "ZzFooBarCamelRequest"), ("zz/foo_bar", "ZzFooBarSnakeRequest"), ("zz/foo/bar", "ZzFooBarPathRequest"),
                       ("zzFoo/bar", "ZzFooBarHeadRequest"), ("zz/foobar", "ZzFoobarLowerRequest"), ("zz/FooBar", "ZzFooBarPascalRequest"),
                       ("textDocument/will_save_wait_until", "ZzWillSaveWaitUntilSnakeRequest")):
        reqs.append({"method": method, "typeName": tn, "messageDirection": "clientToServer", "params": _ref(params), "result": result})
    for method, tn in (("progress", "ZzBareProgressNotification"), ("/progress", "ZzSlashProgressNotification"), ("zz/didThing", "ZzDidThingCamelNotification"),
                       ("zz/did_thing", "ZzDidThingSnakeNotification"), ("zz/did/thing", "ZzDidThingPathNotification"), ("zz/resolve", "ZzResolveNotification"),
                       ("text_document/did_open", "ZzDidOpenSnakeNotification")):
        nots.append({"method": method, "typeName": tn, "messageDirection": "both", "params": _ref(params)})
    props = [{"name": "fooBar", "type": _base("string")}, {"name": "foo_bar", "type": _base("integer"), "optional": True},
             {"name": "FooBar", "type": _base("boolean"), "optional": True}, {"name": "kind", "type": _ref("ZzCollideKind"), "optional": True}]
    structs = [{"name": n, "properties": props} for n in ("ZzCollideItem", "ZzCollideitem", "ZzCOLLIDEItem", "ZzHTTPServer", "ZzHttpServer", "ZzAb", "ZzBa")]
    enums = [{"name": "ZzCollideKind", "type": _base("string"), "values": [{"name": n, "value": n} for n in ("alpha", "Alpha", "ALPHA", "betaGamma", "beta_gamma")]},
             {"name": "ZzCollidekind", "type": _base("uinteger"), "values": [{"name": "One", "value": 1}, {"name": "one", "value": 2}]}]
    return {"metaData": {"version": "3.17.0"}, "requests": reqs, "notifications": nots, "structures": structs, "enumerations": enums, "typeAliases": []}


def many_declarations(doc):
    """one evolved metamodel without duplicates but with many new declarations: the combined C06 families of lib/evolve.py
    (messages, keyword properties, inheritance with re-declaration, enumerations) plus one structure per (target, context)"""
    import evolve
    m = evolve.fam_core(doc)
    targets = [("struct", n) for n in ("Position", "Range", "Command", "TextEdit", "Location", "MarkupContent")] + \
              [("base", b) for b in ("string", "integer", "uinteger", "decimal", "boolean", "DocumentUri", "URI")]
    return evolve.fam_refs(m, targets, "S")


def write_models(base, documents=None):
    """model files used by the stream -> {model list name: [paths] or None for the packaged default}.
    `documents` (from a replay file): {name: document} written instead of the documents computed here"""
    kw = ["from", "import", "class", "global", "lambda"]
    structs = [{"name": "ZzKeyword%sHolder" % k.capitalize(), "documentation": "Extension structure with a Python keyword property.",
                "properties": [{"name": k, "type": _base("string")}, {"name": "other", "type": _base("integer"), "optional": True}]} for k in kw]
    structs += [{"name": "ZzUtf8StatusParams", "properties": [{"name": "uri", "type": _base("DocumentUri")}, {"name": "level", "type": _ref("ZzStatusLevel"), "optional": True}]},
                {"name": "ZzUtf8Status", "properties": [{"name": "ok", "type": _base("boolean")}, {"name": "holder", "type": _ref("ZzKeywordFromHolder"), "optional": True}]},
                {"name": "ZzV2ThingParams", "properties": [{"name": "things", "type": {"kind": "array", "element": _base("string")}}]}]
    enums = [{"name": "ZzStatusLevel", "type": _base("uinteger"), "values": [{"name": "Low", "value": 1}, {"name": "High", "value": 2}]}]
    result = {"kind": "or", "items": [_ref("ZzUtf8Status"), _base("null")]}
    digit_req = {"method": "workspace/utf8Status", "typeName": "WorkspaceUtf8StatusRequest", "messageDirection": "clientToServer", "params": _ref("ZzUtf8StatusParams"), "result": result}
    digit_not = {"method": "zz/v2Thing", "typeName": "ZzV2ThingNotification", "messageDirection": "both", "params": _ref("ZzV2ThingParams")}
    plain_req = {"method": "zz/plainStatus", "typeName": "ZzPlainStatusRequest", "messageDirection": "clientToServer", "params": _ref("ZzUtf8StatusParams"), "result": result}
    meta = {"version": "3.17.0"}
    ext = {"metaData": meta, "requests": [digit_req], "notifications": [digit_not], "structures": structs, "enumerations": enums, "typeAliases": []}
    packaged = os.path.join(V.REPO, "generator", "lsp.json")
    committed = json.load(open(packaged))
    aliases = [a for a in committed["typeAliases"] if a["name"] in ("LSPAny", "LSPObject", "LSPArray")]
    small = {"metaData": meta, "requests": [plain_req], "notifications": [], "structures": structs, "enumerations": enums, "typeAliases": aliases}
    small_ext = dict(small, requests=[plain_req, digit_req], notifications=[digit_not])
    variant, edits = variant_of(committed)
    small_variant, small_edits = variant_of(small)
    docs = {"extension": ext, "small": small, "small-ext": small_ext, "variant": variant, "small-variant": small_variant,
            "collide": collide_extension("WorkspaceSymbol"), "small-collide": collide_extension("ZzUtf8StatusParams"), "many": many_declarations(committed)}
    docs.update(documents or {})
    paths = {}
    for name, doc in docs.items():
        paths[name] = os.path.join(base, name + ".json")
        json.dump(doc, open(paths[name], "w"))
    lists = {"committed": None, "extended": [packaged, paths["extension"]], "small": [paths["small"]], "small-ext": [paths["small-ext"]],
             "variant": [paths["variant"]], "small-variant": [paths["small-variant"]],
             "collide": [packaged, paths["collide"]], "small-collide": [paths["small"], paths["small-collide"]], "many": [paths["many"]]}
    # what a replay file says about a model list: the committed file by name, every small document in full
    describe = {}
    for name, files in lists.items():
        describe[name] = ["generator/lsp.json (committed)"] if files is None else \
            ["generator/lsp.json (committed)" if f == packaged else
             ({"file": os.path.basename(f), "document": docs[os.path.basename(f)[:-5]]} if os.path.getsize(f) < 40000 else
              {"file": os.path.basename(f), "document": "computed by lib/props/c16.py write_models (%d bytes)" % os.path.getsize(f)}) for f in files]
    lists["_edits"] = {"variant": edits, "small-variant": small_edits}
    lists["_describe"] = describe
    return lists


def variant_of(doc):
    """model B of the process stream: the same definitions under the same names, but a different answer to everything a plugin
    looks up BY NAME: supportsCustomValues of every enumeration that is referenced, optional-ness of the first property of every
    structure that is an extends/mixins base.  -> (document, list of edits)"""
    doc = json.loads(json.dumps(doc))
    refs = set()

    def walk(t):
        if isinstance(t, dict):
            if t.get("kind") == "reference":
                refs.add(t["name"])
            for v in t.values():
                walk(v)
        elif isinstance(t, list):
            for v in t:
                walk(v)
    for k in ("structures", "requests", "notifications", "typeAliases"):
        walk(doc.get(k, []))
    edits = []
    for e in doc.get("enumerations", []):
        if e["name"] in refs:
            e["supportsCustomValues"] = not e.get("supportsCustomValues", False)
            edits.append("enumeration %s: supportsCustomValues := %s" % (e["name"], e["supportsCustomValues"]))
    bases = {x["name"] for st in doc.get("structures", []) for x in st.get("extends", []) + st.get("mixins", []) if x.get("kind") == "reference"}
    for st in doc.get("structures", []):
        if st["name"] in bases and st.get("properties"):
            p = st["properties"][0]
            p["optional"] = not p.get("optional", False)
            edits.append("structure %s: property %s optional := %s" % (st["name"], p["name"], p["optional"]))
    return doc, edits


def gen(plugin, seed, out, model=None):
    env = V.repo_env({"PYTHONHASHSEED": seed})
    env["PYTHONPATH"] = V.REPO
    cmd = [V.PY, "-B", "-m", "generator", "--plugin", plugin, "--output-dir", out, "--test-dir", out + "-tests"]
    if model:
        cmd += ["--model"] + list(model)
    p = subprocess.run(cmd, cwd=V.REPO, env=env, capture_output=True, text=True, timeout=900)
    return p.returncode, (p.stdout + p.stderr)[-1500:]


def _show(b, limit=1500):
    """bytes -> what the replay file says about them"""
    t = b.decode("utf-8", "replace")
    return {"bytes": len(b), "sha256": hashlib.sha256(b).hexdigest(), "text": t if len(t) <= limit else t[:limit] + "... <%d more characters>" % (len(t) - limit)}


def damage_plan(files, rot):
    """which generated files to damage and how: up to four files spread over the sorted names, damage kinds rotated by `rot`"""
    files = sorted(files)
    n = min(len(DAMAGES), len(files))
    idx = sorted({(i * (len(files) - 1)) // max(1, n - 1) for i in range(n)}) if files else []
    return [{"path": files[j], "role": "owned-name", "damage": DAMAGES[(k + rot) % len(DAMAGES)]} for k, j in enumerate(idx)]


def default_plan(plugin, hist):
    if hist == "after-stale-files":
        return [{"path": rel, "role": role, "content": txt} for rel, role, txt in STALE[plugin]]
    if hist == "after-foreign-files":
        return [{"path": rel, "role": "foreign", "content": txt} for rel, txt in FOREIGN[plugin]]
    return None


def combo(plugin, mlist, seed, hist, base, models, plan=None, keep=False, tag=""):
    """run one (plugin, model list, seed, history) in its own directory.
    plan: what to plant before the judged run — [{"path", "role", "content"}] (hand-placed files) or, for after-damaged-output,
    [{"path", "damage"}] applied to the output of a first run (default: damage_plan over that output).
    -> {"tree", "leaks", "error", "first": tree after the first of two runs, "planted": the concrete directory state before the judged
        run (name, role, bytes), "after": what stands under each planted name after the run, "dir" (keep=True)}"""
    hist, dk = split_hist(hist)
    top = os.path.join(base, "%s-%s-%s-%s%s%s" % (plugin, mlist, seed, hist, "-in-" + dk if dk else "", tag))
    d = os.path.join(top, DIRNAMES[dk]) if dk else top
    r = {"tree": None, "leaks": [], "error": None, "first": None, "planted": [], "after": [], "dir": d if keep else None, "top": top if keep else None,
         "output_directory": DIRNAMES[dk] if dk else None, "skipped": None}
    try:
        os.makedirs(d, exist_ok=True)
    except OSError as e:
        # a file system that does not allow the character in a name: nothing to test there (recorded, not a failure)
        r["skipped"] = "cannot create a directory named %r here: %s" % (DIRNAMES.get(dk), e)
        shutil.rmtree(top, ignore_errors=True)
        return r
    try:
        if hist == "rerun":
            rc, log = gen(plugin, seed, d, models[mlist])
            if rc:
                r["error"] = "first run failed: " + log
                return r
        elif hist == "after-other-model":
            rc, log = gen(plugin, seed, d, models[OTHER[mlist]])
            if rc:
                r["error"] = "run on the other model list (%s) failed: %s" % (OTHER[mlist], log)
                return r
            r["first"], _ = tree(d)
        elif hist == "after-damaged-output":
            rc, log = gen(plugin, seed, d, models[mlist])
            if rc:
                r["error"] = "first run failed: " + log
                return r
            first, _ = tree(d)
            r["first"] = first
            if plan is None:
                plan = damage_plan(first, int(seed) % len(DAMAGES) if seed.isdigit() else 0)
            for it in plan:
                fp = os.path.join(d, it["path"])
                try:
                    old = open(fp, "rb").read()
                except OSError:
                    old = b""
                newb = damage(it["damage"], old)
                os.makedirs(os.path.dirname(fp), exist_ok=True)
                open(fp, "wb").write(newb)
                r["planted"].append(dict(it, role="owned-name", how="what the first run wrote under this name (%d bytes, sha256 %s), then %s" % (len(old), hashlib.sha256(old).hexdigest()[:16], it["damage"]),
                                         planted=_show(newb), _sha=hashlib.sha256(newb).hexdigest()))
        if hist in ("after-stale-files", "after-foreign-files"):
            plan = default_plan(plugin, hist) if plan is None else plan
            for it in plan:
                fp = os.path.join(d, it["path"])
                os.makedirs(os.path.dirname(fp), exist_ok=True)
                newb = it["content"].encode("utf-8")
                open(fp, "wb").write(newb)
                r["planted"].append(dict(it, how="written by hand before the run", planted=_show(newb, 300), _sha=hashlib.sha256(newb).hexdigest()))
        rc, log = gen(plugin, seed, d, models[mlist])
        if rc:
            r["error"] = "run failed: " + log
            return r
        r["tree"], r["leaks"] = tree(d)
        for it in r["planted"]:
            try:
                nb = open(os.path.join(d, it["path"]), "rb").read()
                r["after"].append({"path": it["path"], "role": it["role"], "after_run": "still the planted bytes" if hashlib.sha256(nb).hexdigest() == it["_sha"] else "rewritten",
                                   "bytes": len(nb), "sha256": hashlib.sha256(nb).hexdigest()})
            except OSError:
                r["after"].append({"path": it["path"], "role": it["role"], "after_run": "removed"})
        return r
    finally:
        shutil.rmtree(d + "-tests", ignore_errors=True)
        if not keep:
            shutil.rmtree(top, ignore_errors=True)


VARIANT = {"committed": "variant", "small": "small-variant"}


def process_sequences(tier):
    """[(name, hash seed, [(plugin, model list), ...])]: generations performed in order inside one Python process"""
    seqs = []
    for p, a in (("python", "committed"), ("rust", "committed"), ("dotnet", "committed"), ("testdata", "small")):
        b = VARIANT[a]
        seqs.append(("%s:A,B,A" % p, "1", [(p, a), (p, b), (p, a)]))
        seqs.append(("%s:B,A" % p, "2", [(p, b), (p, a)]))
        # a model with MORE definitions first: nothing of it may survive into the next generation
        seqs.append(("%s:E,A,E" % p, "1", [(p, OTHER[a]), (p, a), (p, OTHER[a])]))
    three = ("python", "rust", "dotnet")
    seqs.append(("interleaved", "3", [(p, "committed") for p in three] + [(p, "variant") for p in three] + [("python", "committed")]))
    if tier == "thorough":
        seqs.append(("testdata-full:A,B,A", "1", [("testdata", "committed"), ("testdata", "variant"), ("testdata", "committed")]))
        seqs.append(("interleaved-reversed", "random", [(p, "variant") for p in reversed(three)] + [(p, "committed") for p in reversed(three)]))
    return seqs


def first_difference(fresh_dir, hist_dir, rel, labels=("fresh_process", "after_history")):
    """first differing line of one file"""
    la, lb = labels
    try:
        a = open(os.path.join(fresh_dir, rel), "rb").read().decode("utf-8", "replace").split("\n")
    except OSError:
        a = None
    try:
        b = open(os.path.join(hist_dir, rel), "rb").read().decode("utf-8", "replace").split("\n")
    except OSError:
        b = None
    if a is None or b is None:
        return {"file": rel, la: "<file missing>" if a is None else "<present>", lb: "<file missing>" if b is None else "<present>"}
    for i in range(max(len(a), len(b))):
        x = a[i] if i < len(a) else "<end of file>"
        y = b[i] if i < len(b) else "<end of file>"
        if x != y:
            return {"file": rel, "line": i + 1, la: x[:300], lb: y[:300]}
    return {"file": rel, "line": None}


def process_sequence(name, seed, steps, base, models):
    """run `steps` in one process, and each distinct (plugin, model list) in a fresh process; compare the trees.
    -> {"name", "seed", "steps", "compared": n, "bad": [...], "error"}"""
    root = os.path.join(base, "proc-" + re.sub(r"[^A-Za-z0-9]+", "_", name))
    os.makedirs(root, exist_ok=True)
    out = {"name": name, "seed": seed, "steps": [list(x) for x in steps], "compared": 0, "bad": [], "error": None}
    try:
        dirs = [os.path.join(root, "step%d-%s-%s" % (i, p, m)) for i, (p, m) in enumerate(steps)]
        req = {"steps": [{"plugin": p, "models": models[m], "out": d} for (p, m), d in zip(steps, dirs)]}
        env = V.repo_env({"PYTHONHASHSEED": seed})
        env["PYTHONPATH"] = V.REPO
        pr = subprocess.run([V.PY, "-B", os.path.join(V.VERIF, "lib", "c16_inproc.py")], input=json.dumps(req), cwd=V.REPO, env=env,
                            capture_output=True, text=True, timeout=1800)
        try:
            rep = json.loads(pr.stdout.strip().split("\n")[-1])["steps"]
        except (ValueError, IndexError, KeyError):
            out["error"] = "in-process runner failed (rc %d): %s" % (pr.returncode, (pr.stdout + pr.stderr)[-600:])
            return out
        fresh = {}
        for pm in sorted(set(steps)):
            fd = os.path.join(root, "fresh-%s-%s" % pm)
            rc, log = gen(pm[0], seed, fd, models[pm[1]])
            fresh[pm] = (fd, None if rc == 0 else log)
        ftrees = {pm: (tree(fd)[0] if err is None else None) for pm, (fd, err) in fresh.items()}
        for p in sorted({p for p, _ in steps}):
            ms = sorted({m for q, m in steps if q == p})
            if len(ms) > 1 and all(ftrees[(p, m)] is not None for m in ms) and len({json.dumps(ftrees[(p, m)], sort_keys=True) for m in ms}) < len(ms):
                out["bad"].append({"plugin": p, "what": "vacuous sequence: the model lists %s give the same output tree, nothing is tested" % ms})
        for i, ((p, m), d) in enumerate(zip(steps, dirs)):
            here = {"step": i, "plugin": p, "models": m, "earlier_in_process": [list(x) for x in steps[:i]]}
            if fresh[(p, m)][1] is not None:
                out["bad"].append(dict(here, what="generator failed in a fresh process", detail=fresh[(p, m)][1][-400:]))
                continue
            if not rep[i]["ok"]:
                out["bad"].append(dict(here, what="generator failed after earlier generations in the same process (succeeds in a fresh process)", detail=rep[i]["error"]))
                continue
            t, _ = tree(d)
            out["compared"] += 1
            if t != ftrees[(p, m)]:
                df = diff_trees(ftrees[(p, m)], t)
                files = (df["content_differs"] + df["only_in_reference"] + df["only_in_this_run"])[:3]
                out["bad"].append(dict(here, what="output of this generation differs from what a fresh process writes for the same model",
                                       diff=df, first_differences=[first_difference(fresh[(p, m)][0], d, f) for f in files]))
        return out
    except subprocess.TimeoutExpired:
        out["error"] = "timeout"
        return out
    finally:
        shutil.rmtree(root, ignore_errors=True)


def jobs_for(tier, rnd, extra_seeds=()):
    """(plugin, model list, seed, history) combinations of a tier; rnd = the hash seed drawn for this run"""
    jobs = []
    seeds = FIXED_SEEDS + [rnd] + list(extra_seeds)
    for p in ("python", "rust", "dotnet"):
        jobs += [(p, "committed", s, h) for s in seeds for h in HISTS]
        jobs += [(p, "extended", s, "fresh") for s in ["1", "2", "3", rnd] + list(extra_seeds)]
        jobs += [(p, "extended", s, "after-other-model") for s in ("1", "2")]
        # evolved model lists: order dependence that the committed model does not trigger
        jobs += [(p, "collide", s, "fresh") for s in ["1", "2", "3", rnd] + list(extra_seeds)]
        jobs += [(p, "many", s, "fresh") for s in ["1", "2", rnd]]
    jobs += [("testdata", "small", s, h) for s in seeds for h in HISTS]
    jobs += [("testdata", "small-ext", s, "fresh") for s in ("1", "2", "3")]
    jobs += [("testdata", "small-collide", s, "fresh") for s in ["1", "2", "3", rnd] + list(extra_seeds)]
    # every plugin: previous contents in an output directory whose NAME contains glob metacharacters
    for p, m in (("python", "committed"), ("rust", "committed"), ("dotnet", "committed"), ("testdata", "small")):
        jobs += [(p, m, s, h) for s, h in meta_histories(rnd)]
    if tier == "thorough":
        jobs += [("testdata", "committed", "1", "after-stale-files@brackets"), ("testdata", "committed", "2", "after-other-model@ancestor")]
        jobs += [("testdata", "committed", s, h) for s in FIXED_SEEDS + [rnd] for h in HISTS]
        jobs += [("testdata", "extended", s, "fresh") for s in ("1", "2")]
        jobs += [("testdata", "collide", s, "fresh") for s in ("1", "2")]
    seen = set()
    return [j for j in jobs if not (j in seen or seen.add(j))]


def diff_trees(a, b):
    return {"only_in_reference": sorted(set(a) - set(b))[:10], "only_in_this_run": sorted(set(b) - set(a))[:10],
            "content_differs": sorted(k for k in a if k in b and a[k] != b[k])[:10]}


def run_stream(jobs, workers=10, seqs=(), documents=None, after=None):
    """-> ({(plugin, model list, seed, hist): result of combo}, [result of process_sequence], model lists)
    after(res, base, models): called while the scratch directory still exists (confirmation / reduction of failures)"""
    res = {}
    with V.scratch("verif-c16-") as base:
        models = write_models(base, documents)
        # heavy jobs first
        order = sorted(jobs, key=lambda j: (-(j[0] == "testdata" and j[1] in ("committed", "extended", "collide")), -(j[0] == "dotnet"), -(j[3] in ("rerun", "after-other-model", "after-damaged-output")), j))
        with cf.ThreadPoolExecutor(workers) as ex:
            heavy = [q for q in seqs if any(p == "testdata" and m in ("committed", "variant") for p, m in q[2])]
            sfuts = [(q, ex.submit(process_sequence, q[0], q[1], q[2], base, models)) for q in heavy + [q for q in seqs if q not in heavy]]
            futs = {j: ex.submit(combo, j[0], j[1], j[2], j[3], base, models) for j in order}
            for j in jobs:
                res[j] = futs[j].result()
            done = {q[0]: f.result() for q, f in sfuts}
        pres = [done[q[0]] for q in seqs]
        extra = after(res, base, models) if after else None
    return res, pres, models, extra


def owned_tree(r):
    """the output tree of a run without the hand-placed files that the plugin does not own"""
    foreign = {it["path"] for it in r["planted"] if it["role"] == "foreign"}
    return {k: v for k, v in r["tree"].items() if k not in foreign}


def judge(res):
    """failing combinations against the reference tree of their (plugin, model list): seed 1, fresh directory"""
    bad = []
    groups = {}
    for (p, m, s, h), r in res.items():
        groups.setdefault((p, m), []).append(((s, h), r))
    for (p, m), rows in groups.items():
        ref = next((r["tree"] for (s, h), r in rows if r["tree"] is not None and (s, h) == ("1", "fresh")), None) or \
            next((r["tree"] for (s, h), r in rows if r["tree"] is not None and h == "fresh"), None) or \
            next((r["tree"] for (s, h), r in rows if r["tree"] is not None), None)
        for (s, hfull), r in rows:
            h, dk = split_hist(hfull)
            here = {"plugin": p, "models": m, "seed": s, "history": hfull}
            if dk:
                here["output_directory_name"] = DIRNAMES[dk]
            planted = [{k: v for k, v in it.items() if not k.startswith("_")} for it in r["planted"]]
            if r.get("skipped"):
                continue
            if r["error"]:
                bad.append(dict(here, what="generator failed", detail=r["error"][-600:], planted=planted))
            elif h == "after-other-model" and r["first"] == ref:
                bad.append(dict(here, what="vacuous history: the other model list produces the reference tree, nothing is tested"))
            elif h == "after-damaged-output" and (not r["planted"] or all(r["first"].get(it["path"]) == it["_sha"] for it in r["planted"])):
                bad.append(dict(here, what="vacuous history: nothing could be damaged in the output of the first run"))
            elif h in PLANTED and any(it["role"] == "foreign" and it["path"] in ref for it in r["planted"]):
                bad.append(dict(here, what="vacuous history: a file planted as foreign has a name that the plugin generates", planted=planted))
            elif owned_tree(r) != ref:
                t = owned_tree(r)
                df = diff_trees(ref, t)
                names = set(df["only_in_reference"] + df["only_in_this_run"] + df["content_differs"])
                bad.append(dict(here, what="output tree differs from the reference run (seed 1, fresh directory, same model list)", diff=df,
                                planted=planted, after_run=r["after"],
                                survived=[dict(a, reference_sha256=ref.get(a["path"], "<not generated for this model>")) for a in r["after"]
                                          if a["path"] in names and a["role"] != "foreign"]))
            elif r["leaks"]:
                bad.append(dict(here, what="uuid-shaped string in the output", files=r["leaks"][:5]))
    return bad


REDUCIBLE = ("collide", "small-collide", "extended")


def reduce_extension(p, m, s, base, models, budget_s=45):
    """greedy reduction of the LAST (small, generated) document of model list m while the python-hash-seed dependence persists:
    sections first, then halves of the remaining lists.  A candidate is run under the seeds 1, s, 2, 3; it fails when some tree differs
    from the tree of seed 1.  -> (reduced document, path, failing seed) or None"""
    import time
    files = models[m]
    doc = json.load(open(files[-1]))
    t0 = time.time()
    n = [0]

    def fails(cand):
        n[0] += 1
        path = os.path.join(base, "reduce-%s-%s-%d.json" % (p, m, n[0]))
        json.dump(cand, open(path, "w"))
        trial = dict(models)
        trial[m] = list(files[:-1]) + [path]
        seeds = list(dict.fromkeys(["1", s, "2", "3"]))
        with cf.ThreadPoolExecutor(len(seeds)) as ex:
            rs = list(ex.map(lambda sd: combo(p, m, sd, "fresh", base, trial, tag="-reduce%d" % n[0]), seeds))
        if rs[0]["tree"] is None:
            return None
        for sd, r in zip(seeds[1:], rs[1:]):
            if r["tree"] is not None and r["tree"] != rs[0]["tree"]:
                return path, sd
        return None

    best = None
    cur = doc
    sections = [k for k in ("structures", "enumerations", "typeAliases", "requests", "notifications") if cur.get(k)]
    # whole sections (structures and enumerations together: the structures refer to the enumerations)
    for group in (("structures", "enumerations", "typeAliases"), ("notifications",), ("requests",)):
        if time.time() - t0 > budget_s or not any(cur.get(k) for k in group):
            continue
        cand = dict(cur, **{k: [] for k in group})
        f = fails(cand)
        if f:
            cur, best = cand, f
    for k in sections:
        while len(cur.get(k, [])) > 1 and time.time() - t0 < budget_s:
            lst = cur[k]
            h = len(lst) // 2
            for part in (lst[:h], lst[h:]):
                cand = dict(cur, **{k: part})
                f = fails(cand)
                if f:
                    cur, best = cand, f
                    break
            else:
                break
    if best is None:
        return None
    return cur, best[0], best[1]


def explain(b, base, models, reduce=True):
    """re-run a failing combination next to its reference (confirmation), reduce a planted history to ONE planted file when that
    alone still fails, and describe the first differing line per file -> the concrete input of the replay file"""
    p, m, s, hfull = b["plugin"], b["models"], b["seed"], b["history"]
    h, dk = split_hist(hfull)
    model_files = models["_describe"].get(m)
    reduced = None
    if reduce and h == "fresh" and s != "1" and m in REDUCIBLE and b.get("diff"):
        red = reduce_extension(p, m, s, base, models)
        if red:
            doc, path, s = red
            models = dict(models, **{m: list(models[m][:-1]) + [path]})
            model_files = list(model_files[:-1]) + [{"file": model_files[-1]["file"], "document": doc}]
            reduced = "the last model file was reduced from the generated document of lib/props/c16.py (%s) while a hash-seed difference persisted" % m
    ref = combo(p, m, "1", "fresh", base, models, keep=True, tag="-explain-ref")
    out = {"plugin": p, "models": m, "model_files": model_files, "seed": s, "history": hfull,
           "reference": {"seed": "1", "history": "fresh", "same_model_files": True}, "confirmed_by_second_run": False}
    if dk:
        out["output_directory_name"] = DIRNAMES[dk]
        out["output_directory"] = "--output-dir <scratch>/%s (the reference run writes into a directory with a plain name)" % DIRNAMES[dk]
    if reduced:
        out["reduced_model"] = reduced
    try:
        if ref["tree"] is None:
            out["note"] = "the reference run failed: " + str(ref["error"])[-300:]
            return out
        plans = [None]
        if h in PLANTED and b.get("planted"):
            full = [{k: it[k] for k in ("path", "role", "content", "damage") if k in it} for it in b["planted"]]
            names = set(b.get("diff", {}).get("only_in_this_run", []) + b.get("diff", {}).get("content_differs", []) + b.get("diff", {}).get("only_in_reference", []))
            culprits = [it for it in full if it["path"] in names] or full
            plans = [[it] for it in culprits[:3]] + [full]
        for i, plan in enumerate(plans):
            r = combo(p, m, s, hfull, base, models, plan=plan, keep=True, tag="-explain-%d" % i)
            try:
                if r["tree"] is None:
                    if i == len(plans) - 1:
                        out.update(confirmed_by_second_run=b.get("what") == "generator failed", observed={"what": "generator failed", "detail": str(r["error"])[-600:]})
                    continue
                t = owned_tree(r)
                if t == ref["tree"]:
                    continue
                df = diff_trees(ref["tree"], t)
                files = (df["content_differs"] + df["only_in_this_run"] + df["only_in_reference"])[:3]
                planted = [{k: v for k, v in it.items() if not k.startswith("_")} for it in r["planted"]]
                if h == "after-other-model" and r["first"]:
                    # what the earlier run on the other model list left behind and this run did not remove
                    left = sorted(k for k in df["only_in_this_run"] if k in r["first"])
                    planted = planted or {"written_by": "a run of the same plugin on the model list %r into the same directory" % OTHER[m], "files": len(r["first"]),
                                          "of_which_not_generated_for_this_model_list_and_still_there_after_the_run": left}
                out.update(confirmed_by_second_run=True, directory_before_the_run=planted or ("empty" if h == "fresh" else h),
                           plan=plan, reduced_to_one_planted_file=bool(plan) and len(plan) == 1 and len(b.get("planted", [])) > 1,
                           observed={"diff": df, "planted_files_after_the_run": r["after"],
                                     "first_differences": [first_difference(ref["dir"], r["dir"], f, ("reference_run", "this_run")) for f in files]})
                return out
            finally:
                shutil.rmtree(r["top"] or r["dir"], ignore_errors=True)
        out.setdefault("note", "the difference did not show again in a second run of the same combination")
        return out
    finally:
        shutil.rmtree(ref["top"] or ref["dir"], ignore_errors=True)


def run(chk):
    chk.trusted = V.STD_TRUSTED + [
        "translator lib/x_emit.py: syntactic consumer classification of every set / random id / directory listing in generator/plugins and generator/*.py "
        "(not a proof that the expression is an instance of its class)",
        "translator lib/emit_modstate.py: which module-level names / class attributes / default values / functools caches of generator/ exist, which of them "
        "hold a possibly mutable value, and whether any function body can rebind or mutate them (directly, through `global`, through a module alias, "
        "through a local alias, a parameter, a loop variable or an element); fail-closed: an escape it cannot follow is reported as SModState. Loggers, "
        "compiled patterns and paths count as immutable handles; state inside library modules and setattr/globals() tricks outside functions are not "
        "analysed (the process stream is the check for those)",
        "the abstract pipeline LSP.Emit (TypeData as insertion-ordered association list, set consumers, directory as a function, a process as a fold of "
        "generations over the module state, functools caches as association tables) — tied to the generator only by x_emit and the two streams",
        "CPython dicts iterate in insertion order; sorted() is a function of the multiset of its elements under a total order; arguments of a cached "
        "function that compare equal are interchangeable for it",
    ]
    chk.assumptions = ["LABEL partial: theorems are about the abstract pipeline; the instance link is syntactic + differential",
                       "the owned part of a directory is what matches the plugin's cleanup pattern or its fixed file names",
                       "module state = what hangs off the module objects of generator/ (names, class attributes, defaults, functools caches); a name bound to a "
                       "mutable value that no function changes is constant after import (import-time code may build it freely)"]
    gen_v = os.path.join(V.GEN, "EmitData.v")
    gen_j = os.path.join(V.GEN, "emit.json")
    broken = []
    info = None
    with V.build_lock():
        p = V.run_py("x_emit.py", [gen_v, gen_j])
        chk.obligation("translate:x_emit", p.returncode == 0, (p.stdout + p.stderr)[-400:])
        if p.returncode == 0:
            info = json.load(open(gen_j))
            prop = V.stage_prop("C16")
            ok, res = V.compile_chain([gen_v, prop], timeout=300)
            names = V.theorems_in(prop)
            out = res[-1][1].text
            if ok:
                for n in names:
                    chk.obligation(n, True)
                chk.assumptions.append("Print Assumptions (C16.v): %d x 'Closed under the global context', axioms: %s"
                                       % (out.count("Closed under the global context"), V.parse_assumptions(out).get("axioms", [])))
            else:
                m = re.search(r'line (\d+)', out)
                bad = None
                if m and len(res) > 1:
                    src = open(prop).read().split("\n")
                    for i in range(min(int(m.group(1)), len(src)) - 1, -1, -1):
                        mm = re.match(r"\s*(?:Theorem|Lemma)\s+([A-Za-z0-9_']+)", src[i])
                        if mm:
                            bad = mm.group(1)
                            break
                reached = True
                for n in names:
                    if n == bad:
                        reached = False
                    chk.obligation(n, reached and n != bad, "" if reached and n != bad else ("coqc failed here" if n == bad else "not reached"))
                exposed = [s for s in info["sites"] if s["class"] in ("SExposed", "SSortedByKey", "SModState")]
                notown = [{k: v for k, v in pl.items() if k != "effects"} for pl in info["plugins"] if not ((pl["cleanup_first"] or pl["fixed_names"]) and pl["writes_owned"])]
                broken.append(("proof", bad or "C16.v", {"exposed_sites": [x for x in exposed if x["class"] == "SExposed"],
                                                          "set_sorted_by_a_key_not_known_to_be_injective": [x for x in exposed if x["class"] == "SSortedByKey"],
                                                          "module_state_changed_by_a_function": [x for x in exposed if x["class"] == "SModState"],
                                                          "plugins_without_cleanup_or_fixed_names": notown, "coq": out[-400:]}))
        else:
            broken.append(("translator", "x_emit", (p.stdout + p.stderr)[-800:]))
    if info:
        chk.extra["site_classes"] = {k: sum(1 for s in info["sites"] if s["class"] == k) for k in sorted({s["class"] for s in info["sites"]})}
        chk.extra["plugins"] = [{k: pl[k] for k in ("name", "cleanup_first", "fixed_names", "writes_owned", "patterns", "written")} for pl in info["plugins"]]
        chk.extra["module_state"] = {"sites": [{k: x[k] for k in ("file", "line", "what", "kind", "class")} for x in info["sites"] if x["kind"] in ("modstate", "memo", "default")],
                                     "immutable_names_never_rebound": info.get("modstate", {}).get("immutable_module_names"),
                                     "modules": len(info.get("modstate", {}).get("modules", []))}

    rnd = str((random.Random(chk.seed) if chk.seed else random.SystemRandom()).randrange(6, 2 ** 32))       # a concrete number: replayable
    jobs = jobs_for(chk.tier, rnd, ["4", "5"] if broken else [])      # an obligation broke: look harder for a real difference
    seqs = process_sequences(chk.tier)

    def after(res, base, models):
        bad = judge(res)
        # the failure recorded as the counter-example: a hash-seed difference in a fresh directory or a planted directory state is
        # more concrete than a two-run history, so prefer those
        bad.sort(key=lambda b: (b["what"].startswith("vacuous"), split_hist(b["history"])[0] not in ("fresh",) + PLANTED,
                                b["history"] != "fresh" and not b.get("survived"), b["models"] not in ("committed", "small")))
        return bad, (explain(bad[0], base, models) if bad and not bad[0]["what"].startswith("vacuous") else None)

    res, pres, models, (bad, explained) = run_stream(jobs, workers=14 if chk.tier == "quick" else 8, seqs=seqs, after=after)
    edits = models["_edits"]
    for j, r in res.items():
        chk.count(j, nontrivial=r["tree"] is not None)
    ntrees = sum(1 for r in res.values() if r["tree"] is not None)
    skipped = sorted({"%s: %s" % (split_hist(j[3])[1], r["skipped"]) for j, r in res.items() if r.get("skipped")})
    nmeta = sum(1 for j, r in res.items() if split_hist(j[3])[1] and r["tree"] is not None)
    chk.obligation("history-stream:real-plugins-byte-identical", not bad,
                   "%d runs-with-history (%s), %d differing; %d of them in output directories named %s%s; random hash seed of this run: %s" % (
                       ntrees, ", ".join("%s/%s: %d" % (p, m, sum(1 for j in jobs if j[:2] == (p, m))) for p, m in sorted({j[:2] for j in jobs})), len(bad),
                       nmeta, sorted(DIRNAMES.values()), (" (skipped: %s)" % "; ".join(skipped)) if skipped else "", rnd))
    chk.extra["output_directory_names_with_glob_metacharacters"] = {"names": DIRNAMES, "runs": nmeta, "skipped": skipped}
    foreign = {}
    for (p, m, s, h), r in sorted(res.items()):
        for a in r["after"]:
            if a["role"] == "foreign":
                foreign.setdefault("%s:%s" % (p, a["path"]), set()).add(a["after_run"])
    chk.extra["files_not_owned_by_the_plugin_after_a_run"] = {k: sorted(v) for k, v in foreign.items()}
    pbad = []
    for r in pres:
        for i in range(len(r["steps"])):
            chk.count(("process", r["name"], i), nontrivial=r["error"] is None)
        if r["error"]:
            pbad.append({"sequence": r["name"], "seed": r["seed"], "steps": r["steps"], "what": r["error"]})
        pbad += [dict(b, sequence=r["name"], seed=r["seed"], steps=r["steps"]) for b in r["bad"]]
    ncomp = sum(r["compared"] for r in pres)
    chk.obligation("process-stream:nth-generation-equals-fresh-process", not pbad,
                   "%d generations inside %d processes (%s) compared with fresh-process output, %d differing; model B = %d edits (%s, ...)"
                   % (ncomp, len(pres), ", ".join(r["name"] for r in pres), len(pbad), len(edits["variant"]), "; ".join(edits["variant"][:2])))
    for j in [("dotnet", "committed", "2", "after-damaged-output"), ("python", "collide", "3", "fresh"), ("testdata", "small", rnd, "after-other-model")]:
        if j in res and res[j]["tree"] is not None:
            chk.sample({"plugin": j[0], "models": j[1], "seed": j[2], "history": j[3], "files": len(res[j]["tree"]),
                        "planted": [{k: it[k] for k in ("path", "role", "damage") if k in it} for it in res[j]["planted"]],
                        "tree_digest": hashlib.sha1(json.dumps(res[j]["tree"], sort_keys=True).encode()).hexdigest()[:12]})
    for r in pres[:1] + pres[-1:]:
        chk.sample({"process_sequence": r["name"], "seed": r["seed"], "steps": r["steps"], "generations_compared_with_fresh_process": r["compared"]})
    chk.extra["traces_validated_against_impl"] = ntrees + ncomp
    chk.extra["process_stream"] = {"sequences": [{"name": r["name"], "seed": r["seed"], "steps": r["steps"], "compared": r["compared"]} for r in pres],
                                   "variant_edits": {k: len(v) for k, v in edits.items()}, "variant_edits_sample": edits["variant"][:5] + edits["small-variant"][:2]}
    seeds = sorted({j[2] for j in jobs})

    how = "./check C16 --replay <this file>"
    if bad:
        b = bad[0]
        inp = explained or {"plugin": b["plugin"], "models": b["models"], "model_files": models["_describe"].get(b["models"]), "seed": b["seed"], "history": b["history"]}
        chk.violation({"property": "C16", "kind": "history", "input": inp,
                       "expected": "byte-identical output tree for every hash seed and run history", "observed_impl": b,
                       "all_differing": [(x["plugin"], x["models"], x["seed"], x["history"]) for x in bad][:20], "broken": [x[:2] for x in broken], "how_to_replay": how})
    if pbad:
        b = pbad[0]
        chk.violation({"property": "C16", "kind": "process-history",
                       "input": {"sequence": b["sequence"], "seed": b["seed"], "steps": b["steps"],
                                 "model_A": "committed = generator/lsp.json; small = the standalone model of lib/props/c16.py write_models",
                                 "model_B": "variant_of(A) in lib/props/c16.py: " + "; ".join(edits["variant" if "committed" in str(b["steps"]) else "small-variant"][:4]) + "; ..."},
                       "expected": "each generation of the sequence, performed in ONE Python process through generator.__main__.main, writes the tree a fresh process writes for the same model",
                       "observed_impl": b, "all_differing": [(x["sequence"], x.get("step"), x.get("plugin"), x.get("models")) for x in pbad][:20],
                       "broken": [x[:2] for x in broken], "how_to_replay": how})
    if broken and not bad and not pbad:
        chk.violation({"property": "C16", "kind": "obligation no longer checks", "broken": [{"what": a, "name": b, "detail": c} for a, b, c in broken],
                       "searched": "%d real plugin runs over seeds %s, model lists %s and histories %s: all output trees byte-identical; %d generations inside %d multi-generation "
                                   "processes: all equal to fresh-process output" % (ntrees, seeds, sorted({j[1] for j in jobs}), sorted({j[3] for j in jobs}), ncomp, len(pres))},
                      no_input=True)


def replay(path):
    r = json.load(open(path))
    inp = r.get("input")
    if not inp:
        print("no concrete input recorded:", json.dumps(r.get("broken"))[:2000])
        return 1
    if r.get("kind") == "process-history":
        _, pres, _, _ = run_stream([], workers=2, seqs=[(inp["sequence"], inp["seed"], [tuple(x) for x in inp["steps"]])])
        if pres[0]["error"] or pres[0]["bad"]:
            print("still fails:", json.dumps(pres[0]["bad"][0] if pres[0]["bad"] else pres[0]["error"])[:1500])
            return 1
        print("no longer fails")
        return 0
    m = inp.get("models", "committed")
    # the model documents recorded in the replay file are used as they stand there
    documents = {x["file"][:-5]: x["document"] for x in inp.get("model_files") or [] if isinstance(x, dict) and isinstance(x.get("document"), dict)}
    b = {"plugin": inp["plugin"], "models": m, "seed": inp["seed"], "history": inp["history"], "what": (r.get("observed_impl") or {}).get("what", "")}
    if inp.get("plan"):
        b["planted"] = inp["plan"]

    def after(res, base, models):
        return explain(b, base, models, reduce=False)
    _, _, _, e = run_stream([], workers=2, documents=documents, after=after)
    if e.get("confirmed_by_second_run"):
        print("still fails:", json.dumps({k: e[k] for k in ("plugin", "models", "seed", "history", "directory_before_the_run", "observed") if k in e})[:3000])
        return 1
    print("no longer fails" + (": " + e["note"] if e.get("note") else ""))
    return 0
