"""C16 — generation is a deterministic function of the model files alone.                      LEVEL: partial

proof:   coq/Emit.v (generic, about the ABSTRACT emission pipeline: emit_id_invariant, emit_perm_invariant,
         glob_delete_invariant, glob_write_invariant, run_history_independent, run_preserves_foreign — all id assignments,
         iteration orders, prior directory states), instantiated at strings in coq/props/C16.v together with the instance
         obligations `sites_covered` / `plugins_owned` computed on the site table that lib/x_emit.py extracts from the current
         plugins.
tie:     x_emit (syntactic classification of every set / random id / directory listing by its consumer) + the history
         stream on the REAL plugins: {PYTHONHASHSEED 1, 2, random} x {fresh directory, re-run into the same directory, run after
         a different (edited) model, run after hand-placed stale files matching the plugin's owned pattern}, byte comparison of
         whole output trees, plus a scan of the output for uuid-shaped strings.
partial: that each Python expression is an instance of its abstract class is not proved.
"""
import concurrent.futures as cf
import hashlib
import json
import os
import re
import shutil
import subprocess

import vcommon as V

LEVEL = "proof"      # evidence level category; the claim itself is labelled PARTIAL in MANIFEST level text
RULE = ("history stream: per plugin (quick: python, rust, dotnet; thorough: + testdata) every combination of PYTHONHASHSEED in {1, 2, random} "
        "and run history in {fresh directory, re-run into the same directory, run after an edited model with extra structure/enumeration/"
        "notification, run after hand-placed stale files matching the owned pattern}; the whole output tree (path -> sha256) of every "
        "combination must equal the plugin's reference tree; distinct = distinct (plugin, seed, history)")
SEEDS = ["1", "2", "random"]
HISTS = ["fresh", "rerun", "after-other-model", "after-stale-files"]
UUID_RE = re.compile(rb"[0-9a-f]{8}-[0-9a-f]{4}-[1-5][0-9a-f]{3}-[89ab][0-9a-f]{3}-[0-9a-f]{12}")
STALE = {"python": [("lsprotocol/types.py", "# stale content from an earlier model\nclass Stale: ...\n")],
         "rust": [("lsprotocol/src/lib.rs", "// stale\npub struct Stale;\n")],
         "dotnet": [("lsprotocol/Stale.cs", "// stale\nclass Stale {}\n"), ("lsprotocol/ZzzOld.cs", "// stale\n")],
         "testdata": [("StaleRequest-True-0000000000000000000000000000000000000000000000000000000000000000.json", "{}\n")]}


def tree(d):
    out = {}
    leaks = []
    for root, _, files in os.walk(d):
        for f in files:
            p = os.path.join(root, f)
            b = open(p, "rb").read()
            out[os.path.relpath(p, d)] = hashlib.sha256(b).hexdigest()
            if f.endswith((".py", ".rs", ".cs")) and UUID_RE.search(b):
                leaks.append(os.path.relpath(p, d))
    return out, leaks


def edited_model(dst):
    m = json.load(open(os.path.join(V.REPO, "generator", "lsp.json")))
    m["structures"].append({"name": "ZzzStaleProbe", "properties": [{"name": "probe", "type": {"kind": "base", "name": "string"}},
                                                                     {"name": "kind", "type": {"kind": "reference", "name": "ZzzStaleKind"}, "optional": True}],
                            "documentation": "Only present in the edited model."})
    m["enumerations"].append({"name": "ZzzStaleKind", "type": {"kind": "base", "name": "uinteger"},
                              "values": [{"name": "One", "value": 1}, {"name": "Two", "value": 2}]})
    m["notifications"].append({"method": "zzz/staleProbe", "messageDirection": "both", "params": {"kind": "reference", "name": "ZzzStaleProbe"},
                               "typeName": "ZzzStaleProbeNotification"})
    json.dump(m, open(dst, "w"))


def gen(plugin, seed, out, model=None):
    env = V.repo_env({"PYTHONHASHSEED": seed})
    env["PYTHONPATH"] = V.REPO
    cmd = [V.PY, "-B", "-m", "generator", "--plugin", plugin, "--output-dir", out, "--test-dir", out + "-tests"]
    if model:
        cmd += ["--model", model]
    p = subprocess.run(cmd, cwd=V.REPO, env=env, capture_output=True, text=True, timeout=900)
    return p.returncode, (p.stdout + p.stderr)[-1500:]


def combo(plugin, seed, hist, base, other_model):
    """run one (plugin, seed, history) in its own directory; returns (tree, leaks, error)"""
    d = os.path.join(base, "%s-%s-%s" % (plugin, seed, hist))
    os.makedirs(d, exist_ok=True)
    try:
        if hist == "rerun":
            rc, log = gen(plugin, seed, d)
            if rc:
                return None, [], "first run failed: " + log
        elif hist == "after-other-model":
            rc, log = gen(plugin, seed, d, other_model)
            if rc:
                return None, [], "run on the edited model failed: " + log
            first, _ = tree(d)
        elif hist == "after-stale-files":
            for rel, txt in STALE[plugin]:
                p = os.path.join(d, rel)
                os.makedirs(os.path.dirname(p), exist_ok=True)
                open(p, "w").write(txt)
        rc, log = gen(plugin, seed, d)
        if rc:
            return None, [], "run failed: " + log
        t, leaks = tree(d)
        if hist == "after-other-model" and first == t:
            return t, leaks, "the edited model produced the same tree as the packaged model: this history tests nothing"
        return t, leaks, None
    finally:
        shutil.rmtree(d, ignore_errors=True)
        shutil.rmtree(d + "-tests", ignore_errors=True)


def diff_trees(a, b):
    return {"only_in_reference": sorted(set(a) - set(b))[:10], "only_in_this_run": sorted(set(b) - set(a))[:10],
            "content_differs": sorted(k for k in a if k in b and a[k] != b[k])[:10]}


def run_stream(plugins, seeds, hists, workers=10):
    """-> (results {(plugin, seed, hist): (tree, leaks, err)}, reference trees)"""
    res = {}
    with V.scratch("verif-c16-") as base:
        other = os.path.join(base, "edited-model.json")
        edited_model(other)
        jobs = [(p, s, h) for p in plugins for s in seeds for h in hists]
        with cf.ThreadPoolExecutor(workers) as ex:
            futs = {j: ex.submit(combo, j[0], j[1], j[2], base, other) for j in jobs}
            for j, f in futs.items():
                res[j] = f.result()
    return res


def judge(res):
    """first failing combination per plugin against the plugin's reference (seed 1, fresh)"""
    bad = []
    by_plugin = {}
    for (p, s, h), r in res.items():
        by_plugin.setdefault(p, []).append(((s, h), r))
    for p, rows in by_plugin.items():
        ref = next((r[0] for (s, h), r in rows if r[0] is not None and (s, h) == ("1", "fresh")), None) or \
            next((r[0] for (s, h), r in rows if r[0] is not None), None)
        for (s, h), (t, leaks, err) in rows:
            if err:
                bad.append({"plugin": p, "seed": s, "history": h, "what": "generator failed", "detail": err[-600:]})
            elif t != ref:
                bad.append({"plugin": p, "seed": s, "history": h, "what": "output tree differs from the reference run", "diff": diff_trees(ref, t)})
            elif leaks:
                bad.append({"plugin": p, "seed": s, "history": h, "what": "uuid-shaped string in the output", "files": leaks[:5]})
    return bad


def run(chk):
    chk.trusted = V.STD_TRUSTED + [
        "translator lib/x_emit.py: syntactic consumer classification of every set / random id / directory listing in generator/plugins (not a proof that the expression is an instance of its class)",
        "the abstract pipeline LSP.Emit (TypeData as insertion-ordered association list, set consumers, directory as a function) — tied to the plugins only by x_emit and the history stream",
        "CPython dicts iterate in insertion order; sorted() is a function of the multiset of its elements under a total order",
    ]
    chk.assumptions = ["LABEL partial: theorems are about the abstract pipeline; the instance link is syntactic + differential",
                       "the owned part of a directory is what matches the plugin's cleanup pattern or its fixed file names"]
    gen_v = os.path.join(V.GEN, "EmitData.v")
    gen_j = os.path.join(V.GEN, "emit.json")
    broken = []
    info = None
    with V.build_lock():
        p = V.run_py("x_emit.py", [gen_v, gen_j])
        chk.obligation("translate:x_emit", p.returncode == 0, (p.stdout + p.stderr)[-400:])
        if p.returncode == 0:
            info = json.load(open(gen_j))
            prop = V.stage_prop("C16")
            ok, res = V.compile_chain([gen_v, prop], timeout=300)
            names = V.theorems_in(prop)
            out = res[-1][1].text
            if ok:
                for n in names:
                    chk.obligation(n, True)
                chk.assumptions.append("Print Assumptions (C16.v): %d x 'Closed under the global context', axioms: %s"
                                       % (out.count("Closed under the global context"), V.parse_assumptions(out).get("axioms", [])))
            else:
                m = re.search(r'line (\d+)', out)
                bad = None
                if m and len(res) > 1:
                    src = open(prop).read().split("\n")
                    for i in range(min(int(m.group(1)), len(src)) - 1, -1, -1):
                        mm = re.match(r"\s*(?:Theorem|Lemma)\s+([A-Za-z0-9_']+)", src[i])
                        if mm:
                            bad = mm.group(1)
                            break
                reached = True
                for n in names:
                    if n == bad:
                        reached = False
                    chk.obligation(n, reached and n != bad, "" if reached and n != bad else ("coqc failed here" if n == bad else "not reached"))
                exposed = [s for s in info["sites"] if s["class"] == "SExposed"]
                notown = [pl for pl in info["plugins"] if not ((pl["cleanup_first"] or pl["fixed_names"]) and pl["writes_owned"])]
                broken.append(("proof", bad or "C16.v", {"exposed_sites": exposed, "plugins_without_cleanup_or_fixed_names": notown, "coq": out[-400:]}))
        else:
            broken.append(("translator", "x_emit", (p.stdout + p.stderr)[-800:]))
    if info:
        chk.extra["site_classes"] = {k: sum(1 for s in info["sites"] if s["class"] == k) for k in sorted({s["class"] for s in info["sites"]})}
        chk.extra["plugins"] = [{k: pl[k] for k in ("name", "cleanup_first", "fixed_names", "writes_owned", "patterns", "written")} for pl in info["plugins"]]

    plugins = ["python", "rust", "dotnet"] + (["testdata"] if chk.tier == "thorough" else [])
    seeds = list(SEEDS)
    if broken:
        seeds += ["3", "4", "5", "6"]          # an obligation broke: look harder for a real difference
    res = run_stream(plugins, seeds, HISTS, workers=10 if chk.tier == "quick" else 6)
    for (p_, s, h), (t, leaks, err) in res.items():
        chk.count((p_, s, h), nontrivial=t is not None)
    bad = judge(res)
    ntrees = sum(1 for r in res.values() if r[0] is not None)
    chk.obligation("history-stream:real-plugins-byte-identical", not bad,
                   "%d runs-with-history over %s x seeds %s x %s: %d differing" % (ntrees, plugins, seeds, HISTS, len(bad)))
    for (p_, s, h) in [("dotnet", "2", "after-stale-files"), ("python", "random", "rerun")]:
        if (p_, s, h) in res and res[(p_, s, h)][0] is not None:
            chk.sample({"plugin": p_, "seed": s, "history": h, "files": len(res[(p_, s, h)][0]),
                        "tree_digest": hashlib.sha1(json.dumps(res[(p_, s, h)][0], sort_keys=True).encode()).hexdigest()[:12]})
    chk.extra["traces_validated_against_impl"] = ntrees

    how = "./check C16 --replay <this file>"
    if bad:
        b = bad[0]
        chk.violation({"property": "C16", "kind": "history", "input": {"plugin": b["plugin"], "seed": b["seed"], "history": b["history"]},
                       "expected": "byte-identical output tree for every hash seed and run history", "observed_impl": b,
                       "all_differing": [(x["plugin"], x["seed"], x["history"]) for x in bad][:20], "broken": [x[:2] for x in broken], "how_to_replay": how})
    elif broken:
        chk.violation({"property": "C16", "kind": "obligation no longer checks", "broken": [{"what": a, "name": b, "detail": c} for a, b, c in broken],
                       "searched": "%d real plugin runs over seeds %s and histories %s: all output trees byte-identical" % (ntrees, seeds, HISTS)},
                      no_input=True)


def replay(path):
    r = json.load(open(path))
    inp = r.get("input")
    if not inp:
        print("no concrete input recorded:", json.dumps(r.get("broken"))[:2000])
        return 1
    res = run_stream([inp["plugin"]], sorted({"1", inp["seed"]}), sorted({"fresh", inp["history"]}), workers=4)
    bad = judge(res)
    if bad:
        print("still fails:", json.dumps(bad[0])[:1500])
        return 1
    print("no longer fails")
    return 0
