"""C16 — generation is a deterministic function of the model files alone.                      LEVEL: partial

proof:   coq/Emit.v (generic, about the ABSTRACT emission pipeline: emit_id_invariant, emit_perm_invariant,
         glob_delete_invariant, glob_write_invariant, run_history_independent, run_preserves_foreign — all id assignments,
         iteration orders, prior directory states), instantiated at strings in coq/props/C16.v together with the instance
         obligations `sites_covered` / `plugins_owned` computed on the site table that lib/x_emit.py extracts from the current
         plugins.
tie:     x_emit (syntactic classification of every set / random id / directory listing by its consumer) + the history
         stream on the REAL plugins: model lists {committed lsp.json, [lsp.json, extension.json] with keyword-named properties and
         digit-named messages; for testdata also a small standalone model and its extension} x {PYTHONHASHSEED 1, 2, 3, random} x
         {fresh directory, re-run into the same directory, run after the other model list in the same directory, run after
         hand-placed stale files matching the plugin's owned pattern}, byte comparison of whole output trees, plus a scan of
         the output for uuid-shaped strings.
partial: that each Python expression is an instance of its abstract class is not proved.
"""
import concurrent.futures as cf
import hashlib
import json
import os
import re
import shutil
import subprocess

import vcommon as V

LEVEL = "proof"      # evidence level category; the claim itself is labelled PARTIAL in MANIFEST level text
RULE = ("history stream: per plugin and model list — python/rust/dotnet on the committed lsp.json and on the EXTENDED list [lsp.json, extension.json] "
        "(extension: 5 structures with Python-keyword properties, a request/notification whose names contain digits, an enumeration); "
        "testdata on a small standalone model and its digit-named extension (quick) and on the full lists (thorough) — every combination of "
        "PYTHONHASHSEED in {1, 2, 3, random} and run history in {fresh directory, re-run into the same directory, run after the OTHER model "
        "list in the same directory, run after hand-placed stale files matching the owned pattern}; the whole output tree (path -> sha256) "
        "must equal the reference tree of that (plugin, model list); distinct = distinct (plugin, model list, seed, history)")
SEEDS = ["1", "2", "random"]
HISTS = ["fresh", "rerun", "after-other-model", "after-stale-files"]
OTHER = {"committed": "extended", "extended": "committed", "small": "small-ext", "small-ext": "small"}
UUID_RE = re.compile(rb"[0-9a-f]{8}-[0-9a-f]{4}-[1-5][0-9a-f]{3}-[89ab][0-9a-f]{3}-[0-9a-f]{12}")
Z64 = "0" * 64
STALE = {"python": [("lsprotocol/types.py", "# stale content from an earlier model\nclass Stale: ...\n")],
         "rust": [("lsprotocol/src/lib.rs", "// stale\npub struct Stale;\n")],
         "dotnet": [("lsprotocol/Stale.cs", "// stale\nclass Stale {}\n"), ("lsprotocol/ZzzOld2.cs", "// stale\n")],
         "testdata": [("StaleRequest-True-%s.json" % Z64, "{}\n"), ("Stale2ThingNotification-False-%s.json" % Z64, "{}\n")]}


def tree(d):
    out = {}
    leaks = []
    for root, _, files in os.walk(d):
        for f in files:
            p = os.path.join(root, f)
            b = open(p, "rb").read()
            out[os.path.relpath(p, d)] = hashlib.sha256(b).hexdigest()
            if f.endswith((".py", ".rs", ".cs")) and UUID_RE.search(b):
                leaks.append(os.path.relpath(p, d))
    return out, leaks


def _ref(n):
    return {"kind": "reference", "name": n}


def _base(n):
    return {"kind": "base", "name": n}


def write_models(base):
    """model files used by the stream -> {model list name: [paths] or None for the packaged default}"""
    kw = ["from", "import", "class", "global", "lambda"]
    structs = [{"name": "ZzKeyword%sHolder" % k.capitalize(), "documentation": "Extension structure with a Python keyword property.",
                "properties": [{"name": k, "type": _base("string")}, {"name": "other", "type": _base("integer"), "optional": True}]} for k in kw]
    structs += [{"name": "ZzUtf8StatusParams", "properties": [{"name": "uri", "type": _base("DocumentUri")}, {"name": "level", "type": _ref("ZzStatusLevel"), "optional": True}]},
                {"name": "ZzUtf8Status", "properties": [{"name": "ok", "type": _base("boolean")}, {"name": "holder", "type": _ref("ZzKeywordFromHolder"), "optional": True}]},
                {"name": "ZzV2ThingParams", "properties": [{"name": "things", "type": {"kind": "array", "element": _base("string")}}]}]
    enums = [{"name": "ZzStatusLevel", "type": _base("uinteger"), "values": [{"name": "Low", "value": 1}, {"name": "High", "value": 2}]}]
    result = {"kind": "or", "items": [_ref("ZzUtf8Status"), _base("null")]}
    digit_req = {"method": "workspace/utf8Status", "typeName": "WorkspaceUtf8StatusRequest", "messageDirection": "clientToServer", "params": _ref("ZzUtf8StatusParams"), "result": result}
    digit_not = {"method": "zz/v2Thing", "typeName": "ZzV2ThingNotification", "messageDirection": "both", "params": _ref("ZzV2ThingParams")}
    plain_req = {"method": "zz/plainStatus", "typeName": "ZzPlainStatusRequest", "messageDirection": "clientToServer", "params": _ref("ZzUtf8StatusParams"), "result": result}
    meta = {"version": "3.17.0"}
    ext = {"metaData": meta, "requests": [digit_req], "notifications": [digit_not], "structures": structs, "enumerations": enums, "typeAliases": []}
    packaged = os.path.join(V.REPO, "generator", "lsp.json")
    aliases = [a for a in json.load(open(packaged))["typeAliases"] if a["name"] in ("LSPAny", "LSPObject", "LSPArray")]
    small = {"metaData": meta, "requests": [plain_req], "notifications": [], "structures": structs, "enumerations": enums, "typeAliases": aliases}
    small_ext = dict(small, requests=[plain_req, digit_req], notifications=[digit_not])
    paths = {}
    for name, doc in (("extension", ext), ("small", small), ("small-ext", small_ext)):
        paths[name] = os.path.join(base, name + ".json")
        json.dump(doc, open(paths[name], "w"))
    return {"committed": None, "extended": [packaged, paths["extension"]], "small": [paths["small"]], "small-ext": [paths["small-ext"]]}


def gen(plugin, seed, out, model=None):
    env = V.repo_env({"PYTHONHASHSEED": seed})
    env["PYTHONPATH"] = V.REPO
    cmd = [V.PY, "-B", "-m", "generator", "--plugin", plugin, "--output-dir", out, "--test-dir", out + "-tests"]
    if model:
        cmd += ["--model"] + list(model)
    p = subprocess.run(cmd, cwd=V.REPO, env=env, capture_output=True, text=True, timeout=900)
    return p.returncode, (p.stdout + p.stderr)[-1500:]


def combo(plugin, mlist, seed, hist, base, models):
    """run one (plugin, model list, seed, history) in its own directory; returns (tree, leaks, error, tree after the first of two runs)"""
    d = os.path.join(base, "%s-%s-%s-%s" % (plugin, mlist, seed, hist))
    os.makedirs(d, exist_ok=True)
    first = None
    try:
        if hist == "rerun":
            rc, log = gen(plugin, seed, d, models[mlist])
            if rc:
                return None, [], "first run failed: " + log, None
        elif hist == "after-other-model":
            rc, log = gen(plugin, seed, d, models[OTHER[mlist]])
            if rc:
                return None, [], "run on the other model list (%s) failed: %s" % (OTHER[mlist], log), None
            first, _ = tree(d)
        elif hist == "after-stale-files":
            for rel, txt in STALE[plugin]:
                p = os.path.join(d, rel)
                os.makedirs(os.path.dirname(p), exist_ok=True)
                open(p, "w").write(txt)
        rc, log = gen(plugin, seed, d, models[mlist])
        if rc:
            return None, [], "run failed: " + log, None
        t, leaks = tree(d)
        return t, leaks, None, first
    finally:
        shutil.rmtree(d, ignore_errors=True)
        shutil.rmtree(d + "-tests", ignore_errors=True)


def jobs_for(tier, extra_seeds=()):
    """(plugin, model list, seed, history) combinations of a tier"""
    jobs = []
    seeds = SEEDS + list(extra_seeds)
    for p in ("python", "rust", "dotnet"):
        jobs += [(p, "committed", s, h) for s in seeds for h in HISTS]
        jobs += [(p, "extended", s, "fresh") for s in ["1", "2", "3", "random"] + list(extra_seeds)]
        jobs += [(p, "extended", s, "after-other-model") for s in ("1", "2")]
    jobs += [("testdata", "small", s, h) for s in seeds for h in HISTS]
    jobs += [("testdata", "small-ext", s, "fresh") for s in ("1", "2", "3")]
    if tier == "thorough":
        jobs += [("testdata", "committed", s, h) for s in SEEDS for h in HISTS]
        jobs += [("testdata", "extended", s, "fresh") for s in ("1", "2")]
    return jobs


def diff_trees(a, b):
    return {"only_in_reference": sorted(set(a) - set(b))[:10], "only_in_this_run": sorted(set(b) - set(a))[:10],
            "content_differs": sorted(k for k in a if k in b and a[k] != b[k])[:10]}


def run_stream(jobs, workers=10):
    """-> {(plugin, model list, seed, hist): (tree, leaks, err)}"""
    res = {}
    with V.scratch("verif-c16-") as base:
        models = write_models(base)
        # heavy jobs first
        order = sorted(jobs, key=lambda j: (-(j[0] == "testdata" and j[1] in ("committed", "extended")), -(j[0] == "dotnet"), j))
        with cf.ThreadPoolExecutor(workers) as ex:
            futs = {j: ex.submit(combo, j[0], j[1], j[2], j[3], base, models) for j in order}
            for j in jobs:
                res[j] = futs[j].result()
    return res


def judge(res):
    """failing combinations against the reference tree of their (plugin, model list): seed 1, fresh directory"""
    bad = []
    groups = {}
    for (p, m, s, h), r in res.items():
        groups.setdefault((p, m), []).append(((s, h), r))
    for (p, m), rows in groups.items():
        ref = next((r[0] for (s, h), r in rows if r[0] is not None and (s, h) == ("1", "fresh")), None) or \
            next((r[0] for (s, h), r in rows if r[0] is not None), None)
        for (s, h), (t, leaks, err, first) in rows:
            here = {"plugin": p, "models": m, "seed": s, "history": h}
            if err:
                bad.append(dict(here, what="generator failed", detail=err[-600:]))
            elif h == "after-other-model" and first == ref:
                bad.append(dict(here, what="vacuous history: the other model list produces the reference tree, nothing is tested"))
            elif t != ref:
                bad.append(dict(here, what="output tree differs from the reference run (seed 1, fresh directory, same model list)", diff=diff_trees(ref, t)))
            elif leaks:
                bad.append(dict(here, what="uuid-shaped string in the output", files=leaks[:5]))
    return bad


def run(chk):
    chk.trusted = V.STD_TRUSTED + [
        "translator lib/x_emit.py: syntactic consumer classification of every set / random id / directory listing in generator/plugins (not a proof that the expression is an instance of its class)",
        "the abstract pipeline LSP.Emit (TypeData as insertion-ordered association list, set consumers, directory as a function) — tied to the plugins only by x_emit and the history stream",
        "CPython dicts iterate in insertion order; sorted() is a function of the multiset of its elements under a total order",
    ]
    chk.assumptions = ["LABEL partial: theorems are about the abstract pipeline; the instance link is syntactic + differential",
                       "the owned part of a directory is what matches the plugin's cleanup pattern or its fixed file names"]
    gen_v = os.path.join(V.GEN, "EmitData.v")
    gen_j = os.path.join(V.GEN, "emit.json")
    broken = []
    info = None
    with V.build_lock():
        p = V.run_py("x_emit.py", [gen_v, gen_j])
        chk.obligation("translate:x_emit", p.returncode == 0, (p.stdout + p.stderr)[-400:])
        if p.returncode == 0:
            info = json.load(open(gen_j))
            prop = V.stage_prop("C16")
            ok, res = V.compile_chain([gen_v, prop], timeout=300)
            names = V.theorems_in(prop)
            out = res[-1][1].text
            if ok:
                for n in names:
                    chk.obligation(n, True)
                chk.assumptions.append("Print Assumptions (C16.v): %d x 'Closed under the global context', axioms: %s"
                                       % (out.count("Closed under the global context"), V.parse_assumptions(out).get("axioms", [])))
            else:
                m = re.search(r'line (\d+)', out)
                bad = None
                if m and len(res) > 1:
                    src = open(prop).read().split("\n")
                    for i in range(min(int(m.group(1)), len(src)) - 1, -1, -1):
                        mm = re.match(r"\s*(?:Theorem|Lemma)\s+([A-Za-z0-9_']+)", src[i])
                        if mm:
                            bad = mm.group(1)
                            break
                reached = True
                for n in names:
                    if n == bad:
                        reached = False
                    chk.obligation(n, reached and n != bad, "" if reached and n != bad else ("coqc failed here" if n == bad else "not reached"))
                exposed = [s for s in info["sites"] if s["class"] == "SExposed"]
                notown = [pl for pl in info["plugins"] if not ((pl["cleanup_first"] or pl["fixed_names"]) and pl["writes_owned"])]
                broken.append(("proof", bad or "C16.v", {"exposed_sites": exposed, "plugins_without_cleanup_or_fixed_names": notown, "coq": out[-400:]}))
        else:
            broken.append(("translator", "x_emit", (p.stdout + p.stderr)[-800:]))
    if info:
        chk.extra["site_classes"] = {k: sum(1 for s in info["sites"] if s["class"] == k) for k in sorted({s["class"] for s in info["sites"]})}
        chk.extra["plugins"] = [{k: pl[k] for k in ("name", "cleanup_first", "fixed_names", "writes_owned", "patterns", "written")} for pl in info["plugins"]]

    jobs = jobs_for(chk.tier, ["4", "5"] if broken else [])      # an obligation broke: look harder for a real difference
    res = run_stream(jobs, workers=10 if chk.tier == "quick" else 6)
    for j, (t, leaks, err, _first) in res.items():
        chk.count(j, nontrivial=t is not None)
    bad = judge(res)
    ntrees = sum(1 for r in res.values() if r[0] is not None)
    chk.obligation("history-stream:real-plugins-byte-identical", not bad,
                   "%d runs-with-history (%s), %d differing" % (ntrees, ", ".join("%s/%s: %d" % (p, m, sum(1 for j in jobs if j[:2] == (p, m)))
                                                                                 for p, m in sorted({j[:2] for j in jobs})), len(bad)))
    for j in [("dotnet", "committed", "2", "after-other-model"), ("python", "extended", "3", "fresh"), ("testdata", "small", "random", "after-other-model")]:
        if j in res and res[j][0] is not None:
            chk.sample({"plugin": j[0], "models": j[1], "seed": j[2], "history": j[3], "files": len(res[j][0]),
                        "tree_digest": hashlib.sha1(json.dumps(res[j][0], sort_keys=True).encode()).hexdigest()[:12]})
    chk.extra["traces_validated_against_impl"] = ntrees
    seeds = sorted({j[2] for j in jobs})

    how = "./check C16 --replay <this file>"
    if bad:
        b = bad[0]
        chk.violation({"property": "C16", "kind": "history", "input": {"plugin": b["plugin"], "models": b["models"], "seed": b["seed"], "history": b["history"]},
                       "expected": "byte-identical output tree for every hash seed and run history", "observed_impl": b,
                       "all_differing": [(x["plugin"], x["models"], x["seed"], x["history"]) for x in bad][:20], "broken": [x[:2] for x in broken], "how_to_replay": how})
    elif broken:
        chk.violation({"property": "C16", "kind": "obligation no longer checks", "broken": [{"what": a, "name": b, "detail": c} for a, b, c in broken],
                       "searched": "%d real plugin runs over seeds %s and histories %s: all output trees byte-identical" % (ntrees, seeds, HISTS)},
                      no_input=True)


def replay(path):
    r = json.load(open(path))
    inp = r.get("input")
    if not inp:
        print("no concrete input recorded:", json.dumps(r.get("broken"))[:2000])
        return 1
    m = inp.get("models", "committed")
    res = run_stream(sorted({(inp["plugin"], m, "1", "fresh"), (inp["plugin"], m, inp["seed"], inp["history"])}), workers=2)
    bad = judge(res)
    if bad:
        print("still fails:", json.dumps(bad[0])[:1500])
        return 1
    print("no longer fails")
    return 0
