"""C12 — LSP integer ranges are enforced exactly at construction and parse time.

proof:   coq/props/C12.v: for ALL ints the translated validators accept exactly the LSP ranges; for ALL values of the
         model universe they return True or raise ValueError naming class+attribute; the converter model's range test
         equals the translated validators; every integer-typed property carries the right validator (instance, exhaustive);
         constructor and converter verdicts coincide with the range test for every such property and every int.
tie:     x_val (AST of validators.py -> Gen/ValData.v), x_mm, x_pkg; correspondence: model `run` vs the real functions on a
         palette of values; boundary grid on the real classes at both entry points
search:  boundary grid {min-1..max+1, ±2^32, ±2^63} + seeded random ints x every integer property x {constructor, converter}
"""
import json
import os
import random
import re

import conv_stream as CS
import mmlib
import vcommon as V

RULE = ("every directly integer/uinteger-typed flattened property x boundary grid + seeded random ints x {constructor (attrs.evolve), converter}; "
        "validators x value palette (None, bools, ints, floats, strs, list, dict, object, enum members); distinct = (class, property, int, entry point)")

I32 = (-2**31, 2**31 - 1)


def palette(rng):
    ints = [I32[0] - 1, I32[0], I32[0] + 1, -1, 0, 1, I32[1] - 1, I32[1], I32[1] + 1, 2**32, -2**32, 2**63, -2**63]
    vals = [["none"], ["bool", True], ["bool", False], ["flt", 1.5], ["flt", -3.0], ["flt", 1e20], ["fltx", "inf"], ["fltx", "-inf"], ["fltx", "nan"], ["str", "1"], ["str", ""], ["list"], ["dict"], ["obj"], ["ienum"], ["senum"]]
    # values that interact with string formatting of the error message (a tuple is what `%` unpacks), bytes, a set-like, a long string
    vals += [["tuple", []], ["tuple", [1, 2]], ["tuple", [7]], ["tuple", ["%s", "%d"]], ["str", "%s %d {0} {x}"], ["str", "X" * 300]]
    vals += [["int", z] for z in ints] + [["int", rng.randrange(-2**40, 2**40)] for _ in range(10)]
    return vals


def want_code(v, lo):
    if v[0] == "int":
        return 0 if lo <= v[1] <= I32[1] else 1
    if v[0] in ("bool", "ienum"):
        return 0       # bool is an int in Python (True/False are 1/0, inside both ranges); an IntEnum member is an int
    return 1


def histories(rng):
    hs = []
    ns = [0, 1, 7, 4242, I32[1], I32[1] + 1, I32[0], I32[0] - 1, -1, rng.randrange(2, 2**31 - 1), rng.randrange(2**31, 2**40)]
    for name in ("integer_validator", "uinteger_validator"):
        for n in ns:
            hs.append((name, [["flt", float(n)], ["int", n]]))           # an equal float first (rejected), then the int
            hs.append((name, [["int", n], ["flt", float(n)], ["int", n]]))   # the int, its float twin, the int again
            hs.append((name, [["int", n], ["int", n]]))
        hs.append((name, [["bool", True], ["int", 1], ["flt", 1.0], ["bool", True]]))
        hs.append((name, [["flt", 1.0], ["bool", True], ["int", 1]]))
        hs.append((name, [["bool", False], ["int", 0], ["flt", 0.0], ["flt", -0.0], ["int", 0]]))
        hs.append((name, [["str", "1"], ["int", 1], ["none"], ["int", 1]]))
        hs.append((name, [["int", I32[1] + 1], ["int", I32[1]], ["int", I32[1] + 1]]))
        hs.append((name, [["int", -1], ["int", 0], ["int", -1], ["flt", -1.0], ["int", -1]]))
    return hs


def cpv(v):
    k = v[0]
    if k == "none":
        return "VNone"
    if k == "bool":
        return "(VBool %s)" % str(v[1]).lower()
    if k == "int":
        return "(VInt (%d))" % v[1]
    if k == "flt":
        n, d = float(v[1]).as_integer_ratio()
        return "(VFlt (%d) (%d))" % (n, d)
    if k == "fltx":
        return None          # non-finite floats have no exact ratio: not run through the model (real code + spec only)
    if k == "str":
        return "(VStr %s)" % V.q(v[1])
    if k == "tuple":
        return "(VTuple [%s])" % "; ".join(cpv(["int", x] if isinstance(x, int) else ["str", x]) for x in v[1])
    if k == "list":
        return "(VList [])"
    if k == "dict":
        return "(VDict [])"
    if k == "obj":
        return '(VObj "Position" [("line", VInt 1); ("character", VInt 2)])'
    if k == "ienum":
        return '(VEnum "SymbolKind" (VInt 1))'
    if k == "senum":
        return '(VEnum "MarkupKind" (VStr "markdown"))'
    raise ValueError(k)


def int_fields(mmv):
    res = []
    for sn in mmv.S:
        if sn == "LSPObject":
            continue
        for pn, p in mmv.flat(sn).items():
            t = p["type"]
            if t["kind"] == "base" and t["name"] in ("integer", "uinteger"):
                res.append((sn, pn, t["name"], bool(p.get("optional"))))
    return res


def run(chk):
    rng = random.Random(chk.seed)
    chk.rule = RULE
    chk.trusted = V.STD_TRUSTED + [
        "translator lib/x_val.py (AST of validators.py, fail-closed grammar) and x_mm/x_pkg",
        "model of Python comparison on numbers (exact rationals), short-circuit and/or, TypeError on ordering a non-number (LSP.Val), validated against the real functions on the value palette",
        "the model universe of 'any argument' is pv (None, bool, int, float, str, list, tuple, dict, attrs object, enum member); exotic objects overriding comparison are outside it",
    ]
    mmv = mmlib.MMView()
    fails = []
    with V.build_lock():
        val_v = os.path.join(V.GEN, "ValData.v")
        p = V.run_py("x_val.py", [val_v])
        chk.obligation("translate:x_val", p.returncode == 0, (p.stdout + p.stderr)[-300:])
        if p.returncode != 0:
            fails.append(("translator", "x_val", (p.stdout + p.stderr)[-1500:]))
        ok, f1 = CS.build_conv(chk)
        fails += f1
        proved = False
        if ok and p.returncode == 0:
            proved, f2 = V.prove(chk, "C12", [val_v])
            fails += f2
        # real runs
        vals = palette(rng)
        grid = [I32[0] - 1, I32[0], I32[0] + 1, -1, 0, 1, I32[1] - 1, I32[1], I32[1] + 1, 2**32, -2**32, 2**63, -2**63] + \
               [rng.randrange(-2**33, 2**33) for _ in range(4 if chk.tier == "quick" else 40)]
        fields = int_fields(mmv)
        pkg = CS.load_pkg(mmv)
        req_fields = []
        for sn, pn, kind, opt in fields:
            if sn not in pkg["classes"]:
                continue
            base = mmv.value(mmlib.ref(sn), 0, 0, 0)
            base[pn] = 1
            req_fields.append({"cls": sn, "attr": None, "wire": pn, "base": base})
        # the converter path also through ENCLOSING structures (a hook on a parent must not repair or widen the range)
        nested = []
        for sn, pn, kind, opt in fields:
            parents = 0
            for s2 in mmv.S:
                if s2 == "LSPObject" or s2 not in pkg["classes"] or parents >= 40:
                    continue
                for p2n, p2 in mmv.flat(s2).items():
                    t2 = p2["type"]
                    arr = t2["kind"] == "array" and t2["element"].get("name") == sn and t2["element"]["kind"] == "reference"
                    if (t2["kind"] == "reference" and t2["name"] == sn) or arr:
                        b2 = mmv.value(mmlib.ref(s2), 0, 0, 0)
                        inner = mmv.value(mmlib.ref(sn), 0, 0, 0)
                        nested.append({"cls": s2, "path": [p2n] + ([0] if arr else []) + [pn], "base": b2, "inner": inner, "arr": arr, "kind": kind, "leaf": (sn, pn)})
                        parents += 1
        chk.extra["nested_paths"] = len(nested)
        pr = V.run_py("r_val.py", input_=json.dumps({"values": vals, "fields": req_fields, "grid": grid, "nested": nested}))
        if pr.returncode != 0:
            raise RuntimeError("r_val failed: " + pr.stderr[-2000:])
        real = json.loads(pr.stdout)
        # correspondence: model run vs real validators
        if p.returncode == 0 and os.path.exists(val_v[:-2] + ".vo"):
            rows = []
            for name in ("integer_validator", "uinteger_validator"):
                for v, code in zip(vals, real["validators"][name]):
                    if cpv(v) is not None:
                        rows.append("(%s, %s, %d%%nat)" % (name, cpv(v), code))
            outs = V.coq_eval("CasesC12", "From LSP Require Import Base Sem Val.\nFrom Gen Require Import ValData.\nOpen Scope string_scope.\n"
                              "Definition code (r : vres) : nat := match r with VTrue => 0 | VRaiseValueError m => if names_class_and_attr m then 1 else 3 | _ => 2 end.\n"
                              "Definition cases := [\n" + ";\n".join(rows) + "].\n",
                              ["map fst (filter (fun p => negb (Nat.eqb (code (run (fst (fst (snd p))) (snd (fst (snd p))))) (snd (snd p)))) (combine (seq 0 (length cases)) cases))"])
            bad = [int(x) for x in re.findall(r"\d+", outs[0].split(":")[0])]
            chk.obligation("correspondence:Val.run-vs-real-validators", not bad, "%d cases, %d disagreements" % (len(rows), len(bad)))
            if bad:
                fails.append(("correspondence", "LSP.Val vs validators.py", json.dumps([rows[i] for i in bad[:5]])))
            chk.extra["traces_validated_against_impl"] = len(rows)
    # search on the real code against the spec
    witness = None
    # (a) histories first: one process per batch, sequences of equal-but-differently-typed values in both orders, repeats, rejected-then-
    #     accepted and accepted-then-rejected neighbours — the verdict for a value must be the same whatever was validated before
    hist = histories(rng)
    ph = V.run_py("r_val.py", input_=json.dumps({"histories": hist}))
    if ph.returncode != 0:
        raise RuntimeError("r_val (histories) failed: " + ph.stderr[-2000:])
    for (name, seq), codes in zip(hist, json.loads(ph.stdout)["histories"]):
        lo = I32[0] if name == "integer_validator" else 0
        for i, (v, code) in enumerate(zip(seq, codes)):
            chk.count((name, "history", json.dumps(seq[:i + 1])))
            want = want_code(v, lo)
            if code != want and witness is None:
                witness = {"validator": name, "value": v, "history": seq[:i], "expected": want, "observed_impl": code,
                           "codes": "0 True, 1 ValueError naming class+attribute, 3 ValueError without names, 2 other",
                           "note": "same process: the history entries are validated first, in order, then the value"}
    chk.extra["validator_histories"] = len(hist)
    for name, lo in (("integer_validator", I32[0]), ("uinteger_validator", 0)):
        for v, code in zip(vals, real["validators"][name]):
            chk.count((name, v))
            if v[0] == "int":
                want = 0 if lo <= v[1] <= I32[1] else 1
            elif v[0] == "bool":
                want = 0       # bool is an int in Python; True/False are 1/0, inside both ranges
            elif v[0] == "ienum":
                want = 0
            else:
                want = 1
            if code != want and witness is None:
                witness = {"validator": name, "value": v, "expected": want, "observed_impl": code, "codes": "0 True, 1 ValueError naming class+attribute, 3 ValueError without names, 2 other"}
    for (sn, pn, kind, opt), f, r in zip([x for x in fields if x[0] in pkg["classes"]], req_fields, real["fields"]):
        if "error" in r:
            continue
        lo = I32[0] if kind == "integer" else 0
        for z, a, b_ in zip(grid, r["ctor"], r["conv"]):
            chk.count((sn, pn, z, "ctor"))
            chk.count((sn, pn, z, "conv"))
            want = 1 if lo <= z <= I32[1] else 0
            if (a != want or b_ != want) and witness is None:
                witness = {"class": sn, "property": pn, "declared": kind, "int": z, "expected_accept": want, "constructor_accepts": a, "converter_accepts": b_, "base": f["base"]}
    for n_, r in zip(nested, real.get("nested", [])):
        lo = I32[0] if n_["kind"] == "integer" else 0
        for z, acc in zip(grid, r):
            chk.count((n_["cls"], tuple(n_["path"]), z, "conv-nested"))
            want = 1 if lo <= z <= I32[1] else 0
            if acc != want and witness is None:
                witness = {"class": n_["cls"], "path": n_["path"], "declared": n_["kind"], "int": z, "expected_accept": want, "converter_accepts": acc,
                           "leaf": list(n_["leaf"]), "base": n_["base"], "inner": n_["inner"], "arr": n_["arr"]}
    chk.sample({"class": "Position", "property": "line", "grid": grid[:9]})
    chk.extra["integer_properties"] = len(fields)
    if witness:
        chk.violation({"property": "C12", "kind": "real code contradicts the range specification", "input": witness, "broken": [x[:2] for x in fails]})
    elif fails:
        chk.violation({"property": "C12", "kind": "obligation no longer checks", "broken": [{"what": a, "name": b, "detail": c} for a, b, c in fails],
                       "searched": "%d (property, int, entry point) triples and %d validator calls on the real code: all as specified" % (2 * len(grid) * len(req_fields), 2 * len(vals))}, no_input=True)


_SNAKE = {}


def snake_attr(cls, wire):
    """attribute name of the real class for a wire name, read from the translated table (pkg data), not recomputed"""
    if not _SNAKE:
        txt = open(os.path.join(V.GEN, "PkgData.v")).read()
        for m in re.finditer(r'Definition c_\w+ : string \* list fld := \("([^"]+)", \[(.*?)\]\)\.', txt, re.S):
            for f in re.finditer(r'fname := "([^"]+)"; fwire := "([^"]+)"', m.group(2)):
                _SNAKE[(m.group(1), f.group(2))] = f.group(1)
    return _SNAKE.get((cls, wire), wire)


def replay(path):
    r = json.load(open(path))
    inp = r.get("input") or {}
    if "validator" in inp and inp.get("history") is not None:
        pr = V.run_py("r_val.py", input_=json.dumps({"histories": [(inp["validator"], list(inp["history"]) + [inp["value"]])]}))
        got = json.loads(pr.stdout)["histories"][0][-1]
        print("after history", inp["history"], "expected", inp["expected"], "observed", got)
        return 1 if got != inp["expected"] else 0
    if "validator" in inp:
        pr = V.run_py("r_val.py", input_=json.dumps({"values": [inp["value"]], "fields": [], "grid": []}))
        got = json.loads(pr.stdout)["validators"][inp["validator"]][0]
        print("expected", inp["expected"], "observed", got)
        return 1 if got != inp["expected"] else 0
    if "class" in inp:
        f = {"cls": inp["class"], "attr": None, "wire": inp["property"], "base": inp["base"]}
        pr = V.run_py("r_val.py", input_=json.dumps({"values": [], "fields": [f], "grid": [inp["int"]]}))
        got = json.loads(pr.stdout)["fields"][0]
        print("expected accept", inp["expected_accept"], "observed", got)
        return 1 if (got.get("ctor") != [inp["expected_accept"]] or got.get("conv") != [inp["expected_accept"]]) else 0
    print("no concrete input recorded")
    return 1
