"""C15 — unknown properties are ignored (forward compatibility).

proof:   coq/props/C15.v (partial): class-level invisibility of fresh keys (generic), hooks probe only declared names and
         extra keys are not forbidden (instance)
tie:     x_mm, x_pkg; extras stream: model = real on every extended input
search:  every valid input of the streams extended with fresh properties at (a) the top node, (b) every protocol-object
         node, (c) one random node, with nested payloads; oracle = the un-extended run (object graph and re-serialisation)
"""
import json
import os
import random

import conv_props as CP
import conv_stream as CS
import mmlib
import vcommon as V

RULE = ("every structure (3 systematic settings), every union site case, seeded random values and messages, each extended with fresh "
        "properties at the top node / at every protocol-object node / at one random node (payloads: scalar, null, nested object, array); "
        "oracle: same object graph and same re-serialisation as the un-extended input; distinct = (target, extended input)")
PAYLOADS = [1, None, "x", {"nested": {"deep": [1, {"k": None}]}}, [{"a": 1}, 2], True, 1.5]
FRESH = ["zzExtraProperty", "x-vendor-extension", "zzExtra2"]


DECLARED = set()


def near_names(pn):
    import re as _re
    sn = _re.sub(r"([a-z0-9])([A-Z])", r"\1_\2", _re.sub(r"(.)([A-Z][a-z]+)", r"\1_\2", pn)).lower()
    out = [sn, pn + "_", pn[:1].upper() + pn[1:], pn.upper(), "_" + pn, pn.lower()]
    return [x for x in out if x != pn]


def near_sibling_names(keys, taken):
    """undeclared names built from the keys that SIBLING alternatives of a union declare (what a dispatching hook may probe): proper
    prefixes / suffixes of length >= 2, two keys run together, a key with a character appended"""
    out = []
    ks = sorted(keys)
    for k in ks:
        out += [k[:i] for i in range(2, len(k))] + [k[i:] for i in range(1, len(k) - 1)] + [k + "s", k + "X"]
    out += [a + b for a in ks for b in ks if a != b][:12]
    return [x for x in dict.fromkeys(out) if x not in taken and x not in DECLARED]


def extend(mmv, t, j, rng, mode, depth=0, sib=()):
    """add fresh properties at object nodes that are matched against structures / literals (not inside LSPAny payloads or maps)"""
    k = t["kind"]
    if k == "reference":
        n = t["name"]
        if n in ("LSPAny", "LSPObject", "LSPArray"):
            return j
        if n in mmv.A:
            return extend(mmv, mmv.A[n]["type"], j, rng, mode, depth, sib)
        if n in mmv.S and isinstance(j, dict):
            ps = mmv.flat(n)
            if not ps:
                return j        # property-less structure: extension point, every key is "declared"
            r = {kk: (extend(mmv, ps[kk]["type"], v, rng, mode, depth + 1) if kk in ps else v) for kk, v in j.items()}
            if mode == "all" or (mode == "top" and depth == 0) or (mode == "one" and rng.random() < 0.3):
                for name in rng.sample(FRESH, rng.choice([1, 2])):
                    r[name] = rng.choice(PAYLOADS)
                # adversarial fresh names: undeclared spellings of a DECLARED property of this very object (snake_case, trailing
                # underscore, other capitalisation), carrying a different valid value of that property's type
                if ps and rng.random() < 0.7:
                    pn = rng.choice(sorted(ps))
                    for cand in near_names(pn):
                        if cand not in ps and cand not in r and cand not in DECLARED:
                            r[cand] = mmv.rand(ps[pn]["type"], rng, 2, 2)
                            break
                # at a union site: undeclared names made from the keys of the SIBLING alternatives (proper substrings, concatenations)
                cands = near_sibling_names(set(sib) - set(ps), set(ps) | set(r)) if sib else []
                for cand in rng.sample(cands, min(len(cands), 3)):
                    r[cand] = rng.choice(PAYLOADS)
                if rng.random() < 0.5:   # extras need not come last
                    items = list(r.items())
                    rng.shuffle(items)
                    r = dict(items)
            return r
        return j
    if k == "array" and isinstance(j, list):
        return [extend(mmv, t["element"], x, rng, mode, depth + 1) for x in j]
    if k == "map" and isinstance(j, dict):
        return {kk: extend(mmv, t["value"], v, rng, mode, depth + 1) for kk, v in j.items()}
    if k == "tuple" and isinstance(j, list):
        return [extend(mmv, a, x, rng, mode, depth + 1) for a, x in zip(t["items"], j)]
    if k == "or":
        # extend under the first alternative whose shape fits (objects: a structure/literal declaring all keys of j)
        sibs = set()
        for a in CP.alts(mmv, t):
            ra = mmv.resolve_alias(a)
            if ra["kind"] == "reference" and ra["name"] in mmv.S:
                sibs |= set(mmv.flat(ra["name"]))
            elif ra["kind"] == "literal":
                sibs |= {p["name"] for p in ra["value"]["properties"]}
        for a in CP.alts(mmv, t):
            if fits(mmv, a, j):
                return extend(mmv, a, j, rng, mode, depth, sibs)
        return j
    if k == "literal" and isinstance(j, dict):
        ps = {p["name"]: p for p in t["value"]["properties"]}
        if not ps:
            return j
        r = {kk: (extend(mmv, ps[kk]["type"], v, rng, mode, depth + 1) if kk in ps else v) for kk, v in j.items()}
        if mode == "all" or (mode == "one" and rng.random() < 0.3):
            r[FRESH[0]] = rng.choice(PAYLOADS)
        return r
    return j


def fits(mmv, a, j):
    a = mmv.resolve_alias(a)
    if a["kind"] == "reference" and a["name"] in mmv.S:
        ps = mmv.flat(a["name"])
        return isinstance(j, dict) and all(k in ps for k in j) and all(n in j for n, p in ps.items() if not p.get("optional"))
    if a["kind"] == "array":
        return isinstance(j, list)
    if a["kind"] == "literal":
        return isinstance(j, dict)
    if a["kind"] == "base":
        return not isinstance(j, (dict, list))
    return False


def target_type(mmv, pkg, c):
    if c["target"] in mmv.S:
        return mmlib.ref(c["target"])
    for kind, r in mmv.messages():
        names = pkg["methods"].get(r["method"]) or []
        if c["target"] == names[0]:
            return {"kind": "literal", "value": {"properties": [{"name": "params", "type": r["params"]}] if "params" in r else []}, "_env": True}
        if len(names) > 1 and c["target"] == names[1]:
            return {"kind": "literal", "value": {"properties": [{"name": "result", "type": r["result"]}]}, "_env": True}
    return None


def run(chk):
    rng = random.Random(chk.seed)
    chk.rule = RULE
    chk.trusted = V.STD_TRUSTED + ["translators x_mm, x_pkg", "converter model LSP.Sem validated by the correspondence stream",
                                   "'fresh' = a name the metamodel declares nowhere (C15.v declared_names)"]
    mmv = mmlib.MMView()
    DECLARED.update({"jsonrpc", "id", "method", "params", "result", "error", "code", "message", "data"})
    for sn in mmv.S:
        DECLARED.update(p["name"] for p in mmv.S[sn]["properties"])
    with V.build_lock():
        ok, fails = CS.build_conv(chk)
        if ok:
            kn = os.path.join(V.GEN, "Known.v")
            pk = V.run_py("x_known.py", [kn])
            chk.obligation("translate:x_known", pk.returncode == 0, (pk.stdout + pk.stderr)[-200:])
            proved, f2 = V.prove(chk, "C15", [kn], extra_props=("Cover",))
            fails += f2
        pkg = CS.load_pkg(mmv)
        base = CP.sys_cases(mmv, pkg) + CP.site_stream(mmv, pkg, shapes=((0, 0), (1, 0), (2, 0), (1, 3))) + CP.rand_cases(mmv, pkg, rng, 1, 1)
        if chk.tier == "quick":
            base = [c for i, c in enumerate(base) if c["kind"] != "valid-sys" or i % 3 != 0]
        pairs = []
        for c in base:
            t = target_type(mmv, pkg, c)
            if t is None:
                continue
            for mode in (("top", "all") if chk.tier == "quick" else ("top", "all", "one", "one")):
                if t.get("_env"):
                    # envelope: extend inside params/result and at the envelope itself
                    j = dict(c["input"])
                    for p in t["value"]["properties"]:
                        if p["name"] in j:
                            j[p["name"]] = extend(mmv, p["type"], j[p["name"]], rng, mode, 1)
                    if mode in ("top", "all"):
                        j[FRESH[0]] = rng.choice(PAYLOADS)
                else:
                    j = extend(mmv, t, c["input"], rng, mode)
                if j != c["input"]:
                    pairs.append((c, {"target": c["target"], "input": j, "kind": "extras-" + mode}))
        cases = [p[1] for p in pairs]
        plain = [dict(p[0], mmty=None) for p in pairs]
        verdict, real = CS.run_cases(cases, "C15", model=ok)
        _, real0 = CS.run_cases(plain, "C15b", model=False)
    nbad = sum(1 for v in verdict if v)
    chk.obligation("correspondence:Sem-vs-real-converter(extras)", ok and nbad == 0, "%d cases, %d disagreements" % (len(cases), nbad))
    chk.extra["traces_validated_against_impl"] = len(cases)
    if nbad:
        i = [k for k, v in enumerate(verdict) if v][0]
        fails.append(("correspondence", "LSP.Sem vs converter", json.dumps({"case": cases[i], "code": verdict[i]})[:1500]))
    witness = None
    dist = {}
    for (c0, c1), r0, r1 in zip(pairs, real0, real):
        chk.count((c1["target"], json.dumps(c1["input"], sort_keys=True)))
        dist[c1["kind"]] = dist.get(c1["kind"], 0) + 1
        if not r0["ok"]:
            continue    # the un-extended input is not parsed (a C14/C01 matter): nothing to compare
        if not r1["ok"]:
            witness = witness or {"target": c1["target"], "json": c1["input"], "base": c0["input"], "observed": "structuring raises %s: %s" % (r1.get("err"), r1.get("msg"))}
        elif r1["dump"] != r0["dump"] or r1.get("unstr") != r0.get("unstr"):
            witness = witness or {"target": c1["target"], "json": c1["input"], "base": c0["input"], "observed": "structured result or re-serialisation differs from the un-extended run"}
    chk.extra["input_distribution"] = dist
    if cases:
        chk.sample({"target": cases[0]["target"], "input": cases[0]["input"]})
    if witness:
        chk.violation({"property": "C15", "kind": "an undeclared property changes the result", "input": witness, "broken": [x[:2] for x in fails]})
    elif fails:
        chk.violation({"property": "C15", "kind": "obligation no longer checks", "broken": [{"what": a, "name": b, "detail": c} for a, b, c in fails],
                       "searched": "%d extended inputs on the real converter: results equal to the un-extended runs" % len(cases)}, no_input=True)


def replay(path):
    r = json.load(open(path))
    inp = r.get("input")
    if not inp:
        print("no concrete input recorded")
        return 1
    a, b = CS.real_run([{"target": inp["target"], "input": inp["json"]}, {"target": inp["target"], "input": inp["base"]}])["results"]
    bad = (not a["ok"]) or a.get("dump") != b.get("dump") or a.get("unstr") != b.get("unstr")
    print("still differs" if bad else "no longer differs")
    return 1 if bad else 0
