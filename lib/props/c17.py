"""C17 — every generated test vector is labelled with its true metamodel validity.

proof:     coq/ValidB.v (valid_b / valid_d decide MM.valid, every metamodel), coq/Strict.v (message envelopes: msg_valid,
           msg_valid_b, msg_valid_d, vector_code), coq/props/C17.v (instantiated on the metamodel regenerated from lsp.json:
           mm_wf by vm_compute, non-vacuity examples, Print Assumptions)
tie:       the testdata plugin of the tree under check is RUN (scratch dir, deleted on exit); each selected vector is printed
           as a Coq term and the verified checker is evaluated on it inside Coq (CasesC17_*.v, vm_compute, parallel shards);
           label <> verdict  =>  VIOLATION with the vector as replay
           quick   : seeded sample stratified over (class, label), plus every vector the Python reference flags (candidates)
           thorough: all vectors
cross:     an independent Python reference of the same reading (x_vectors.Ref) is evaluated on every vector; checker and
           reference disagreeing is reported as a framework problem, not as a repository violation
history:   the output directory's prior content is part of a run: lib/c17_history.py builds small sub-models of the committed
           lsp.json (a few methods and what they reach), runs the real command line for m0 into a directory D, evolves the model
           (an enumeration gains / loses supportsCustomValues - chosen so that bodies the plugin really emits keep their bytes and
           change validity; a method is dropped / added; thorough: a property becomes required / optional, there-and-back), runs
           the plugin for m1 into the SAME D and into a fresh F; D must equal F (file set and bytes) and every file of D must carry
           its validity under m1 - judged by the same verified checker against the metamodel translated from m1 (mm_wf re-proved)
also:      file-name format; coverage (every message class of the metamodel has a True vector: C17Cover.v, kernel-checked);
           every selected True vector is accepted by the real converter (r_vectors.py, as tests/python/test_generated_data.py)
"""
import collections
import json
import os
import random
import re
import time

import c17_history as H
import vcommon as V
import x_vectors as X

RULE = ("vectors = the files the testdata plugin writes for the current tree; quick: up to 10 per (message class, label) stratum "
        "(328 strata, seeded) evaluated by the verified checker in Coq, plus every vector on which the Python reference "
        "contradicts the label; thorough: every vector in Coq; distinct = distinct file (class, label, content hash); "
        "each is a full JSON-RPC message, non-trivial by construction (envelope + payload of the class). "
        "History stream: seeded sub-models (1 target method whose vectors contain an enumeration's custom value + 1-2 bystander methods, "
        "with everything they reach) x evolutions (enum-open / enum-close selected so that >= 1 emitted body keeps its bytes and flips "
        "validity, bystander dropped / added; thorough also property required / optional and m0,m1,m0): the plugin is re-run into the "
        "directory populated for the previous model; every file then on disk is compared with a fresh-directory run (names and bytes) "
        "and judged by the verified checker under the evolved metamodel (quick: differing / flipped / new files first, then a "
        "stratified sample, up to 600 per step; thorough: all); distinct = (history, step, file)")

SHARD = 300
PER_STRATUM = 10
MAX_REPORT = 6
MAX_CANDIDATES = 900
CODE_TEXT = {0: "label agrees", 1: "labelled True but NOT a valid instance", 2: "labelled False but IS a valid instance",
             3: "fuel exhausted", 4: "class unknown to the metamodel"}


def theorem_at(prop_path, out):
    m = re.search(r"\(in proof ([A-Za-z0-9_']+)\)", out)
    if m:
        return m.group(1)
    m = re.search(r"line (\d+)", out)
    if m:
        ln = int(m.group(1))
        txt = open(prop_path).read().split("\n")
        for i in range(min(ln, len(txt)) - 1, -1, -1):
            mm_ = re.match(r"\s*(?:Theorem|Lemma|Example|Corollary)\s+([A-Za-z0-9_']+)", txt[i])
            if mm_:
                return mm_.group(1)
    return None


NAMING_ORACLE = ("import json, sys\nimport lsprotocol.types as t\nms = json.load(sys.stdin)\n"
                 "print(json.dumps({m: t.METHOD_TO_TYPES[m][0].__name__ for m in ms if m in t.METHOD_TO_TYPES}))\n")


def named_model(chk=None):
    """(path of the model the vectors are judged against, its document, naming table or None).
    C17 speaks of <MessageClass>; for a request / notification WITHOUT typeName the metamodel does not say what that class is called.
    Pinned reading: it is the class the generated Python package of the same tree registers for the method (METHOD_TO_TYPES — the
    catalogue C09 ties to the metamodel — is the naming oracle; no camel-casing function is re-implemented here, as for .NET in
    Dotnet.v and for Rust in Rust.v).  The vectors are then judged against the NAMED TWIN of the model: the same document with
    typeName := that class name for exactly the entries that lack one (typeName is read by Strict.msg_classes only, so payload
    validity is untouched).  A method the catalogue does not know stays unnamed and is reported as before."""
    import subprocess
    src = os.path.join(V.REPO, "generator", "lsp.json")
    doc = json.load(open(src))
    un = [e["method"] for e in doc["requests"] + doc["notifications"] if not e.get("typeName")]
    if not un:
        return src, doc, None
    p = subprocess.run([V.PY, "-B", "-c", NAMING_ORACLE], input=json.dumps(un), capture_output=True, text=True, timeout=600, env=V.repo_env())
    table = {}
    if p.returncode == 0:
        try:
            table = json.loads(p.stdout.strip().split("\n")[-1])
        except Exception:
            table = {}
    if chk:
        chk.obligation("naming-oracle:python-catalogue", p.returncode == 0 and all(m in table for m in un),
                       "%d entries without typeName, %d named by METHOD_TO_TYPES; %s" % (len(un), len(table), (p.stderr or "")[-200:]))
        chk.extra["classes_named_by_python_catalogue"] = table
    for e in doc["requests"] + doc["notifications"]:
        if not e.get("typeName") and e["method"] in table:
            e["typeName"] = table[e["method"]]
    os.makedirs(V.GEN, exist_ok=True)
    twin = os.path.join(V.GEN, "C17NamedModel.json")
    with open(twin, "w") as f:
        json.dump(doc, f)
    return twin, doc, table


TWIN_V = r"""(* generated by lib/props/c17.py: the metamodel the vectors are judged against (Gen.MMData, translated from the named twin) IS the
   metamodel of the model file (Gen.C17Orig) with typeNames filled in — kernel-checked, so LSP.Naming applies to this run *)
From LSP Require Import Base MM ValidB Strict Naming.
Require Gen.MMData Gen.C17Orig.
Open Scope string_scope.
Definition twin := MMData.mm.
Definition orig := C17Orig.mm.
Lemma twin_is_retabled : twin = retable orig (requests twin) (notifications twin).
Proof. vm_compute. reflexivity. Qed.
Lemma twin_entries_differ_in_typeName_only :
  map (fun r => name_request r None) (requests twin) = map (fun r => name_request r None) (requests orig)
  /\ map (fun n => name_notification n None) (notifications twin) = map (fun n => name_notification n None) (notifications orig).
Proof. split; vm_compute; reflexivity. Qed.
Lemma orig_wf : mm_wf orig = true.
Proof. vm_compute. reflexivity. Qed.
Theorem twin_same_validity : forall t j, valid orig t j <-> valid twin t j.
Proof. intros t j. rewrite twin_is_retabled. apply valid_retable. exact orig_wf. Qed.
Theorem twin_same_message_validity : forall k tn j, msg_valid orig k j <-> msg_valid twin (name_msg k tn) j.
Proof. intros k tn j. rewrite twin_is_retabled. apply msg_valid_named. exact orig_wf. Qed.
Print Assumptions twin_is_retabled.
Print Assumptions twin_entries_differ_in_typeName_only.
Print Assumptions twin_same_validity.
Print Assumptions twin_same_message_validity.
"""


def twin_lemmas(chk):
    """evolved models with un-named messages only: translate the model file itself as well (Gen/C17Orig.v) and check, in the kernel, that the
    named twin differs from it in typeNames only, so that LSP.Naming.msg_valid_named applies (validity judged against the twin = validity
    under the model file)."""
    failed = []
    orig_v = os.path.join(V.GEN, "C17Orig.v")
    p = V.run_py("x_mm.py", [os.path.join(V.REPO, "generator", "lsp.json"), orig_v])
    if p.returncode != 0:
        chk.obligation("translate:x_mm(orig)", False, (p.stdout + p.stderr)[-300:])
        return [("translator", "x_mm", (p.stdout + p.stderr)[-1500:])]
    with V.build_lock():
        V.ensure_theory()
        r = V.coqc(orig_v)
        if not r.ok:
            return [("coqc", "C17Orig.v", r.text[-1500:])]
        f = os.path.join(V.PROPS_OUT, "C17Twin.v")
        V.write_if_changed(f, TWIN_V)
        r = V.coqc(f)
    names = V.theorems_in(f)
    for n in names:
        chk.obligation("C17Twin." + n, r.ok, "" if r.ok else r.text[-300:])
    if not r.ok:
        failed.append(("proof", "C17Twin.v", r.text[-1500:]))
    elif V.parse_assumptions(r.text).get("axioms"):
        failed.append(("proof", "axioms", str(V.parse_assumptions(r.text)["axioms"])[:1500]))
    return failed


def build(chk, model_path=None):
    """x_mm + MMData.v + props/C17.v. Returns (mmdata_ok, failed list)."""
    failed = []
    mm_v = os.path.join(V.GEN, "MMData.v")
    p = V.run_py("x_mm.py", [model_path or os.path.join(V.REPO, "generator", "lsp.json"), mm_v])
    if chk:
        chk.obligation("translate:x_mm", p.returncode == 0, (p.stdout + p.stderr)[-300:])
    if p.returncode != 0:
        failed.append(("translator", "x_mm", (p.stdout + p.stderr)[-1500:]))
        return False, failed
    r = V.coqc(mm_v)
    if not r.ok:
        failed.append(("coqc", "MMData.v", r.text[-1500:]))
        return False, failed
    prop = V.stage_prop("C17")
    r = V.coqc(prop)
    names = V.theorems_in(prop)
    if r.ok:
        if chk:
            for n in names:
                chk.obligation(n, True)
            chk.assumptions.append("Print Assumptions: %d of %d statements 'Closed under the global context'; axioms: %s"
                                   % (r.text.count("Closed under the global context"), len(names), V.parse_assumptions(r.text).get("axioms", [])))
        if V.parse_assumptions(r.text).get("axioms"):
            failed.append(("proof", "axioms", str(V.parse_assumptions(r.text)["axioms"])[:1500]))
    else:
        bad = theorem_at(prop, r.text)
        if chk:
            for n in names:
                chk.obligation(n, False, "coqc failed here" if n == bad else "not re-checked (file did not compile)")
        failed.append(("proof", bad or "C17.v", r.text[-1500:]))
    return True, failed


def cover(true_classes, all_classes):
    """Coverage lemma on the real file list, inside Coq. Returns dict(missing, unknown, expected, n, unnamed, nodup, proved)."""
    f = os.path.join(V.PROPS_OUT, "C17Cover.v")
    lst = lambda xs: "[%s]" % "; ".join(V.q(x) for x in xs)
    V.write_if_changed(f, X.HDR
                       + "Definition true_classes : list string := %s.\n" % lst(sorted(true_classes))
                       + "Definition all_classes : list string := %s.\n" % lst(sorted(all_classes))
                       + "Definition expected : list string := map fst (msg_classes mm).\n"
                       + "Eval vm_compute in (filter (fun c => negb (mem c true_classes)) expected).\n"
                       + "Eval vm_compute in (filter (fun c => negb (mem c expected)) all_classes).\n"
                       + "Eval vm_compute in expected.\n"
                       + "Eval vm_compute in (length expected, unnamed_entries mm, nodupb expected).\n"
                       + "(* every request, response and notification class of the metamodel has a vector labelled True that the verified checker accepts *)\n"
                       + "Lemma C17_coverage : forallb (fun c => mem c true_classes) expected = true.\nProof. vm_compute. reflexivity. Qed.\n")
    r = V.coqc(f)
    blocks = re.findall(r"=\s*(.*?)\n\s*:\s*(list string|nat \* nat \* bool)", r.out, re.S)
    if len(blocks) < 4:
        raise RuntimeError("C17Cover.v: unexpected output: " + r.text[-1500:])
    strs = lambda b: re.findall(r'"([^"]*)"', b)
    m = re.search(r"\(\s*(\d+)\s*,\s*(\d+)\s*,\s*(true|false)\s*\)", blocks[3][0])
    return {"missing": strs(blocks[0][0]), "unknown": strs(blocks[1][0]), "expected": strs(blocks[2][0]),
            "n": int(m.group(1)), "unnamed": int(m.group(2)), "nodup": m.group(3) == "true", "proved": r.ok, "text": r.text[-800:]}


def accept_real(vdir, files, parts=8):
    """[(accepted, error)] by the real converter, for file names in vdir."""
    if not files:
        return []
    import concurrent.futures
    size = max(1, (len(files) + parts - 1) // parts)
    chunks = [files[i:i + size] for i in range(0, len(files), size)]

    def one(ch):
        p = V.run_py("r_vectors.py", input_=json.dumps({"dir": vdir, "files": ch}), timeout=3600)
        if p.returncode != 0:
            raise RuntimeError("r_vectors failed: " + p.stderr[-2000:])
        return json.loads(p.stdout)["results"]
    with concurrent.futures.ThreadPoolExecutor(len(chunks)) as ex:
        res = list(ex.map(one, chunks))
    return [x for r in res for x in r]


def plain(j):
    """replay-file form of a vector's content (duplicate-key objects keep their pairs)"""
    if isinstance(j, X.Dup):
        return {"$duplicate_keys": [[k, plain(v)] for k, v in j.pairs]}
    if isinstance(j, dict):
        return {k: plain(v) for k, v in j.items()}
    if isinstance(j, list):
        return [plain(x) for x in j]
    return j


def select_quick(entries, seed):
    rng = random.Random(seed)
    strata = collections.defaultdict(list)
    for i, (fn, cls, lab) in enumerate(entries):
        strata[(cls, lab)].append(i)
    sel = []
    for key in sorted(strata):
        idx = strata[key]
        sel += idx if len(idx) <= PER_STRATUM else rng.sample(idx, PER_STRATUM)
    return sorted(sel), len(strata)


def run(chk):
    t_start = time.time()
    chk.trusted = V.STD_TRUSTED + [
        "translator lib/x_mm.py (lsp.json -> Gen/MMData.v)",
        "lib/x_vectors.py: file name parsing and the printer JSON value -> Coq `json` term (cj_tab); json.loads of CPython for reading a vector",
        "specification choices of coq/MM.v (valid) and coq/Strict.v (msg_valid): the pinned strict reading of DESIGN.md C17",
        "class naming rule of Strict.msg_classes (typeName with Request/Response/Notification suffix), cross-checked against the Python reference's table; "
        "for an entry WITHOUT typeName (evolved models only) the class is the one the tree's Python catalogue METHOD_TO_TYPES registers for the method (named_model)",
        "`Eval vm_compute` output of coqc is read for the list of disagreeing vectors (shards where nothing disagrees additionally carry the kernel-checked lemma shard_agrees)",
        "lib/r_vectors.py runs the real converter exactly as tests/python/test_generated_data.py does",
        "lib/c17_history.py: construction of the sub-models / evolved models from lsp.json (restriction to methods and their reachable "
        "declarations, the edit operations), the directory comparison, and lib/x_mm.py on each evolved model",
    ]
    chk.assumptions = ["quantifier: the vectors emitted by the testdata plugin for the committed metamodel; quick tier evaluates a stratified "
                       "sample in Coq and all vectors by the (unverified) Python reference, thorough evaluates all in Coq",
                       "no extraction: the checker runs inside Coq (vm_compute)",
                       "histories: the prior state of the output directory is what the plugin itself wrote for an earlier (sub-)model of lsp.json, "
                       "2 two-step histories in the quick tier, 9 (two- and three-step) in the thorough tier; other prior states (foreign files, "
                       "hand-edited vectors) are not exercised"]
    chk.rule = RULE
    timings = {}
    failed = []
    model_path, model_doc, naming = named_model(chk)
    with V.build_lock():
        t0 = time.time()
        mm_ok, failed = build(chk, model_path)
        timings["build_s"] = round(time.time() - t0, 1)
    if naming is not None and mm_ok:
        failed += twin_lemmas(chk)
    try:
        run_judged(chk, t_start, timings, mm_ok, failed, model_doc, model_path if naming is not None else None)
    finally:
        if naming is not None:
            # Gen/MMData.v is shared by the checks of this tree: put the translation of the model file itself back
            with V.build_lock():
                V.run_py("x_mm.py", [os.path.join(V.REPO, "generator", "lsp.json"), os.path.join(V.GEN, "MMData.v")])


def run_judged(chk, t_start, timings, mm_ok, failed, model_doc, twin_path):
    if not mm_ok:
        chk.violation({"property": "C17", "kind": "obligation no longer checks", "broken": [{"what": a, "name": b, "detail": c} for a, b, c in failed]},
                      no_input=True)
        return

    from mmlib import MMView
    ref = X.Ref(MMView(doc=model_doc))
    reported = [0]
    suppressed = collections.Counter()
    opens, _fixed = V.known_findings("C17")
    known_keys = {o["key"]: o for o in opens}

    def report(obj, key=None, no_input=False):
        if key is not None and key in known_keys:
            chk.known(known_keys[key]["text"] + " (key=%s, re-confirmed on this run)" % key)
            return
        if reported[0] >= MAX_REPORT:
            suppressed[obj.get("kind")] += 1
            return
        reported[0] += 1
        obj.setdefault("property", "C17")
        obj.setdefault("how_to_replay", "./check C17 --replay <this file>  (re-runs the testdata plugin and re-judges this vector)")
        chk.violation(obj, no_input=no_input)

    with V.scratch("verif-c17-") as vdir:
        t0 = time.time()
        rc, log, secs = X.generate(vdir)
        timings["plugin_s"] = round(time.time() - t0, 1)
        chk.obligation("run:testdata-plugin", rc == 0, log[-300:] if rc else "%.0f s" % secs)
        if rc != 0:
            report({"kind": "the testdata plugin failed; no vectors to judge", "log": log}, no_input=True)
            return
        names = sorted(os.listdir(vdir))
        entries, badnames = [], []
        for fn in names:
            pn = X.parse_name(fn)
            if pn is None:
                badnames.append(fn)
            else:
                entries.append((fn, pn[0], pn[1]))
        chk.obligation("format:file-names", not badnames, "%d files, %d not of the form <MessageClass>-<True|False>-<hash>.json" % (len(names), len(badnames)))
        for fn in badnames:
            report({"kind": "file name is not <MessageClass>-<True|False>-<hash>.json", "file": fn})
        chk.obligation("vectors:non-empty", bool(entries), "%d vectors" % len(entries))
        if not entries:
            report({"kind": "the testdata plugin wrote no vector", "files": names[:20]}, no_input=True)
            return

        # ---- which vectors go through the verified checker
        t0 = time.time()
        ref_why = {}
        if chk.tier == "quick":
            sel, n_strata = select_quick(entries, chk.seed)
            scans = X.run_parallel(X.scan_shard, [(vdir, ch) for ch in X.chunks(entries, 2500)])
            flat = [w for s in scans for w in s]
            for i, w in enumerate(flat):
                ref_why[i] = w
            cands = [i for i, (fn, cls, lab) in enumerate(entries) if (flat[i] is None) != lab]
            n_cands = len(cands)
            sel = sorted(set(sel) | set(cands[:MAX_CANDIDATES]))
            timings["reference_scan_s"] = round(time.time() - t0, 1)
        else:
            sel = list(range(len(entries)))
            n_strata = len({(c, l) for _, c, l in entries})
            n_cands = None

        # ---- the verified checker, inside Coq
        t0 = time.time()
        tasks = []
        for k, ch in enumerate(X.chunks(sel, SHARD)):
            tasks.append(("CasesC17_%d" % k, k * SHARD, vdir, [entries[i] for i in ch], False) + ((("MMData", twin_path),) if twin_path else ()))
        results = X.run_parallel(X.eval_shard, tasks)
        timings["coq_eval_s"] = round(time.time() - t0, 1)
        code = {}
        proved = 0
        for k, res in enumerate(results):
            ch = sel[k * SHARD:(k + 1) * SHARD]
            proved += 1 if res["proved"] else 0
            for off, i in enumerate(ch):
                code[i] = res["codes"].get(k * SHARD + off, 0)
                ref_why[i] = res["ref"][off]
        chk.extra["shards"] = len(tasks)
        chk.extra["shards_with_kernel_checked_lemma"] = proved

        # ---- judge
        stats = collections.Counter()
        framework = []
        mislabelled = []
        true_ok_classes = set()
        for i in sel:
            fn, cls, lab = entries[i]
            c = code[i]
            w = ref_why[i]
            ref_valid = w is None
            chk.count(fn)
            stats[(lab, c)] += 1
            if c == 0:
                if lab:
                    true_ok_classes.add(cls)
                if ref_valid != lab:
                    framework.append((i, "verified checker agrees with the label, Python reference does not (%s)" % (w or "reference says valid")))
            elif c in (1, 2):
                if ref_valid == lab:
                    framework.append((i, "verified checker contradicts the label (%s), Python reference agrees with the label" % CODE_TEXT[c]))
                else:
                    mislabelled.append(i)
            elif c == 3:
                framework.append((i, "fuel %d exhausted in the verified checker" % X.FUEL))
            else:
                if cls in ref.byname:
                    framework.append((i, "class known to the Python reference but not to Strict.msg_classes"))
                else:
                    mislabelled.append(i)
        if chk.tier == "quick":
            # candidates beyond the cap were not evaluated in Coq: they are still reported (as unconfirmed) below
            extra_c = [i for i in range(len(entries)) if i not in code and (ref_why[i] is None) != entries[i][2]]
        else:
            extra_c = []
        agree = sum(v for (lab, c), v in stats.items() if c == 0)
        chk.obligation("labels:verified-checker-vs-file-name", not mislabelled and not extra_c,
                       "%d vectors evaluated in Coq, %d agree, %d mislabelled%s" % (len(sel), agree, len(mislabelled),
                                                                                  (", %d more flagged by the reference only" % len(extra_c)) if extra_c else ""))
        chk.obligation("cross-check:checker-vs-python-reference", not framework, "%d disagreements" % len(framework))
        for i in mislabelled:
            fn, cls, lab = entries[i]
            j = X.load_json(os.path.join(vdir, fn))
            report({"kind": "mislabelled test vector", "file": fn, "class": cls, "label": lab, "content": plain(j),
                    "checker_verdict": {1: "invalid", 2: "valid", 4: "class is not a message class of the metamodel"}[code[i]],
                    "checker_code": code[i], "checker_code_meaning": CODE_TEXT[code[i]],
                    "failing_clause": ref_why[i] or "none: every clause of the strict reading holds (the content is valid)",
                    "reference_verdict": "valid" if ref_why[i] is None else "invalid",
                    "expected": "label == validity of the content for the class (Strict.msg_valid), certified by C17_code_mislabelled",
                    "total_mislabelled_in_this_run": len(mislabelled)}, key=fn[:-5])
        for i in extra_c[:2]:
            fn, cls, lab = entries[i]
            report({"kind": "mislabelled test vector (flagged by the Python reference; beyond the quick tier's cap for evaluation in Coq)",
                    "file": fn, "class": cls, "label": lab, "content": plain(X.load_json(os.path.join(vdir, fn))),
                    "failing_clause": ref_why[i] or "none (content is valid)", "candidates_total": n_cands}, key=fn[:-5])
        for i, what in framework[:3]:
            fn, cls, lab = entries[i]
            report({"kind": "framework problem: verified checker and Python reference disagree (NOT a repository violation by itself)",
                    "what": what, "file": fn, "class": cls, "label": lab, "content": plain(X.load_json(os.path.join(vdir, fn))),
                    "checker_code": code[i], "reference_clause": ref_why[i]}, no_input=True)

        # ---- coverage: every message class has a True vector (that the verified checker accepted)
        t0 = time.time()
        all_classes = {c for _, c, _ in entries}
        cv = cover(true_ok_classes, all_classes)
        timings["cover_s"] = round(time.time() - t0, 1)
        chk.obligation("C17_coverage", cv["proved"] and not cv["missing"], "%d message classes, %d without a verified True vector" % (cv["n"], len(cv["missing"])))
        chk.obligation("classes:file-names-within-metamodel", not cv["unknown"], "%d unknown" % len(cv["unknown"]))
        same_table = sorted(cv["expected"]) == sorted(ref.byname) and cv["unnamed"] == 0 and not ref.unnamed and cv["nodup"]
        chk.obligation("classes:Strict.msg_classes == reference table", same_table,
                       "%d classes; unnamed entries: %d" % (cv["n"], cv["unnamed"]))
        if not same_table:
            report({"kind": "framework problem: class table of Strict.msg_classes differs from the Python reference's, or an entry has no typeName "
                            "(class naming of name-less entries is not modelled)",
                    "coq_only": sorted(set(cv["expected"]) - set(ref.byname)), "reference_only": sorted(set(ref.byname) - set(cv["expected"])),
                    "unnamed": ref.unnamed}, no_input=True)
        label_true = collections.Counter(c for _, c, l in entries if l)
        for cls in cv["missing"]:
            files_of = [fn for fn, c, _ in entries if c == cls]
            why_first = None
            for fn, c, l in entries:
                if c == cls and l:
                    why_first = fn
                    break
            report({"kind": "message class without a True vector", "class": cls, "vectors_of_class": len(files_of),
                    "labelled_True": label_true.get(cls, 0),
                    "note": "no file <class>-True-*.json whose content the verified checker accepts" + ("; first True-labelled file: %s" % why_first if why_first else ""),
                    "example_files": files_of[:5]}, key="no-true-vector:" + cls)
        for cls in cv["unknown"]:
            files_of = [fn for fn, c, _ in entries if c == cls]
            if not any(entries[i][1] == cls for i in mislabelled):
                report({"kind": "file name names a class that is not a request/response/notification class of the metamodel", "class": cls,
                        "example_files": files_of[:5]})

        # ---- every (selected) True vector is accepted by the real converter
        t0 = time.time()
        true_sel = [entries[i][0] for i in sel if entries[i][2]]
        acc = accept_real(vdir, true_sel)
        timings["converter_s"] = round(time.time() - t0, 1)
        rejected = [(fn, e) for fn, (ok, e) in zip(true_sel, acc) if not ok]
        chk.obligation("acceptance:True-vectors-by-real-converter", not rejected, "%d True vectors structured, %d rejected" % (len(true_sel), len(rejected)))
        mis_files = {entries[i][0] for i in mislabelled}
        idx_of = {entries[i][0]: i for i in sel}
        for fn, e in rejected:
            if fn in mis_files:
                continue        # already reported as mislabelled (the rejection is the consequence)
            pn = X.parse_name(fn)
            report({"kind": "True vector rejected by the real Python converter", "file": fn, "class": pn[0], "label": True,
                    "content": plain(X.load_json(os.path.join(vdir, fn))), "observed_impl": e,
                    "checker_verdict": CODE_TEXT[code[idx_of[fn]]], "reference_verdict": ref_why[idx_of[fn]] or "valid",
                    "expected": "converter.structure(json, lsprotocol.types.<class>) succeeds"}, key="rejected:" + fn[:-5])

        # ---- history stream: the plugin re-run into the directory of an earlier metamodel
        t0 = time.time()
        history_stream(chk, report, names, vdir)
        timings["history_s"] = round(time.time() - t0, 1)

        # evidence
        for i in sel[:: max(1, len(sel) // 5)][:5]:
            fn, cls, lab = entries[i]
            chk.sample({"file": fn, "class": cls, "label": lab, "checker_code": code[i], "reference": ref_why[i] or "valid"})
        chk.extra["vectors_emitted"] = len(entries)
        chk.extra["labels_emitted"] = {"True": sum(1 for e in entries if e[2]), "False": sum(1 for e in entries if not e[2])}
        chk.extra["vectors_evaluated_in_coq"] = len(sel)
        chk.extra["strata"] = n_strata
        chk.extra["verdicts"] = {"%s/%s" % (lab, CODE_TEXT[c]): v for (lab, c), v in sorted(stats.items())}
        chk.extra["reference_candidates"] = n_cands
        chk.extra["true_vectors_structured_by_real_converter"] = len(true_sel)
        chk.extra["traces_validated_against_impl"] = len(true_sel)
        chk.extra["message_classes"] = cv["n"]
        chk.extra["suppressed_reports"] = dict(suppressed)
        chk.exhaustive = (chk.tier == "thorough")

    if failed and not chk.violations:
        chk.violation({"property": "C17", "kind": "obligation no longer checks", "broken": [{"what": a, "name": b, "detail": c} for a, b, c in failed],
                       "searched": "%d vectors of the current tree judged by the verified checker: no label disagrees" % len(sel)}, no_input=True)
    timings["total_s"] = round(time.time() - t_start, 1)
    chk.extra["timings"] = timings


def history_stream(chk, report, names, vdir):
    doc = json.load(open(os.path.join(V.REPO, "generator", "lsp.json")))
    hists = H.plan(doc, names, vdir, chk.seed, chk.tier)
    chk.obligation("history:plan", bool(hists), "%d histories" % len(hists))
    if not hists:
        return
    res = H.run_all(hists, doc, chk.seed, "", H.MAX_EVAL_QUICK if chk.tier == "quick" else H.MAX_EVAL)
    summary = []
    flipping = 0
    for r in res:
        for name, ok, note in r["obligations"]:
            chk.obligation(name, ok, note)
        for key in r.get("judged", []):
            chk.count(("history",) + tuple(key))
        steps = r["steps"]
        real = [p for p in r["problems"] if not p.get("framework")]
        order = {"history: mislabelled": 0, "history: the testdata": 0, "history: stale": 1, "history: vector": 2, "history: file content": 3, "history: file name": 4}
        real.sort(key=lambda p: min([v for k, v in order.items() if p["kind"].startswith(k)] or [9]))
        clean = not real and all(s.get("stale", 0) == 0 and s.get("missing", 0) == 0 and s.get("differing", 0) == 0 for s in steps)
        flips_seen = sum(s.get("same_body_other_label", 0) for s in steps)
        flipping += 1 if flips_seen else 0
        chk.obligation("history:%s" % r["name"], clean,
                       "; ".join("step %d: %d files on disk = fresh run: %s, %d judged in Coq, %d agree, %d bodies kept with the other label, %d gone, %d new"
                                 % (s["step"], s.get("files_on_disk", 0), s.get("stale", 0) + s.get("missing", 0) + s.get("differing", 0) == 0,
                                    s.get("judged_in_coq", 0), s.get("label_agrees", 0), s.get("same_body_other_label", 0), s.get("files_gone", 0), s.get("files_new", 0))
                                 for s in steps if s["step"] > 0))
        if real:        # the first mislabelled / stale / missing file of the history is the replay
            p = dict(real[0])
            p["other_problems_in_this_history"] = [{"kind": q["kind"], "file": q.get("file"), "count": q.get("count")} for q in real[1:6]]
            p["directory_after_failing_step"] = next((s for s in steps if s["step"] == p.get("failing_step")), None)
            report(p)
        for p in [p for p in r["problems"] if p.get("framework")][:2]:
            q = {k: v for k, v in p.items() if k != "framework"}
            report(q, no_input=True)
        summary.append({"name": r["name"], "expected_label_flips": r["plan"].get("expected_label_flips"), "steps": steps})
    # non-vacuity: at least one evolution really changed the validity of a body whose bytes stayed the same
    chk.obligation("history:some-evolution-flips-the-label-of-an-unchanged-body", flipping > 0, "%d of %d histories" % (flipping, len(res)))
    chk.extra["history_stream"] = summary
    if summary:
        chk.sample({"stream": "history", "name": summary[0]["name"], "steps": summary[0]["steps"]})


# ------------------------------------------------------------------------------------------------ replay
def replay_history(r):
    doc = json.load(open(os.path.join(V.REPO, "generator", "lsp.json")))
    os.makedirs(V.GEN, exist_ok=True)
    os.makedirs(V.PROPS_OUT, exist_ok=True)
    res = H.run_history(0, r["history"], doc, 0, "R")
    real = [p for p in res["problems"] if not p.get("framework")]
    for s in res["steps"]:
        print("step", json.dumps(s))
    for p in real[:5]:
        print("STILL FAILS:", p["kind"], "|", p.get("file"), "|", p.get("checker_verdict", ""), p.get("failing_clause", ""))
    if not real:
        print("after every step the directory equals a fresh-directory run and every file carries its validity under the step's metamodel")
    return 1 if real else 0


def replay(path):
    r = json.load(open(path))
    kind = r.get("kind", "")
    if "history" in r and isinstance(r["history"], dict):
        with V.build_lock():
            V.ensure_theory()
        return replay_history(r)
    if "file" not in r and "class" not in r:
        print("no concrete input recorded:", json.dumps(r)[:2000])
        return 1
    model_path, _doc, naming = named_model(None)
    twin = (("MMData", model_path),) if naming is not None else ()
    with V.build_lock():
        mm_ok, failed = build(None, model_path)
    if not mm_ok:
        print("cannot rebuild the metamodel data:", failed)
        return 1
    with V.scratch("verif-c17-replay-") as vdir:
        rc, log, _ = X.generate(vdir)
        if rc != 0:
            print("testdata plugin failed:", log[-500:])
            return 1
        names = sorted(os.listdir(vdir))
        if kind.startswith("message class without a True vector"):
            cls = r["class"]
            entries = [(fn,) + X.parse_name(fn)[:2] for fn in names if X.parse_name(fn) and X.parse_name(fn)[0] == cls and X.parse_name(fn)[1]]
            if not entries:
                print("class %s still has no True-labelled vector" % cls)
                return 1
            res = X.eval_shard(("CasesC17_replay", 0, vdir, entries[:SHARD], False) + twin)
            good = [e[0] for k, e in enumerate(entries[:SHARD]) if res["codes"].get(k, 0) == 0]
            print("class %s: %d True-labelled vectors, verified valid: %d" % (cls, len(entries), len(good)))
            return 0 if good else 1
        fn = r["file"]
        if fn not in names:
            print("the plugin no longer emits", fn)
            return 0
        pn = X.parse_name(fn)
        if pn is None:
            print("still emitted with a malformed name:", fn)
            return 1
        res = X.eval_shard(("CasesC17_replay", 0, vdir, [(fn, pn[0], pn[1])], False) + twin)
        c = res["codes"].get(0, 0)
        print("file", fn)
        print("label", pn[1], "| verified checker:", CODE_TEXT[c], "| reference:", res["ref"][0] or "valid")
        bad = c != 0
        if pn[1]:
            ok, e = accept_real(vdir, [fn])[0]
            print("real converter:", "accepted" if ok else "rejected: " + e)
            bad = bad or not ok
        return 1 if bad else 0
