"""C10 — null-versus-omitted rule for every property of every class.

proof:   coq/props/C10.v: keys_rule (generic, every object of every class, every callback) composed with the re-proved image
         facts (FieldSpec of every flattened property) => C10_key_rule in metamodel terms; parse direction; envelope flags
tie:     x_mm, x_pkg; converter correspondence on inputs with one property toggled
search:  every optional / null-admitting / literal property of every structure, unset vs set, minimal and near-maximal rest:
         keys of the real unstructure output against the metamodel rule; every message class envelope
"""
import json
import os
import random

import conv_stream as CS
import mmlib
import vcommon as V

RULE = ("every flattened property of every structure that is optional, null-admitting or literal x {absent, present} x {minimal, near-maximal} "
        "rest of the object, plus every message class envelope; oracle = metamodel (optional / null-admitting / literal); distinct = (class, property, toggle, rest)")


def expected_key(mmv, p, present):
    t = p["type"]
    special = t["kind"] == "stringLiteral" or mmv.null_adm(t)
    return True if present else special


def run(chk):
    rng = random.Random(chk.seed)
    chk.rule = RULE
    chk.trusted = V.STD_TRUSTED + ["translators x_mm, x_pkg", "hand-written converter model LSP.Sem (validated by the correspondence stream)"]
    mmv = mmlib.MMView()
    with V.build_lock():
        ok, fails = CS.build_conv(chk)
        if ok:
            proved, f2 = V.prove(chk, "C10", [])
            fails += f2
        pkg = CS.load_pkg(mmv)
        cases, meta = [], []
        for sn in mmv.S:
            if sn == "LSPObject" or (pkg and sn not in pkg["classes"]):
                continue
            for pn, p in mmv.flat(sn).items():
                t = p["type"]
                if not (p.get("optional") or mmv.null_adm(t) or t["kind"] == "stringLiteral"):
                    continue
                rests = (("minimal", (0, 0)),) if chk.tier == "quick" and rng.random() < 0.6 else (("minimal", (0, 0)), ("maximal", (1, 3)))
                for rest, (alt, depth) in rests:
                    base = mmv.value(mmlib.ref(sn), 0, alt, depth)
                    for present in (False, True):
                        j = dict(base)
                        if present:
                            j[pn] = mmv.value(t, 1, alt, 1)
                            if j[pn] is None and not mmv.null_adm(t):
                                continue
                        else:
                            j.pop(pn, None)
                        cases.append({"target": sn, "input": j, "kind": "toggle"})
                        meta.append((sn, pn, present, rest, expected_key(mmv, p, present)))
                        chk.count((sn, pn, present, rest))
        # envelopes
        env = []
        if pkg:
            for kind, r in mmv.messages():
                names = pkg["methods"].get(r["method"])
                if not names:
                    continue
                if kind == "request":
                    j = {"jsonrpc": "2.0", "id": 1}
                    if "params" in r:
                        j["params"] = mmv.value(r["params"], 1, 0, 1)
                    env.append((names[0], j, {"jsonrpc", "method", "id"} | ({"params"} if "params" in r else set())))
                    if names[1]:
                        env.append((names[1], {"id": 1}, {"jsonrpc", "id", "result"}))
                        # the envelope's id is a required member: a response whose id is None (JSON-RPC: the request's id could not be
                        # determined) still writes it, as null
                        env.append((names[1], {"id": None}, {"jsonrpc", "id", "result"}))
                else:
                    j = {}
                    if "params" in r:
                        j["params"] = mmv.value(r["params"], 1, 0, 1)
                    env.append((names[0], j, {"jsonrpc", "method"} | ({"params"} if "params" in r else set())))
            # every other class that carries envelope attributes (the generic error envelope): jsonrpc / method always written
            seen_env = {c for c, _j, _k in env}
            for cname, fields in sorted((pkg.get("class_fields") or {}).items()):
                if cname in seen_env or cname in mmv.S:
                    continue
                wires = {w for w in fields}
                if "jsonrpc" in wires or "method" in wires:
                    # "+": at least these keys (what else such a class always writes is not the envelope clause's business)
                    env.append((cname, {"id": 1} if "id" in wires else {}, {"+"} | ({"jsonrpc"} & wires) | ({"method"} & wires) | ({"id"} & wires)))
            for c, j, keys in env:
                cases.append({"target": c, "input": j, "kind": "envelope"})
                meta.append((c, "<envelope>", None, "minimal", sorted(keys)))
                chk.count((c, "envelope"))
        if ok:
            verdict, real = CS.run_cases(cases, "C10")
            nbad = sum(1 for v in verdict if v)
            chk.obligation("correspondence:Sem-vs-real-converter(toggles)", nbad == 0, "%d cases, %d disagreements" % (len(cases), nbad))
            chk.extra["traces_validated_against_impl"] = len(cases)
            if nbad:
                i = [k for k, v in enumerate(verdict) if v][0]
                fails.append(("correspondence", "LSP.Sem vs converter", json.dumps({"case": cases[i], "code": verdict[i]})[:1500]))
        else:
            real = CS.real_results(cases)
    witness = None
    skipped = []
    for m, c, r in zip(meta, cases, real):
        if not r["ok"] or not r.get("unstr_ok"):
            # a PRESENT value that cannot be parsed is a union-support question (C14/C01), not the null-versus-omitted rule;
            # an ABSENT null-admitting / literal property must be accepted (C10, parse clause)
            if m[1] != "<envelope>" and m[2] is False and m[4] is True:
                witness = witness or {"class": c["target"], "property": m[1], "present_in_input": m[2], "json": c["input"], "observed": "raises %s" % r.get("err"), "expected": "accepted"}
            else:
                skipped.append((c["target"], m[1]))
            continue
        out = r["unstr"]
        if m[1] == "<envelope>":
            if ("+" in m[4] and not (set(m[4]) - {"+"} <= set(out))) or ("+" not in m[4] and sorted(out) != m[4]):
                witness = witness or {"class": c["target"], "property": "<envelope>", "json": c["input"], "expected_keys": m[4], "observed_keys": sorted(out)}
        else:
            has = m[1] in out
            if has != m[4] or (has and not m[2] and out[m[1]] is not None and not isinstance(out[m[1]], str)):
                witness = witness or {"class": c["target"], "property": m[1], "present_in_input": m[2], "rest": m[3], "json": c["input"], "expected_key_written": m[4], "observed_key_written": has}
    chk.extra["inputs_not_parsed_by_impl_left_to_C14"] = sorted(set(skipped))[:20]
    if cases:
        chk.sample({"class": meta[0][0], "property": meta[0][1], "present": meta[0][2], "expected_key_written": meta[0][4]})
    if witness:
        chk.violation({"property": "C10", "kind": "real converter breaks the null-versus-omitted rule", "input": witness, "broken": [f[:2] for f in fails]})
    elif fails:
        chk.violation({"property": "C10", "kind": "obligation no longer checks", "broken": [{"what": a, "name": b, "detail": c} for a, b, c in fails],
                       "searched": "%d toggled inputs on the real converter: keys as the metamodel rule says" % len(cases)}, no_input=True)


def replay(path):
    r = json.load(open(path))
    inp = r.get("input")
    if not inp:
        print("no concrete input recorded")
        return 1
    res = CS.real_run([{"target": inp["class"], "input": inp["json"]}])["results"][0]
    if not res["ok"] or not res.get("unstr_ok"):
        print("raises", res.get("err"))
        return 1
    if inp["property"] == "<envelope>":
        print("keys", sorted(res["unstr"]), "expected", inp["expected_keys"])
        return 1 if sorted(res["unstr"]) != inp["expected_keys"] else 0
    has = inp["property"] in res["unstr"]
    print("key written:", has, "expected:", inp.get("expected_key_written"))
    return 1 if has != inp.get("expected_key_written") else 0
