"""C05 — committed packages are exactly what the generator emits for the committed model.

proof:   coq/props/C05.v: ground equality of per-item digest lists (kernel-checked diff, both directions, in order)
tie:     lib/x_gen.py runs the python and rust plugins of the current tree into a scratch dir (+ rustfmt) on every run
search:  the first differing item with both texts is the replay
"""
import json
import os

import vcommon as V

LEVEL = "translation_validation"
RULE = "every top-level statement of types.py and every item of lib.rs (after rustfmt), generated vs committed, in order; distinct = items"


def run(chk):
    chk.rule = RULE
    chk.trusted = V.STD_TRUSTED + ["lib/x_gen.py: runs the plugins, computes sha256 digests of the normalised items (ast.dump with docstring-whitespace normalisation; rustfmt'ed text) — trusted for the digests",
                                   "rustfmt --edition 2021 stands for the formatter pass of the build (ruff format is not needed: the Python comparison is on syntax trees)"]
    gen = os.path.join(V.GEN, "GenCmp.v")
    info_p = os.path.join(V.GEN, "gencmp.json")
    fails = []
    with V.build_lock():
        p = V.run_py("x_gen.py", [gen, info_p], timeout=1800)
        chk.obligation("translate:x_gen(run python+rust plugins)", p.returncode == 0, (p.stdout + p.stderr)[-300:])
        info = {}
        if p.returncode == 0:
            info = json.load(open(info_p))
            proved, f2 = V.prove(chk, "C05", [gen])
            fails += f2
        else:
            fails.append(("generator" if p.returncode == 4 else "translator", "x_gen", (p.stdout + p.stderr)[-1500:]))
    for k, n in (info.get("counts") or {}).items():
        for i in range(n):
            chk.count((k, i))
    chk.exhaustive = True
    cnt = info.get("counts") or {}
    chk.extra["programs"] = 2          # the python and the rust plugin, each run on the committed model
    chk.extra["disagreements_checked"] = int(cnt.get("py_committed", 0)) + int(cnt.get("rs_committed", 0))
    chk.extra.update({"counts": info.get("counts"), "rustfmt": info.get("rustfmt"), "rust_bytes_identical": info.get("rust_bytes_identical")})
    if info.get("rustfmt") is None and p.returncode == 0:
        chk.assumptions.append("rustfmt not found: Rust items compared unformatted")
    diffs = info.get("diffs") or []
    chk.sample({"python_items": (info.get("counts") or {}).get("py_committed"), "rust_items": (info.get("counts") or {}).get("rs_committed")})
    if diffs:
        chk.violation({"property": "C05", "kind": "generated output differs from the committed file", "input": diffs[0], "more": diffs[1:8], "broken": [x[:2] for x in fails]})
    elif fails:
        chk.violation({"property": "C05", "kind": "obligation no longer checks", "broken": [{"what": a, "name": b, "detail": c} for a, b, c in fails]}, no_input=True)


def replay(path):
    r = json.load(open(path))
    with V.scratch("c05r-") as d:
        p = V.run_py("x_gen.py", [os.path.join(d, "G.v"), os.path.join(d, "g.json")], timeout=1800)
        if p.returncode != 0:
            print(p.stdout[-500:])
            return 1
        info = json.load(open(os.path.join(d, "g.json")))
    print("differences now:", len(info["diffs"]), json.dumps(info["diffs"][:1])[:600])
    return 1 if info["diffs"] else 0
