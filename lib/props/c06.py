"""C06 — the generator is correct on every schema-valid evolution of the metamodel.   (PARTIAL: programs are sampled)

For every evolved metamodel (systematic families, exhaustive over targets, + seeded random edit sequences): a scratch copy of
the current tree gets the evolved generator/lsp.json, the python and rust plugins regenerate types.py / lib.rs in it, and the
SAME instance obligations as for the committed model (the registered checks C04, C09, C10, C01, C03, C07, C08, C17 …) are
discharged against the copy (VERIF_REPO=<copy>): each sampled program gets its proofs for all of ITS inputs.
Findings are keyed by the failing call site (missing-handler:<union>, plugin-crash:<plugin>:<where>), not by the model.
"""
import concurrent.futures
import hashlib
import json
import os
import random
import re
import shutil
import subprocess
import sys

import evolve
import vcommon as V

LEVEL = "other"
RULE = ("evolved metamodels: systematic families (new structures referencing every alias / enumeration / sample structures / base types in 6 "
        "contexts; rich property kinds; messages with and without typeName; keyword names; marks; enums; literal union members; removal of "
        "optional properties; identity) + seeded random edit sequences (<= 8 edits); for each: 4 plugins must succeed and the per-property "
        "checks are re-run against the evolved tree; distinct = (model, sub-check)")
QUICK_CHECKS = ["C04", "C09", "C01", "C07", "C08"]
FULL_CHECKS = ["C04", "C09", "C10", "C01", "C03", "C02", "C13", "C07", "C08", "C17"]


def make_copy(name, model, d):
    """scratch copy of the working tree with the evolved model and regenerated python / rust outputs"""
    dst = os.path.join(d, "tree-" + re.sub(r"\W", "_", name))
    shutil.copytree(V.REPO, dst, ignore=shutil.ignore_patterns(".git", "__pycache__", "*.pyc", "node_modules", "target", "bin", "obj"))
    with open(os.path.join(dst, "generator", "lsp.json"), "w") as f:
        json.dump(model, f, indent=4)
    env = V.repo_env()
    env["PYTHONPATH"] = os.pathsep.join([dst, os.path.join(dst, "packages", "python")])
    crashes = []
    out_dirs = {"python": os.path.join(dst, "packages", "python"), "rust": os.path.join(dst, "packages", "rust")}
    for plugin in ("python", "rust"):
        p = subprocess.run([V.PY, "-B", "-m", "generator", "--plugin", plugin, "--output-dir", out_dirs[plugin], "--test-dir", os.path.join(d, "tst-" + plugin)],
                           capture_output=True, text=True, timeout=900, env=env, cwd=dst)
        if p.returncode != 0:
            crashes.append((plugin, crash_site(p.stdout + p.stderr), (p.stdout + p.stderr)[-1200:]))
    lib = os.path.join(dst, "packages", "rust", "lsprotocol", "src", "lib.rs")
    for c in ("rustfmt", "/root/.cargo/bin/rustfmt"):
        try:
            if subprocess.run([c, "--edition", "2021", lib], capture_output=True, timeout=300).returncode == 0:
                break
        except Exception:
            pass
    return dst, crashes


def crash_site(text):
    """stable key of a plugin crash: exception type + innermost generator frame (function name)"""
    exc = re.findall(r"^(\w+(?:Error|Exception))\b", text, re.M)
    frames = re.findall(r'File "[^"]*/generator/([^"]+)", line \d+, in (\w+)', text)
    f = frames[-1] if frames else ("?", "?")
    return "%s:%s:%s" % (exc[-1] if exc else "Error", f[0], f[1])


def run_subcheck(tree, cid, seed):
    env = dict(os.environ, VERIF_REPO=tree, VERIF_SEED=str(seed), VERIF_COVER_PIN="0")      # the coverage pin is about the committed metamodel's package
    p = subprocess.run([os.path.join(V.VERIF, "check"), cid, "--tier", "quick"], capture_output=True, text=True, timeout=3600, env=env, cwd=V.VERIF)
    viol = [l for l in p.stdout.split("\n") if l.startswith("VIOLATION")]
    known = [l for l in p.stdout.split("\n") if l.startswith("KNOWN-FINDING")]
    replay = None
    if viol:
        try:
            replay = json.load(open(viol[0].split("replay=")[1].split()[0]))
        except Exception:
            replay = None
    return {"check": cid, "rc": p.returncode, "violations": viol, "known": len(known), "replay": replay, "stderr": p.stderr[-400:]}


NEW_UNION = "missing-handler:new-union"
# families whose purpose is to exhibit the missing-handler finding: only the checks whose failures carry dispatch-trace keys are run on
# them, so that every failing input is attributed (nothing is masked behind the known finding)
FAMILY_CHECKS = {"variant-literals": ["C08"],        # unions of variant literals: the .NET plugin merges them into one record (python: same remark as below)
                 "literal-union-member": ["C04", "C09", "C01"], "refs-open-enums": ["C04", "C09", "C01"], "refs-aliases": ["C01"]}   # (C04/C09 need a class table; cattrs cannot even generate the structure function of the new classes here)


def finding_keys(sub, base_unions=frozenset()):
    """call-site keys of a sub-check violation.  A union type that does not occur in the package generated from the base tree's model
    and has no handler is attributed to the ONE root cause 'the hook table of _hooks.py is hand-written per exact union type';
    a union of the base package that loses its handler keeps its own key (a regression, never known)."""
    r = sub.get("replay") or {}
    keys = set()

    def union_key(u):
        u = u.replace(" ", "").replace("~", "")
        return NEW_UNION if u not in base_unions else "missing-handler:" + u
    entries = r.get("all_unlisted")
    if entries is not None:
        for e in entries:
            ks = [k for k in e.get("keys", []) if k.endswith("|leaf=no-handler")]
            if ks:
                keys.update(union_key(k[len("union="):-len("|leaf=no-handler")]) for k in ks)
            else:
                keys.add("%s:%s:%s" % (sub["check"], re.sub(r"\s+", "_", str(e.get("site") or e.get("target")))[:80], "|".join(e.get("keys", []))[:200]))
        return sorted(keys)
    for mh in (r.get("missing_handlers") or []):
        for u in mh.get("unions", []):
            keys.add(union_key(u))
    for k in (r.get("dispatch_trace_keys") or []):
        if k.endswith("|leaf=no-handler"):
            keys.add(union_key(k[len("union="):-len("|leaf=no-handler")]))
    if not keys and sub["check"] == "C17" and r.get("checker_code") == 4 and r.get("class"):
        # a vector named after a class that is not a message class of the (named) metamodel: keyed by the class family
        keys.add("vector-class-unknown:" + re.sub(r"(Request|Response|Notification)$", "", r["class"]))
    if not keys:
        inp = r.get("input") or {}
        what = json.dumps(r.get("what") or r.get("kind") or "")[:80]
        site = inp.get("site") or inp.get("class") or inp.get("method") or inp.get("target") or ""
        keys.add("%s:%s:%s" % (sub["check"], re.sub(r"\s+", "_", str(site))[:80], hashlib.sha1(what.encode()).hexdigest()[:6]))
    return sorted(keys)


def build_dir_of(tree):
    return os.path.join(V.VERIF, "build-" + hashlib.sha1(os.path.realpath(tree).encode()).hexdigest()[:8])


def run(chk):
    rng = random.Random(chk.seed)
    chk.rule = RULE
    chk.trusted = V.STD_TRUSTED + ["everything the re-run sub-checks trust (see their MANIFEST entries)", "lib/evolve.py: the sampled family of evolved metamodels (each validated against lsp.schema.json under root MetaModel with jsonschema)"]
    chk.assumptions = ["PARTIAL: the family of programs (evolved metamodels) is SAMPLED, not quantified; every sampled program gets the same kernel-checked instance obligations and generic theorems as the committed one, for all of its inputs",
                       "discipline boundary (recorded, not alarms): property names are disciplined (camel(snake(n)) = n), base type RegExp and integer/boolean literal kinds are outside what the python plugin accepts"]
    mm = evolve.load()
    sysm = evolve.systematic(mm)
    if chk.tier == "quick":
        k = chk.seed % (len(sysm) - 2)
        models = [sysm[1], sysm[2 + k]]             # the combined "core" model + one systematic family rotating with the seed
        vl = [x for x in sysm if x[0] == "variant-literals"]
        if vl and vl[0][0] != sysm[2 + k][0]:
            models.append(vl[0])                      # cheap (one .NET sub-check): always
        m, log = evolve.random_model(mm, rng, rng.choice([3, 5, 8]))
        models.append(("random-%d" % chk.seed, m))
        checks = QUICK_CHECKS
    else:
        models = list(sysm)
        for i in range(8):
            m, log = evolve.random_model(mm, rng, rng.choice([2, 4, 8]))
            models.append(("random-%d-%d" % (chk.seed, i), m))
        checks = FULL_CHECKS
    # union types of the package generated from the base tree (what the hand-written hook table was written for)
    base_unions = set()
    try:
        import conv_stream as CS
        with V.build_lock():
            CS.build_conv(None)
        base_unions = {u.replace(" ", "") for u in json.load(open(os.path.join(V.GEN, "pkg.json"))).get("unions", [])}
    except Exception as e:
        chk.extra["base_unions_unavailable"] = str(e)[-200:]
    opens, _ = V.known_findings("C06")
    known = {o["key"].replace("~", "").replace(" ", ""): o for o in opens}
    seen_known, unknown = {}, []
    results = []
    with V.scratch("c06-") as d:
        def one(item):
            name, model = item
            okv, why = evolve.schema_valid(model)
            if not okv:
                return {"model": name, "skipped": "generator of evolved models produced a schema-invalid document: " + why}
            tree, crashes = make_copy(name, model, d)
            subs = []
            try:
                if not any(c[0] == "python" for c in crashes):
                    todo = [c for c in FAMILY_CHECKS.get(name, checks) if not (c == "C07" and any(x[0] == "rust" for x in crashes))]
                    if name == "core" and "C17" not in todo and not any(x[0] == "testdata" for x in crashes):
                        todo.append("C17")      # the test vectors of the evolved model (quick tier: on the combined model only)
                    if name == "msgs-no-typename" and "C17" not in todo and not any(x[0] == "testdata" for x in crashes):
                        todo.append("C17")      # the vectors of messages without typeName, in both tiers
                    # (a message without typeName: C17 names its class through the evolved tree's own Python catalogue — props/c17.py named_model)
                    for cid in todo:
                        subs.append(run_subcheck(tree, cid, chk.seed))
                # dotnet / testdata plugins must terminate successfully too
                env = V.repo_env()
                env["PYTHONPATH"] = os.pathsep.join([tree, os.path.join(tree, "packages", "python")])
                plugins = ("dotnet",) if chk.tier == "quick" else ("dotnet", "testdata")
                for plugin in plugins:
                    if plugin == "dotnet" and "C08" in checks:
                        continue        # C08 runs it
                    out = os.path.join(d, "out-%s-%s" % (plugin, re.sub(r"\W", "_", name)))
                    p = subprocess.run([V.PY, "-B", "-m", "generator", "--plugin", plugin, "--output-dir", out, "--test-dir", out + "-t"],
                                       capture_output=True, text=True, timeout=1800, env=env, cwd=tree)
                    if p.returncode != 0:
                        crashes.append((plugin, crash_site(p.stdout + p.stderr), (p.stdout + p.stderr)[-1200:]))
                    shutil.rmtree(out, ignore_errors=True)
            finally:
                shutil.rmtree(build_dir_of(tree), ignore_errors=True)
                shutil.rmtree(tree, ignore_errors=True)
            return {"model": name, "crashes": crashes, "subs": subs}
        workers = 2 if chk.tier == "quick" else 4
        with concurrent.futures.ThreadPoolExecutor(workers) as ex:
            results = list(ex.map(one, models))
        # keep a copy of the failing evolved models for replay
        for (name, model), r in zip(models, results):
            r["_model"] = model
    n_sub = 0
    for r in results:
        name = r["model"]
        if r.get("skipped"):
            chk.obligation("evolve:%s" % name, False, r["skipped"])
            unknown.append(("harness", name, r["skipped"], None))
            continue
        for plugin, site, tail in r["crashes"]:
            key = "plugin-crash:%s:%s" % (plugin, site)
            chk.count((name, "plugin", plugin))
            if key in known:
                seen_known[key] = known[key]
            else:
                unknown.append((key, name, tail, None))
        for s in r["subs"]:
            n_sub += 1
            chk.count((name, s["check"]))
            chk.obligation("%s@%s" % (s["check"], name), s["rc"] == 0, "; ".join(s["violations"])[:200])
            if s["rc"] != 0:
                ks = finding_keys(s, base_unions)
                un = [k for k in ks if k not in known]
                for k in ks:
                    if k in known:
                        seen_known[k] = known[k]
                if un:
                    unknown.append((un[0], name, json.dumps((s.get("replay") or {}).get("input"))[:600], s))
    chk.extra["evolved_models"] = [r["model"] for r in results]
    chk.extra["sub_checks_run"] = n_sub
    chk.extra["programs"] = len(results)
    chk.extra["explanation"] = ("sampled programs x proved per-program obligations: %d evolved metamodels (systematic families exhaustive over their targets + "
                                "seeded random edit sequences), each regenerated through the plugins in a scratch copy and subjected to %d runs of the Coq-backed "
                                "sub-checks (%s); not a proof over the family of programs" % (len(results), n_sub, ", ".join(checks)))
    chk.sample({"model": results[0]["model"], "sub_checks": [s["check"] for s in results[0].get("subs", [])]} if results else {})
    for k, o in seen_known.items():
        chk.known("%s [%s]" % (o["text"][:160], o["key"]))
    if unknown:
        os.makedirs(os.path.join(V.REPLAYS), exist_ok=True)
        key, name, detail, sub = unknown[0]
        model = next(r["_model"] for r in results if r["model"] == name)
        mp = os.path.join(V.REPLAYS, "C06-model-%s.json" % re.sub(r"\W", "_", name))
        json.dump(model, open(mp, "w"))
        chk.violation({"property": "C06", "kind": "an evolved metamodel breaks a plugin or a guarantee", "key": key, "evolved_model": name, "model_file": mp,
                       "input": {"model": name, "detail": detail}, "sub_check": (sub or {}).get("check"), "sub_violations": (sub or {}).get("violations"),
                       "others": [{"key": u[0], "model": u[1]} for u in unknown[1:20]],
                       "how_to_replay": "copy the tree, put model_file at generator/lsp.json, run the plugins, then VERIF_REPO=<copy> ./check <sub_check>"})


def replay(path):
    r = json.load(open(path))
    print("re-run ./check C06 --tier thorough; recorded key:", r.get("key"), "model:", r.get("model_file"))
    return 1
