"""C04 — the generated Python package is a complete, faithful image of the metamodel.

proof:   coq/props/C04.v: W_img mm Sg ... = true by vm_compute over regenerated tables (exhaustive: every structure,
         flattened property, enumeration value, alias), its meaning via LSP.ImageThy (reflection), ∀-metamodel lemmas on flat
tie:     x_mm (lsp.json -> MMData.v), x_pkg (introspection of the imported package after get_converter() -> PkgData.v)
search:  lib/s_image.py compares the real attrs metadata with the metamodel directly (independent oracle)
"""
import json
import os
import re

import conv_stream as CS
import vcommon as V

RULE = ("exhaustive over the declarations of the current metamodel: one obligation item per (structure, flattened property) "
        "x {wire name, default, annotation, validator, optional-wrapper, omit flag}, per enumeration, per alias; distinct = distinct (class, property) pairs")

EXPLAIN_HDR = "From LSP Require Import Base MM Sem Image.\nFrom Gen Require Import MMData PkgData.\n"


def explain():
    outs = V.coq_eval("ExplainC04", EXPLAIN_HDR, ["struct_classes_why mm Sg alias_objects", "enums_bad mm Sg", "aliases_bad mm Sg alias_objects plain_classes"])
    triples = re.findall(r'\("([^"]*)",\s*"([^"]*)",\s*(W\w+)\)', outs[0])
    enums = re.findall(r'"([^"]+)"', outs[1].split(":")[0])
    aliases = re.findall(r'"([^"]+)"', outs[2].split(":")[0])
    return triples, enums, aliases


def run(chk):
    chk.rule = RULE
    chk.trusted = V.STD_TRUSTED + [
        "translators lib/x_mm.py (lsp.json -> Coq data) and lib/x_pkg.py (attrs.fields / enum members / alias objects of the imported package, wire names and omit flags from the overrides of the functions cattrs generated)",
        "specification functions of LSP.Image (py_of, expected_default, expected_vkind, is_special): they ARE the reading of 'documented mapping' (DESIGN.md C04)",
    ]
    with V.build_lock():
        ok, fails = CS.build_conv(chk)
        proved = False
        if ok:
            proved, f2 = V.prove(chk, "C04", [])
            fails += f2
        # coverage counts from the tables
        import mmlib
        mmv = mmlib.MMView()
        n = 0
        for sn in mmv.S:
            for pn in mmv.flat(sn):
                chk.count((sn, pn))
                n += 1
        for en, e in mmv.E.items():
            chk.count(("enum", en))
        for an in mmv.A:
            chk.count(("alias", an))
        chk.exhaustive = True
        chk.extra["structures"] = len(mmv.S)
        chk.extra["flattened_properties"] = n
        chk.extra["enumerations"] = len(mmv.E)
        chk.extra["aliases"] = len(mmv.A)
        chk.sample({"structure": "Position", "flattened": list(mmv.flat("Position"))} if "Position" in mmv.S else {})
        witnesses = []
        if ok and not proved:
            try:
                triples, enums, aliases = explain()
                witnesses = [{"class": c, "property": p, "why": w} for c, p, w in triples[:20]] + [{"enum": e} for e in enums] + [{"alias": a} for a in aliases]
            except Exception as e:  # explain is best effort
                witnesses = [{"explain_failed": str(e)[-300:]}]
    # search on the real package (always: cheap)
    p = V.run_py("s_image.py")
    issues = None
    if p.returncode == 0:
        issues = json.loads(p.stdout)
    chk.obligation("search:real-package-vs-metamodel", p.returncode == 0, "s_image.py: %s issues" % (len(issues) if issues is not None else "failed: " + p.stderr[-300:]))
    hist = [f for f in fails if f[0] == "history-dependence"]
    if hist and not issues:
        chk.violation({"property": "C04", "kind": "the package's class tables (wire names / omit flags / field handlers) depend on converter history",
                       "input": json.loads(hist[0][2]), "how_to_replay": "VERIF_CONV_CFG=after-foreign python lib/x_pkg.py <out.v> <out.json>  and compare with the run without the variable"})
    elif issues:
        chk.violation({"property": "C04", "kind": "package differs from the metamodel image", "input": issues[0], "all": issues[:25],
                       "model_explain": witnesses, "how_to_replay": "./check C04 --replay <this file>"})
    elif fails or p.returncode != 0:
        chk.violation({"property": "C04", "kind": "obligation no longer checks", "broken": [{"what": a, "name": b, "detail": c} for a, b, c in fails] or [{"what": "search", "detail": p.stderr[-1500:]}],
                       "model_explain": witnesses,
                       "searched": "s_image.py compared every flattened property / enum / alias of the real package with the metamodel: no difference"}, no_input=True)


def replay(path):
    r = json.load(open(path))
    p = V.run_py("s_image.py")
    issues = json.loads(p.stdout) if p.returncode == 0 else None
    inp = r.get("input")
    if issues is None:
        print("package does not import:", p.stderr[-500:])
        return 1
    still = [i for i in issues if inp and i["class"] == inp.get("class") and i["property"] == inp.get("property") and i["what"] == inp.get("what")]
    print("still failing:" if still else "no longer failing", json.dumps(still or inp)[:500])
    return 1 if still else 0
