"""C14 — see DESIGN.md section 6/C14 and coq/props/C14.v; shared machinery in lib/conv_props.py."""
import conv_props as CP

STREAMS = {"C14": ("site", "alias", "hookfuzz"), "C03": ("site", "sys", "rand"), "C01": ("site", "alias", "sys", "rand")}["C14"]
RULES = {
    "C14": "every union occurrence of the metamodel (property / array element / map value / result) x every flattened alternative x {minimal, near-maximal} value, heterogeneous arrays, every metamodel alias as a top-level target; oracle: parses, well-typed, re-serialises to the input; PLUS a differential fuzz of every union type as a target of its own (inputs built from member values by dropping / adding / re-kinding the probed keys and literals, mixed arrays, primitives: mostly invalid — demanded: model = real converter on every path of every hook); distinct = distinct (target, input)",
    "C03": "every structure at three systematic (alternative, depth) settings + seeded random valid values + the per-site stream; oracle: the real object graph is well-typed against the resolved annotations at every depth; distinct = distinct (target, input)",
    "C01": "per-site stream + every metamodel alias as target + every structure at three systematic settings + seeded random valid values of every structure / request / response / notification; oracle: unstructure(structure(j)) equals j up to explicit nulls; distinct = distinct (target, input)",
}


def run(chk):
    chk.rule = RULES["C14"]
    CP.check_property(chk, "C14", STREAMS)


def replay(path):
    return CP.replay_property("C14", path)
