"""C07 — the generated Rust crate declares the metamodel's wire schema.

proof:      coq/props/C07.v: `rust_ok mm generated_items = true` and `rust_ok mm committed_items = true` by vm_compute over ALL
            items, and the instantiated specification theorems (LSP.Rust.rust_ok_spec, proved for every metamodel and item list)
tie:        lib/x_mm.py translates generator/lsp.json; lib/x_rs.py RUNS the rust plugin of the current tree, tokenises its raw and
            its rustfmt'ed output (must agree) and the committed lib.rs into Gen/RustData.v.  The specification functions
            rs_of / serde_name / wire_disc are tied to the generator by the ground check passing on the generator's real output;
            an independent regex reading of the same texts (lib/rs_search.py) must reach the same verdict (correspondence)
search:     on failure the explain twin (vm_compute) names the offending (item, field, reason); rs_search looks for the same
            defect on the real Rust text; the replay holds {source, item, field, metamodel entry, Rust text}
"""
import json
import os
import re

import vcommon as V
import rs_search

RULE = ("exhaustive: every structure (all flattened properties), enumeration (all values), type alias, request and notification of "
        "generator/lsp.json against every item of lib.rs, for two sources: the rust plugin's fresh output (raw and rustfmt'ed) and the "
        "committed packages/rust/lsprotocol/src/lib.rs; a case = (source, item, field|variant); committed cases are counted as "
        "distinct only where the committed item differs from the generated one")

MM_V = os.path.join(V.GEN, "MMData.v")
RS_V = os.path.join(V.GEN, "RustData.v")
INFO = os.path.join(V.GEN, "rust_info.json")
GEN_COPY = os.path.join(V.GEN, "lib_generated.rs")
LISTS = {"generated": "generated_items", "committed": "committed_items"}
HDR = ("From Coq Require Import String List ZArith Bool.\nFrom LSP Require Import Base MM Rust.\nFrom Gen Require Import MMData RustData.\n"
       "Open Scope string_scope.\n")
MAX_ENTRIES = 12


def mm_path():
    return os.path.join(V.REPO, "generator", "lsp.json")


def committed_path():
    return os.path.join(V.REPO, "packages", "rust", "lsprotocol", "src", "lib.rs")


def translate(chk=None):
    """x_mm + x_rs.  Returns (ok, failures, rs_returncode, rs_output)."""
    fails = []
    p = V.run_py("x_mm.py", [mm_path(), MM_V])
    if chk:
        chk.obligation("translate:x_mm", p.returncode == 0, (p.stdout + p.stderr)[-300:])
    if p.returncode != 0:
        fails.append(("translator", "x_mm", (p.stdout + p.stderr)[-1500:]))
    p2 = V.run_py("x_rs.py", [RS_V, INFO], timeout=900)
    out2 = p2.stdout + p2.stderr
    if chk:
        chk.obligation("translate:x_rs", p2.returncode == 0, out2[-400:])
    if p2.returncode != 0:
        fails.append(("generator-crash" if p2.returncode == 4 else "translator", "x_rs", out2[-3000:]))
    return not fails, fails, p2.returncode, out2


def parse_explain(text):
    """[(item, field, reason)] from the printed Coq list of string triples"""
    s = r'"((?:[^"]|"")*)"'
    return [tuple(x.replace('""', '"') for x in m.groups()) for m in re.finditer(r"\(\s*%s\s*,\s*%s\s*,\s*%s\s*\)" % (s, s, s), text)]


def explain():
    """Runs the explain twin on both item lists: {source: [(item, field, reason)]}"""
    outs = V.coq_eval("C07_explain", HDR, ["rust_explain mm %s msg_hints" % LISTS[k] for k in ("generated", "committed")])
    return {k: parse_explain(o) for k, o in zip(("generated", "committed"), outs)}


def sources():
    """{source: text} of the real Rust files the check is about"""
    res = {}
    if os.path.exists(GEN_COPY):
        res["generated"] = open(GEN_COPY, encoding="utf-8").read()
    if os.path.exists(committed_path()):
        res["committed"] = open(committed_path(), encoding="utf-8").read()
    return res


def py_search(texts, doc):
    res = {}
    for k, t in texts.items():
        try:
            res[k] = rs_search.search(t, doc)
        except Exception as e:  # the regex reading itself failed: that text is outside the emitted subset
            res[k] = [{"item": "", "field": "", "what": "rs_search cannot read the text: %r" % (e,), "expected": None, "observed": None}]
    return res


def mm_entry(doc, item, field):
    """the metamodel entry an (item, field) pair is about"""
    def short(x):
        return {k: v for k, v in x.items() if k not in ("documentation", "since", "sinceTags")}
    view = rs_search.MMView(doc)
    if item in view.S:
        fl = view.flat(item)
        if field in fl:
            return {"structure": item, "flattened_property": short(fl[field])}
        return {"structure": item, "flattened_property_names": list(fl), "proposed": bool(view.S[item].get("proposed"))}
    if item in view.E:
        e = view.E[item]
        vals = [short(v) for v in e["values"]]
        hit = [v for v in vals if v["name"] == field]
        return {"enumeration": item, "proposed": bool(e.get("proposed")), "values": hit or vals}
    if item in view.A:
        return {"typeAlias": short(view.A[item])}
    for kind in ("requests", "notifications"):
        for m in doc[kind]:
            tn = rs_search.msg_name(m, "Request" if kind == "requests" else "Notification")
            if item in (tn, rs_search.resp_name(tn)) or field == m["method"] or item == m["method"]:
                return {kind[:-1]: short(m)}
    return {"note": "not a metamodel item (helper item of lib.rs): must not be feature-gated"}


def rust_text(info, texts, source, item):
    try:
        for it in (info or {}).get(source, {}).get("items", []):
            if it["name"] == item:
                lines = texts[source].split("\n")
                a, b = it["lines"]
                txt = "\n".join(lines[max(0, a - 1):b])
                for a2, b2 in it.get("impl_lines", []):
                    txt += "\n...\n" + "\n".join(lines[a2 - 1:b2])
                return txt[:6000]
    except Exception:
        pass
    try:
        return (rs_search.item_text(texts[source], item) or "<no such item in the Rust text>")[:6000]
    except Exception:
        return "<unreadable>"


def build_entries(source, coq_entries, py_issues, doc, info, texts):
    keys, seen = [], set()
    for it, f, why in coq_entries:
        if (it, f) not in seen:
            seen.add((it, f)); keys.append((it, f))
    for i in py_issues:
        if (i["item"], i["field"]) not in seen:
            seen.add((i["item"], i["field"])); keys.append((i["item"], i["field"]))
    entries = []
    for it, f in keys[:MAX_ENTRIES]:
        entries.append({"source": source, "item": it, "field": f,
                        "coq_explain": [why for a, b2, why in coq_entries if (a, b2) == (it, f)],
                        "python_search": [i for i in py_issues if (i["item"], i["field"]) == (it, f)],
                        "metamodel_entry": mm_entry(doc, it, f),
                        "rust_text": rust_text(info, texts, source, it)})
    return entries, len(keys)


def run(chk):
    chk.trusted = V.STD_TRUSTED + [
        "translator lib/x_mm.py (lsp.json -> Gen/MMData.v, fail-closed)",
        "translator lib/x_rs.py (runs the rust plugin; tokeniser + recursive-descent parser of the emitted Rust subset, fail-closed; "
        "its message-name hints for typeName-less messages are NOT trusted: the Coq checker validates them; "
        "raw and rustfmt'ed output must parse to the same items; rustfmt accepting the file is the only syntax check of the Rust text)",
        "specification choices in coq/Rust.v: rs_of/rs_rel (type mapping), the Option rule, serde_name (serde's camelCase rule as in "
        "serde_derive internals/case.rs), wire_disc (derived string discriminants; hand-written i32 impls), Box<T> read as T, "
        "gates: request/notification/structure/enumeration/alias/property/value proposed flags; the response struct and the method-enum "
        "variant of a proposed request may be gated or not",
        "serde / serde_derive / rustc themselves are not modelled; that the crate compiles is outside the claim (no crates offline)",
    ]
    chk.assumptions = ["the wire behaviour of #[derive(Serialize, Deserialize)] with rename / rename_all / untagged is as documented by serde",
                       "message structs are named by typeName when present (it is optional in lsp.schema.json; present on every "
                       "request/notification of the committed metamodel), otherwise by a derived-name hint (Gen.RustData.msg_hints, "
                       "computed by lib/x_rs.py from the method: '$/' stripped, split on '/', '_' and camel-case boundaries, parts "
                       "capitalised, 'Request'/'Notification' appended).  The hint is UNTRUSTED: the checker validates it (the struct "
                       "found under that name must satisfy every message-struct clause, and no two messages may share a struct); "
                       "a message with neither typeName nor a valid hint fails the check"]
    chk.rule = RULE
    chk.exhaustive = True
    doc = json.load(open(mm_path()))
    failed = []
    coq = None
    proved = False
    with V.build_lock():
        ok, fails, rs_rc, rs_out = translate(chk)
        failed += fails
        info = json.load(open(INFO)) if os.path.exists(INFO) else None
        if ok:
            proved, pf = V.prove(chk, "C07", [MM_V, RS_V])
            failed += pf
            if proved:
                out = V.coqc(os.path.join(V.PROPS_OUT, "C07.v")).out
                m = re.search(r"=\s*\((\d+),\s*(\d+)\)", out)
                if m:
                    chk.extra["ground_checks"] = {"generated": int(m.group(1)), "committed": int(m.group(2))}
            elif os.path.exists(RS_V[:-2] + ".vo") and os.path.exists(MM_V[:-2] + ".vo"):
                coq = explain()
        texts = sources()

    # the independent search on the real Rust texts: always run (it is the correspondence and the replay source)
    py = py_search(texts, doc)
    if info:
        for src in ("generated", "committed"):
            c = info[src]["counts"]
            chk.extra.setdefault("counts", {})[src] = dict(c, methods=len(doc["requests"]) + len(doc["notifications"]))
        gen_by = {i["name"]: {k: v for k, v in i.items() if k not in ("lines", "impl_lines")} for i in info["generated"]["items"]}
        for src in ("generated", "committed"):
            for it in info[src]["items"]:
                same = src == "committed" and gen_by.get(it["name"]) == {k: v for k, v in it.items() if k not in ("lines", "impl_lines")}
                subs = [f["ident"] for f in it.get("fields", [])] + [v["ident"] for v in it.get("variants", [])] or [""]
                for s in subs:
                    chk.count((src, it["name"], s), nontrivial=not same)
        chk.extra["metamodel"] = {k: len(doc[k]) for k in ("structures", "enumerations", "typeAliases", "requests", "notifications")}
        chk.extra["generated_text_equals_committed_text"] = info.get("generated_text_equals_committed_text")
        chk.extra["rustfmt"] = info.get("rustfmt")
        for nm in ("Position", "SelectionRange", "MessageType"):
            it = next((i for i in info["generated"]["items"] if i["name"] == nm), None)
            if it:
                chk.sample(json.dumps({k: v for k, v in it.items() if k not in ("lines", "impl_lines")}, separators=(",", ":"))[:700])

    coq_bad = {k: bool(v) for k, v in (coq or {}).items()}
    py_bad = {k: bool(v) for k, v in py.items()}
    if proved:
        agree = not any(py_bad.values()) and set(py) == {"generated", "committed"}
    elif coq is not None:
        agree = all(coq_bad.get(k) == py_bad.get(k) for k in ("generated", "committed"))
    else:
        agree = None
    if agree is not None:
        chk.obligation("correspondence:coq-verdict-vs-independent-search-on-the-Rust-text", agree,
                       "coq: %s; rs_search issues: %s" % ("proved" if proved else {k: len(v) for k, v in (coq or {}).items()}, {k: len(v) for k, v in py.items()}))
    chk.extra["search_issues"] = {k: len(v) for k, v in py.items()}

    # ---- verdict
    if proved and not any(py_bad.values()):
        return
    reported = False
    gen_crash = [f for f in failed if f[0] == "generator-crash"]
    if gen_crash:
        # the plugin of the current tree does not produce a crate at all for this metamodel: reported first
        chk.violation({"property": "C07", "kind": "generator-crash",
                       "input": {"site": "rust-plugin-crash", "model": "generator/lsp.json of the tree under test"},
                       "command": "cd %s && python -m generator --plugin rust --output-dir <scratch> --test-dir <scratch>" % V.REPO,
                       "observed_impl": gen_crash[0][2], "expected": "a lib.rs is written",
                       "how_to_replay": "./check C07 --replay <this file>"}, tag="generator")
        reported = True
    for src in ("generated", "committed"):
        ce = (coq or {}).get(src, [])
        pi = py.get(src, [])
        if not ce and not pi:
            continue
        entries, total = build_entries(src, ce, pi, doc, info, texts)
        chk.violation({"property": "C07", "kind": "Rust source does not declare the metamodel's wire schema",
                       "source": src, "source_path": GEN_COPY if src == "generated" else committed_path(),
                       "how_generated": "python -m generator --plugin rust --output-dir <scratch> (cwd = repository)" if src == "generated" else "committed file",
                       "offending_sites": total, "entries": entries,
                       "input": {"site": "%s.%s" % (entries[0]["item"], entries[0]["field"]), "source": src} if entries else None,
                       "what": ((entries[0]["coq_explain"] or [i["what"] for i in entries[0]["python_search"]] or [""])[0]) if entries else None,
                       "broken_obligations": [[a, b2, c[-600:]] for a, b2, c in failed],
                       "how_to_replay": "./check C07 --replay <this file>"}, tag=src)
        reported = True
    if not reported:
        chk.violation({"property": "C07", "kind": "obligation no longer checks",
                       "broken": [{"what": a, "name": b2, "detail": c} for a, b2, c in failed],
                       "searched": "rs_search on %s: no schema defect found on the Rust text" % sorted(texts),
                       "how_to_replay": "./check C07 --replay <this file>"}, no_input=True)


def replay(path):
    r = json.load(open(path))
    doc = json.load(open(mm_path()))
    with V.build_lock():
        ok, fails, rs_rc, rs_out = translate(None)
        texts = sources()
        if r.get("kind") in ("generator-crash", "obligation no longer checks"):
            print("translators: %s" % ("ok" if ok else fails))
            if not ok:
                return 1
        coq = {}
        if ok and r.get("entries"):
            cok, _ = V.compile_chain([MM_V, RS_V])
            if cok:
                coq = explain()
    py = py_search(texts, doc)
    still = 0
    for e in r.get("entries", []):
        src = e["source"]
        c = [x for x in coq.get(src, []) if (x[0], x[1]) == (e["item"], e["field"])]
        p = [x for x in py.get(src, []) if (x["item"], x["field"]) == (e["item"], e["field"])]
        print("%s %s.%s: coq explain %s; search %s" % (src, e["item"], e["field"], [x[2] for x in c] or "-",
                                                      [(x["what"], x["expected"], x["observed"]) for x in p] or "-"))
        still += bool(c or p)
    if not r.get("entries"):
        total = sum(len(v) for v in py.values())
        print("no concrete site recorded; translators ok=%s, search issues now: %d" % (ok, total))
        return 1 if (not ok or total) else 0
    return 1 if still else 0
