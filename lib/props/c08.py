"""C08 — .NET classes declare the metamodel's wire schema and message metadata.

proof:   coq/props/C08.v: dotnet_ok mm files = true by vm_compute over the regenerated tables (exhaustive: every structure,
         flattened property, enumeration, request, notification, LSPMethods constant); its meaning by the PROVED
         LSP.Dotnet.dotnet_ok_spec, instantiated (C08_structures, C08_enumerations, C08_requests, C08_notifications, ...)
tie:     x_mm (lsp.json -> MMData.v); x_cs runs generator/plugins/dotnet of the CURRENT tree into a scratch directory and
         translates every emitted .cs file (tokeniser + fail-closed grammar) -> DotnetData.v
search:  independent of x_cs and of the Coq model: a regex reading of the same plugin output compared with lsp.json by a
         Python port of the rules (cs_of, nullable / Ignore / collections exception, constructor assignment, enum values,
         LSPRequest / LSPResponse / Direction / LSPMethods).  It is the source of the concrete replay.
No C# compiler is available: that the emitted code compiles is outside the claim.
"""
import json
import os
import re
import subprocess

import vcommon as V

RULE = ("exhaustive over the declarations of the committed metamodel against the plugin's fresh output: one item per (structure, "
        "flattened property) x {wire name, cs_of type, nullable, Ignore, constructor assignment}, per enumeration (value set), per "
        "request (method, response pairing both ways, direction, catalogue constant), per notification (direction, catalogue constant); "
        "distinct = distinct (class, member) / enumeration / method keys")

EXPLAIN_HDR = "From LSP Require Import Base MM Dotnet.\nFrom Gen Require Import MMData DotnetData.\nOpen Scope string_scope.\n"
DIR = {"clientToServer": "ClientToServer", "serverToClient": "ServerToClient", "both": "Both"}


# ------------------------------------------------------------------------------------------------ plugin run
def run_plugin(outdir):
    p = subprocess.run([V.PY, "-B", "-m", "generator", "--plugin", "dotnet", "--output-dir", outdir], cwd=V.REPO, env=V.repo_env(),
                       capture_output=True, text=True, timeout=600)
    return p.returncode, (p.stdout + p.stderr)[-1500:]


# ------------------------------------------------------------------------------------------------ independent search
CS_RESERVED = set("""abstract as base bool break byte case catch char checked class const continue decimal default delegate do double else
enum event explicit extern false finally fixed float for foreach goto if implicit in int interface internal is lock long namespace new
null object operator out override params private protected public readonly ref return sbyte sealed short sizeof stackalloc static string
struct switch this throw true try typeof uint ulong unchecked unsafe ushort using virtual void volatile while""".split())

# plugin call sites of the defects this check can attribute (used as stable finding keys by C06)
SITE_LITERAL = "dotnet:literal-property-type"                   # generate_literal_type / generate_name: helper record named like an existing class
SITE_KEYWORD = "dotnet:constructor-parameter-keyword"           # generate_constructor / get_special_case_property_name
SITE_NO_TYPENAME = "dotnet:request-without-typename-response-name"   # generate_all_classes: response_name == request_name when typeName is absent


def parse_cs_type(text):
    """C# type text -> (tree, top_level_nullable); trees: ("N", name) | ("G", name, [trees]) | ("T", [trees]); a nested `T?` is ("G", "?", [T])"""
    s = re.sub(r"\s+", "", text)
    pos = [0]

    def ty():
        if pos[0] < len(s) and s[pos[0]] == "(":
            pos[0] += 1
            items = []
            while True:
                t, nl = ty()
                items.append(("G", "?", [t]) if nl else t)
                if s[pos[0]] == ",":
                    pos[0] += 1
                    continue
                if s[pos[0]] == ")":
                    pos[0] += 1
                    break
                raise ValueError(text)
            t = ("T", items)
        else:
            m = re.compile(r"[A-Za-z_][\w.]*").match(s, pos[0])
            if not m:
                raise ValueError(text)
            pos[0] = m.end()
            if pos[0] < len(s) and s[pos[0]] == "<":
                pos[0] += 1
                args = []
                while True:
                    t, nl = ty()
                    args.append(("G", "?", [t]) if nl else t)
                    if s[pos[0]] == ",":
                        pos[0] += 1
                        continue
                    if s[pos[0]] == ">":
                        pos[0] += 1
                        break
                    raise ValueError(text)
                t = ("G", m.group(0), args)
            else:
                t = ("N", m.group(0))
        nl = False
        if pos[0] < len(s) and s[pos[0]] == "?":
            pos[0] += 1
            nl = True
        return t, nl
    try:
        t, nl = ty()
        if pos[0] != len(s):
            raise ValueError(text)
        return t, nl
    except (ValueError, IndexError):
        return ("N", "<unparsed:%s>" % text), False


def show(t):
    if t is None:
        return "<outside the mapping>"
    if t[0] == "N":
        return t[1]
    if t[0] == "G":
        return "%s?" % show(t[2][0]) if t[1] == "?" else "%s<%s>" % (t[1], ", ".join(show(x) for x in t[2]))
    if t[0] == "T":
        return "(%s)" % ", ".join(show(x) for x in t[1])
    if t[0] == "ALIAS":
        return "<generated class : %s>" % show(t[1])
    if t[0] == "VAR":
        return "<generated record with the members %s>" % ", ".join(t[1])
    if t[0] == "LIT":
        return "<generated record {%s}>" % "; ".join("%s%s %s%s" % (show(x), "?" if nl else "", k, " [Ignore]" if ig else "") for k, x, nl, ig in t[1])
    return repr(t)


class Search:
    """Regex reading of the plugin output against lsp.json.  Deliberately shares no code with lib/x_cs.py."""

    def __init__(self, outdir):
        import mmlib
        self.mm = mmlib.MMView()
        self.root = os.path.join(outdir, "lsprotocol")
        self.issues = []
        self.counts = {"classes": 0, "members": 0, "literal_classes": 0, "enums": 0, "enum_values": 0, "requests": 0, "notifications": 0, "method_constants": 0}
        self.keys = []
        self._src = {}

    def src(self, cls):
        """text of the file that declares `cls` (file name = metamodel name; Command.cs declares CommandAction)"""
        if cls not in self._src:
            p = os.path.join(self.root, cls + ".cs")
            self._src[cls] = open(p, encoding="utf-8").read() if os.path.exists(p) else None
        return self._src[cls]

    def issue(self, kind, cls, member, expected, observed, mm_entry, cs_text, file=None, site=None):
        d = {"kind": kind, "class": cls, "file": (file or cls) + ".cs", "member": member, "expected": expected,
             "observed": observed, "metamodel": mm_entry, "cs_text": cs_text}
        if site:
            d["site"] = site
        self.issues.append(d)

    @staticmethod
    def is_null(t):
        return t["kind"] == "base" and t["name"] == "null"

    @staticmethod
    def is_coll(t):
        return t is not None and t[0] == "G" and t[1] in ("ImmutableArray", "ImmutableDictionary")

    def variant_literals(self, its):
        """the plugin merges such a union into one class (outside the mapping of this check)"""
        if not all(i["kind"] == "literal" for i in its):
            return False

        def hov(name):
            occ = [p for l in its for p in l["value"]["properties"] if p["name"] == name]
            return any(p.get("optional") for p in occ) and len(occ) == len(its)
        return all(hov(p["name"]) for p in its[0]["value"]["properties"]) if its else True

    # -- the documented mapping: metamodel type -> expected tree (None: outside the mapping)
    def cs_of(self, t):
        E = self.mm.E
        k = t["kind"]
        if k == "base":
            return ("N", {"string": "string", "RegExp": "string", "DocumentUri": "Uri", "URI": "Uri", "decimal": "float", "integer": "int",
                          "uinteger": "long", "boolean": "bool", "null": "object"}[t["name"]])
        if k == "reference":
            n = t["name"]
            if n in E and E[n].get("supportsCustomValues"):
                if all(isinstance(v["value"], str) for v in E[n]["values"]):
                    return ("N", "string")
                if all(isinstance(v["value"], int) for v in E[n]["values"]):
                    return ("N", "int")
                return None
            return ("N", "CommandAction" if n == "Command" else n)
        if k == "array":
            e = self.cs_of(t["element"])
            return None if e is None else ("G", "ImmutableArray", [e])
        if k == "map":
            kk, v = self.cs_of(t["key"]), t["value"]
            vv = self.cs_of(v)
            if kk is None or vv is None:
                return None
            if v["kind"] == "or" and len([i for i in v["items"] if not self.is_null(i)]) >= 2:
                vv = ("ALIAS", vv)
            return ("G", "ImmutableDictionary", [kk, vv])
        if k == "stringLiteral":
            return ("N", "string")
        if k == "literal":
            ps = t["value"]["properties"]
            if not ps:
                return ("N", "LSPObject")
            ms = []
            for p in ps:
                c = self.cs_of(p["type"])
                if c is None:
                    return None
                opt, na = bool(p.get("optional")), self.mm.null_adm(p["type"])
                ms.append((p["name"], c, (opt or na) and not self.is_coll(c), opt and not na and not self.is_coll(c)))
            return ("LIT", ms)
        if k == "tuple":
            its = [self.cs_of(i) for i in t["items"] if not self.is_null(i)]
            return None if any(x is None for x in its) else ("T", its)
        if k == "or":
            its = [i for i in t["items"] if not self.is_null(i)]
            if len(its) == 1:
                return self.cs_of(its[0])
            if not its:
                return None
            if self.variant_literals(its):
                # merged by the plugin into ONE record: exactly one data member per property name of every alternative (names only)
                names = []
                for l in its:
                    for p in l["value"]["properties"]:
                        if p["name"] not in names:
                            names.append(p["name"])
                return ("VAR", names)
            sub = [self.cs_of(i) for i in its]
            return None if any(x is None for x in sub) else ("G", "OrType", sub)
        return None

    # -- does a declared type (tree) realise an expected tree?  returns None or a reason
    def match(self, exp, got):
        if exp is None:
            return "metamodel type outside the documented mapping"
        if exp[0] == "N":
            return None if got == exp else "expected %s, declared %s" % (show(exp), show(got))
        if exp[0] == "G":
            if got[0] != "G" or got[1] != exp[1] or len(got[2]) != len(exp[2]):
                return "expected %s, declared %s" % (show(exp), show(got))
            for e, g in zip(exp[2], got[2]):
                r = self.match(e, g)
                if r:
                    return r
            return None
        if exp[0] == "T":
            if got[0] != "T" or len(got[1]) != len(exp[1]):
                return "expected %s, declared %s" % (show(exp), show(got))
            for e, g in zip(exp[1], got[1]):
                r = self.match(e, g)
                if r:
                    return r
            return None
        if got[0] != "N":
            return "expected %s, declared %s" % (show(exp), show(got))
        v = got[1]
        vsrc = self.src(v)
        decl = re.search(r"((?:[ \t]*\[[^\n]*\][ \t]*\n)*)[ \t]*public\s+(?:record|class)\s+%s\b\s*(?::\s*([^\n{]+))?" % re.escape(v), vsrc) if vsrc else None
        if not decl:
            return "expected %s, declared %s which is no generated class" % (show(exp), v)
        if exp[0] == "ALIAS":
            if not decl.group(2):
                return "%s has no base type, expected : %s" % (v, show(exp[1]))
            bt, bnl = parse_cs_type(decl.group(2))
            return self.match(exp[1], bt) if not bnl else "%s has a nullable base" % v
        if exp[0] == "VAR":
            if "[DataContract]" not in decl.group(1):
                return "merged record %s lacks [DataContract]" % v
            mems = self.members(vsrc)
            ctor = self.ctor(vsrc)
            if sorted(mems) != sorted(exp[1]) or any(len(l) > 1 for l in mems.values()):
                return "%s declares data members %s, the alternatives of the union have %s" % (v, sorted(mems), sorted(exp[1]))
            for k in exp[1]:
                m = mems[k][0]
                # the constructor of a merged record starts with a braced guard (`if (all null) { throw ... }`): look for the assignment
                # `Ident = <parameter>;` in the constructor text up to the first member declaration
                head = vsrc.split("[DataMember", 1)[0]
                if "[JsonConstructor]" in head:
                    if not re.search(r"\b%s\s*=\s*\w+\s*;" % re.escape(m["ident"]), head):
                        return "%s.%s: not assigned in the [JsonConstructor]" % (v, k)
                elif not m["settable"]:
                    return "%s.%s: no [JsonConstructor] and no set/init accessor" % (v, k)
            return None
        if exp[0] == "LIT":
            self.counts["literal_classes"] += 1
            if "[DataContract]" not in decl.group(1):
                return "helper record %s lacks [DataContract]" % v
            mems = self.members(vsrc)
            ctor = self.ctor(vsrc)
            want = [k for k, _, _, _ in exp[1]]
            if sorted(mems) != sorted(want) or any(len(l) > 1 for l in mems.values()):
                return "%s declares data members %s, the literal has %s" % (v, sorted(mems), sorted(want))
            for k, e, nl, ig in exp[1]:
                m = mems[k][0]
                gt, gnl = parse_cs_type(m["type"])
                r = self.match(e, gt)
                if r:
                    return "%s.%s: %s" % (v, k, r)
                if gnl != nl:
                    return "%s.%s: must %sbe nullable" % (v, k, "" if nl else "not ")
                if m["ignore"] != ig:
                    return "%s.%s: NullValueHandling.Ignore %s" % (v, k, "required" if ig else "forbidden")
                if ctor is not None:
                    if not self.assigned(ctor, m["ident"])[0]:
                        return "%s.%s: not assigned in the [JsonConstructor]" % (v, k)
                elif not m["settable"]:
                    return "%s.%s: no [JsonConstructor] and no set/init accessor" % (v, k)
            return None
        return "unknown expectation %r" % (exp,)

    # -- structures
    MEMBER = re.compile(r"((?:[ \t]*\[[^\n]*\][ \t]*\n)+)[ \t]*((?:(?:public|private|protected|internal|static|readonly)[ \t]+)*)([^\n{;=]+?)[ \t]+(\w+)[ \t]*(\{[^\n]*|;|=[^\n]*)")
    CTOR = re.compile(r"\[JsonConstructor\]\s*public\s+\w+\s*\((.*?)\)\s*\{(.*?)\n\s*\}", re.S)

    def members(self, src):
        res = {}
        for m in self.MEMBER.finditer(src):
            at, mods, ty, ident, rest = m.groups()
            dm = re.search(r'DataMember\(\s*Name\s*=\s*"([^"]*)"\s*\)', at)
            if not dm:
                continue
            settable = bool(re.match(r"\{[^}]*?(?<!private )\b(set|init)\b", rest)) if rest.startswith("{") else "readonly" not in mods
            res.setdefault(dm.group(1), []).append({
                "ident": ident, "type": ty.strip(), "attrs": at, "settable": settable,
                "ignore": bool(re.search(r"JsonProperty\(\s*NullValueHandling\s*=\s*NullValueHandling\.Ignore\s*\)", at)),
                "text": (at + m.group(0)[len(at):]).strip()})
        return res

    def ctor(self, src):
        m = self.CTOR.search(src)
        if not m:
            return None
        params = [re.split(r"\s*=\s*", x.strip())[0].split()[-1] for x in self.split_top(m.group(1)) if x.strip()]
        assigns = re.findall(r"(?:this\.)?(\w+)\s*=\s*(\w+)\s*;", m.group(2))
        return params, assigns

    @staticmethod
    def assigned(ctor, ident):
        """(ok, reserved-word parameter or None)"""
        bad = None
        for lhs, rhs in ctor[1]:
            if lhs == ident and rhs in ctor[0]:
                if rhs in CS_RESERVED:
                    bad = rhs
                else:
                    return True, None
        return False, bad

    @staticmethod
    def split_top(s):
        out, cur, depth = [], "", 0
        for ch in s:
            if ch in "<([":
                depth += 1
            elif ch in ">)]":
                depth -= 1
            if ch == "," and depth == 0:
                out.append(cur); cur = ""
            else:
                cur += ch
        return out + [cur]

    def type_positions(self):
        seen = set()

        def walk(t):
            k = t["kind"]
            if k == "reference":
                seen.add(t["name"])
            elif k == "array":
                walk(t["element"])
            elif k == "map":
                walk(t["key"]); walk(t["value"])
            elif k in ("or", "and", "tuple"):
                for i in t["items"]:
                    walk(i)
            elif k == "literal":
                for p in t["value"]["properties"]:
                    walk(p["type"])
        d = self.mm.doc
        for s in d["structures"]:
            for p in s["properties"]:
                walk(p["type"])
        for a in d["typeAliases"]:
            walk(a["type"])
        for r in d["requests"] + d["notifications"]:
            for f in ("params", "result", "partialResult", "errorData", "registrationOptions"):
                if r.get(f) and isinstance(r[f], dict):
                    walk(r[f])
        return seen

    @staticmethod
    def has_literal(t):
        return t is not None and (t[0] == "LIT" or (t[0] in ("G",) and any(Search.has_literal(x) for x in t[2]))
                                  or (t[0] == "T" and any(Search.has_literal(x) for x in t[1])) or (t[0] == "ALIAS" and Search.has_literal(t[1])))

    def structures(self):
        used = self.type_positions()
        for sn, s in self.mm.S.items():
            if sn.startswith("_") and sn not in used:
                continue          # pinned: private base, checked through its heirs
            cls = "CommandAction" if sn == "Command" else sn
            src = self.src(sn)
            if src is None or not re.search(r"public\s+(?:record|class)\s+%s\b" % re.escape(cls), src):
                self.issue("class-missing", cls, "", "a class for structure " + sn, "no file / declaration", {"structure": sn}, None, file=sn)
                continue
            self.counts["classes"] += 1
            if not re.search(r"\[DataContract\]\s*public\s+(?:record|class)\s+%s\b" % re.escape(cls), src):
                self.issue("contract", cls, "DataContract", "[DataContract] on the class", "absent", {"structure": sn},
                           (re.search(r"[^\n]*public\s+(?:record|class)\s+%s[^\n]*" % re.escape(cls), src) or [""])[0].strip(), file=sn)
            mems = self.members(src)
            ctor = self.ctor(src)
            flat = self.mm.flat(sn)
            for wire, lst in mems.items():
                if wire not in flat:
                    self.issue("member-extra", cls, wire, "only flattened properties %s" % sorted(flat), wire, {"structure": sn}, lst[0]["text"], file=sn)
                if len(lst) > 1:
                    self.issue("member-dup", cls, wire, "one data member", "%d data members" % len(lst), {"structure": sn}, lst[0]["text"], file=sn)
            for pn, pr in flat.items():
                self.keys.append((cls, pn))
                entry = {"structure": sn, "property": {k: pr[k] for k in ("name", "type", "optional") if k in pr}}
                if pn not in mems:
                    near = [m_["text"] for ms in mems.values() for m_ in ms if m_["ident"].lower() == pn.lower()]
                    self.issue("member-missing", cls, pn, '[DataMember(Name = "%s")]' % pn, "wire names %s" % sorted(mems), entry, near[0] if near else None, file=sn)
                    continue
                self.counts["members"] += 1
                m = mems[pn][0]
                got, nullable = parse_cs_type(m["type"])
                exp = self.cs_of(pr["type"])
                why = self.match(exp, got)
                if why:
                    self.issue("type", cls, pn, show(exp), m["type"] + "  (" + why + ")", entry, m["text"], file=sn,
                               site=SITE_LITERAL if self.has_literal(exp) else None)
                coll = self.is_coll(exp)
                opt, na = bool(pr.get("optional")), self.mm.null_adm(pr["type"])
                want_null = (opt or na) and not coll
                want_ign = opt and not na and not coll
                if nullable != want_null:
                    self.issue("nullable", cls, pn, "nullable" if want_null else "not nullable", m["type"], entry, m["text"], file=sn)
                if m["ignore"] != want_ign:
                    self.issue("ignore", cls, pn, "NullValueHandling.Ignore " + ("required" if want_ign else "forbidden"),
                               "present" if m["ignore"] else "absent", entry, m["text"], file=sn)
                ok, reserved = self.assigned(ctor, m["ident"]) if ctor is not None else (False, None)
                if not ok:
                    ctext = None
                    if reserved:
                        mm_ = re.search(r"[^\n]*\b%s\b\s*(?:=[^\n,]*)?,?\s*\n" % re.escape(reserved), self.CTOR.search(src).group(1) + "\n")
                        ctext = ((mm_.group(0).strip() + "  ...  ") if mm_ else "") + "%s = %s;" % (m["ident"], reserved)
                    self.issue("ctor", cls, pn, "%s = <constructor parameter>; in the [JsonConstructor]" % m["ident"],
                               "no [JsonConstructor]" if ctor is None else
                               ("the parameter is named `%s`, a C# reserved word: not an identifier, the constructor is not C#" % reserved if reserved
                                else "assignments %s" % [a for a, _ in ctor[1]]),
                               entry, ctext or m["text"], file=sn, site=SITE_KEYWORD if reserved else None)

    # -- enumerations
    def enumerations(self):
        for en, e in self.mm.E.items():
            self.keys.append(("enum", en))
            want = [v["value"] for v in e["values"]]
            src = self.src(en)
            if src is None or not re.search(r"public\s+enum\s+%s\b" % re.escape(en), src):
                self.issue("enum-missing", en, "", want, "no file / declaration", {"enumeration": en}, None)
                continue
            self.counts["enums"] += 1
            self.counts["enum_values"] += len(want)
            body = src[src.index("enum " + en):]
            body = re.sub(r"//[^\n]*", "", body)
            conv = bool(re.search(r"\[JsonConverter\(typeof\(StringEnumConverter\)\)\]\s*public\s+enum", src))
            if conv:
                # under StringEnumConverter a member carries its [EnumMember] value, else its identifier
                inner = re.sub(r"\[(?!EnumMember\b)[^\]\n]*\]", "", body[body.index("{"):])
                got = [val if attr else ident for attr, val, ident in
                       re.findall(r'(\[EnumMember\(\s*Value\s*=\s*"([^"]*)"\s*\)\]\s*)?(\w+)\s*(?:=\s*-?\d+\s*)?,', inner)]
            else:
                got, nxt = [], 0
                for a, num in re.findall(r"(\w+)\s*(?:=\s*(-?\d+)\s*)?,", re.sub(r"\[[^\]]*\]", "", body[body.index("{"):])):
                    nxt = int(num) if num else nxt
                    got.append(nxt)
                    nxt += 1
            if sorted(map(repr, got)) != sorted(map(repr, want)):
                self.issue("enum", en, "", want, got, {"enumeration": en, "values": e["values"]},
                           "\n".join(l for l in body.split("\n") if l.strip())[:600])

    # -- messages
    def msg_name(self, entry, suffix, consts):
        """typeName, else the name of the LSPMethods constant holding the method (the generated catalogue is the naming oracle)"""
        n = entry.get("typeName")
        if not n:
            n = next((c for c, v in consts if v == entry["method"]), None)
        if not n:
            return None
        return n if n.endswith(suffix) else n + suffix

    def class_attrs(self, src, cls):
        m = re.search(r"((?:[ \t]*\[[^\n]*\][ \t]*\n)*)[ \t]*public\s+(?:record|class)\s+%s\b[^\n]*" % re.escape(cls), src)
        return (m.group(1), m.group(0).strip()) if m else (None, None)

    def direction(self, cls, src, entry, key):
        at, text = self.class_attrs(src, cls)
        got = re.findall(r"\[Direction\(\s*MessageDirection\.(\w+)\s*\)\]", at or "")
        want = DIR[entry["messageDirection"]]
        if not got or any(g != want for g in got):
            self.issue("direction", cls, "Direction", want, got, {key: entry["method"], "messageDirection": entry["messageDirection"]}, text)

    def messages(self):
        d = self.mm.doc
        msrc = self.src("LSPMethods") or ""
        consts = re.findall(r'public\s+(?:static\s+|const\s+)+string\s+(\w+)\s*(?:\{[^}]*\})?\s*=\s*"([^"]*)"\s*;', re.sub(r"(?m)^\s*//[^\n]*", "", msrc))
        self.counts["method_constants"] = len(consts)
        values = [v for _, v in consts]
        allm = [r["method"] for r in d["requests"]] + [n["method"] for n in d["notifications"]]
        for c, v in consts:
            if v not in allm:
                self.issue("methods", "LSPMethods", c, "a metamodel method", v, {}, 'public static string %s ... = "%s";' % (c, v))
        for r in d["requests"]:
            self.keys.append(("request", r["method"]))
            me = {"request": r["method"], "typeName": r.get("typeName")}
            n = self.msg_name(r, "Request", consts)
            if n is None:
                self.issue("methods", r["method"], "LSPMethods", 'typeName or a constant = "%s" to name the class' % r["method"], "neither", me, None, file="LSPMethods")
                continue
            src = self.src(n)
            if src is None:
                self.issue("class-missing", n, "", "a class for request " + r["method"], "no file", me, None)
            else:
                self.counts["requests"] += 1
                at, text = self.class_attrs(src, n)
                m = re.search(r'\[LSPRequest\(\s*"([^"]*)"\s*,\s*typeof\(\s*(\w+)\s*\)', at or "")
                if not m:
                    self.issue("lsprequest", n, "LSPRequest", '[LSPRequest("%s", typeof(<Response>))]' % r["method"], "absent", me, text)
                else:
                    if m.group(1) != r["method"]:
                        self.issue("method", n, "LSPRequest", r["method"], m.group(1), me, text)
                    resp = m.group(2)
                    rsrc = self.src(resp)
                    rat, rtext = self.class_attrs(rsrc, resp) if rsrc else (None, None)
                    back = re.search(r"\[LSPResponse\(\s*typeof\(\s*(\w+)\s*\)\s*\)\]", rat or "")
                    if not back or back.group(1) != n:
                        self.issue("pairing", n, "LSPRequest", "typeof(R) with R carrying [LSPResponse(typeof(%s))]" % n,
                                   {"response_class": resp, "its_LSPResponse": back.group(1) if back else None, "exists": rsrc is not None},
                                   me, (text or "") + "  //  " + ((rat or "").strip() + " " + (rtext or "<no such class>")).strip(),
                                   site=SITE_NO_TYPENAME if not r.get("typeName") else None)
                self.direction(n, src, r, "request")
            if r["method"] not in values:
                self.issue("methods", n, "LSPMethods", 'a constant = "%s"' % r["method"], "absent", me, None, file="LSPMethods")
        for x in d["notifications"]:
            self.keys.append(("notification", x["method"]))
            me = {"notification": x["method"], "typeName": x.get("typeName")}
            n = self.msg_name(x, "Notification", consts)
            if n is None:
                self.issue("methods", x["method"], "LSPMethods", 'typeName or a constant = "%s" to name the class' % x["method"], "neither", me, None, file="LSPMethods")
                continue
            src = self.src(n)
            if src is None:
                self.issue("class-missing", n, "", "a class for notification " + x["method"], "no file", me, None)
            else:
                self.counts["notifications"] += 1
                self.direction(n, src, x, "notification")
            if x["method"] not in values:
                self.issue("methods", n, "LSPMethods", 'a constant = "%s"' % x["method"], "absent", me, None, file="LSPMethods")

    def run(self):
        self.structures()
        self.enumerations()
        self.messages()
        return self.issues


# ------------------------------------------------------------------------------------------------ explain twin
def explain():
    out = V.coq_eval("C08Explain", EXPLAIN_HDR, ["explain mm files"], timeout=300)[0]
    return [{"class": c, "member": m, "reason": r} for c, m, r in re.findall(r'\("([^"]*)",\s*"([^"]*)",\s*"([^"]*)"\)', out)]


def kind_of(reason):
    return reason.split(":")[0]


# ------------------------------------------------------------------------------------------------ check
def run(chk):
    chk.rule = RULE
    chk.exhaustive = True
    chk.trusted = V.STD_TRUSTED + [
        "translators lib/x_mm.py (lsp.json -> Coq data) and lib/x_cs.py (tokeniser + fail-closed grammar over the emitted .cs files; "
        "what it keeps of a file is listed in its docstring); cross-examined on every run by the independent regex search of lib/props/c08.py",
        "specification choices of LSP.Dotnet: cs_of IS the reading of 'the mapped C# type'; immutable collections are exempt from nullable/Ignore; "
        "'_'-prefixed structures used in no type position need no class; [DataContract] required; notification method strings are read "
        "through the LSPMethods catalogue; pairing is mutual reference",
        "Newtonsoft.Json attribute semantics ([DataContract]/[DataMember(Name)], [JsonProperty(NullValueHandling)], [JsonConstructor], "
        "StringEnumConverter/[EnumMember]) are taken as documented: no C# compiler or runtime is available, nothing is executed",
    ]
    chk.assumptions = ["quantifier: the committed generator/lsp.json; the plugin is run from the current tree with PYTHONHASHSEED=0"]
    mm_v = os.path.join(V.GEN, "MMData.v")
    cs_v = os.path.join(V.GEN, "DotnetData.v")
    fails, witnesses, proved, stats = [], [], False, {}
    with V.scratch("verif-c08-") as d:
        with V.build_lock():
            p = V.run_py("x_mm.py", [os.path.join(V.REPO, "generator", "lsp.json"), mm_v])
            chk.obligation("translate:x_mm", p.returncode == 0, (p.stdout + p.stderr)[-300:])
            if p.returncode != 0:
                fails.append(("translator", "x_mm", (p.stdout + p.stderr)[-1500:]))
            p2 = V.run_py("x_cs.py", [d, cs_v])
            chk.obligation("translate:x_cs", p2.returncode == 0, (p2.stdout + p2.stderr)[-300:])
            if p2.returncode != 0:
                fails.append(("translator", "x_cs", (p2.stdout + p2.stderr)[-1500:]))
            else:
                stats = json.loads(p2.stdout.strip().split("\n")[-1])
            if not fails:
                proved, f2 = V.prove(chk, "C08", [mm_v, cs_v])
                fails += f2
                data_ok = os.path.exists(cs_v[:-2] + ".vo") and os.path.exists(mm_v[:-2] + ".vo")
                if not proved and data_ok:
                    try:
                        witnesses = explain()
                    except Exception as e:  # best effort: the search below is the replay source
                        witnesses = [{"explain_failed": str(e)[-400:]}]
        # independent search on the real plugin output (always: cheap, and it is the replay source)
        have_output = os.path.isdir(os.path.join(d, "lsprotocol")) and any(f.endswith(".cs") for f in os.listdir(os.path.join(d, "lsprotocol")))
        if not have_output:
            rc, log = run_plugin(d)
            have_output = rc == 0
            if rc != 0:
                fails.append(("plugin", "generator --plugin dotnet", log))
        issues, s = None, None
        if have_output:
            s = Search(d)
            issues = s.run()
    if s is not None:
        for k in s.keys:
            chk.count(k)
        chk.extra["search_counts"] = s.counts
    chk.extra["translated"] = stats
    chk.obligation("search:plugin-output-vs-metamodel", issues is not None,
                   "%s issues" % len(issues) if issues is not None else "plugin produced no output")
    if s is not None and not issues:
        chk.sample({"class": "Position", "flattened": list(s.mm.flat("Position"))} if "Position" in s.mm.S else {})
        chk.sample({"counts": s.counts})

    by_kind, kinds = {}, set()
    for i in issues or []:
        by_kind.setdefault((i["kind"], i.get("site")), []).append(i)
        kinds.add(i["kind"])
    for (kind, site), lst in by_kind.items():
        first = lst[0]
        chk.violation({"property": "C08", "kind": "generated C# differs from the metamodel: " + kind,
                       "input": first,
                       "expected": first["expected"], "observed_impl": first["observed"],
                       "site": site, "all_sites": sorted({x for _, x in by_kind if x}),
                       "all": [{"class": i["class"], "member": i["member"], "expected": i["expected"], "observed": i["observed"]} for i in lst[:40]],
                       "count": len(lst),
                       "observed_model": [w for w in witnesses if kind_of(w.get("reason", "")) == kind][:40],
                       "obligation": [f[1] for f in fails] or ["search:plugin-output-vs-metamodel"],
                       "how_to_replay": "./check C08 --replay <this file>  (re-runs the dotnet plugin of the current tree and re-examines this class)"},
                      tag=kind + ("-" + site.split(":")[-1] if site else ""))
    model_only = [w for w in witnesses if "reason" in w and kind_of(w["reason"]) not in kinds]
    if (fails and not by_kind) or model_only:
        chk.violation({"property": "C08", "kind": "obligation no longer checks",
                       "broken": [{"what": a, "name": b, "detail": c} for a, b, c in fails],
                       "observed_model": model_only or witnesses,
                       "searched": "regex search of the plugin output against lsp.json (every structure member, enumeration, request, notification, "
                                   "LSPMethods constant): %s" % ("no difference of this kind" if issues is not None else "could not run")},
                      no_input=True, tag="obligation")


def replay(path):
    r = json.load(open(path))
    inp = r.get("input")
    with V.scratch("verif-c08-replay-") as d:
        rc, log = run_plugin(d)
        if rc != 0:
            print("the dotnet plugin fails:", log[-800:])
            return 1
        issues = Search(d).run()
    if not inp:
        print("no concrete input recorded; current issues:", len(issues), json.dumps(r.get("broken"))[:1500])
        return 1 if issues else 0
    still = [i for i in issues if i["kind"] == inp["kind"] and i["class"] == inp["class"] and i["member"] == inp["member"]]
    if still:
        i = still[0]
        print("still failing: %s %s.%s expected %s observed %s\n  C#: %s" % (i["kind"], i["class"], i["member"], json.dumps(i["expected"]), json.dumps(i["observed"]), i["cs_text"]))
        return 1
    print("no longer failing: %s %s.%s (expected %s)" % (inp["kind"], inp["class"], inp["member"], json.dumps(inp["expected"])))
    return 0
