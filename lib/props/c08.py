"""C08 — .NET classes declare the metamodel's wire schema and message metadata.

proof:   coq/props/C08.v: dotnet_ok mm files = true by vm_compute over the regenerated tables (exhaustive: every structure,
         flattened property, enumeration, request, notification, LSPMethods constant); its meaning by the PROVED
         LSP.Dotnet.dotnet_ok_spec, instantiated (C08_structures, C08_enumerations, C08_requests, C08_notifications, ...)
tie:     x_mm (lsp.json -> MMData.v); x_cs runs generator/plugins/dotnet of the CURRENT tree into a scratch directory and
         translates every emitted .cs file (tokeniser + fail-closed grammar) -> DotnetData.v
search:  independent of x_cs and of the Coq model: a regex reading of the same plugin output compared with lsp.json by a
         Python port of the rules (cs_of, nullable / Ignore / collections exception, constructor assignment, enum values,
         LSPRequest / LSPResponse / Direction / LSPMethods).  It is the source of the concrete replay.
No C# compiler is available: that the emitted code compiles is outside the claim.
"""
import json
import os
import re
import subprocess

import vcommon as V

RULE = ("exhaustive over the declarations of the committed metamodel against the plugin's fresh output: one item per (structure, "
        "flattened property) x {wire name, cs_of type, nullable, Ignore, constructor assignment}, per enumeration (value set), per "
        "request (method, response pairing both ways, direction, catalogue constant), per notification (direction, catalogue constant); "
        "distinct = distinct (class, member) / enumeration / method keys")

EXPLAIN_HDR = "From LSP Require Import Base MM Dotnet.\nFrom Gen Require Import MMData DotnetData.\nOpen Scope string_scope.\n"
DIR = {"clientToServer": "ClientToServer", "serverToClient": "ServerToClient", "both": "Both"}


# ------------------------------------------------------------------------------------------------ plugin run
def run_plugin(outdir):
    p = subprocess.run([V.PY, "-B", "-m", "generator", "--plugin", "dotnet", "--output-dir", outdir], cwd=V.REPO, env=V.repo_env(),
                       capture_output=True, text=True, timeout=600)
    return p.returncode, (p.stdout + p.stderr)[-1500:]


# ------------------------------------------------------------------------------------------------ independent search
class Search:
    """Regex reading of the plugin output against lsp.json.  Deliberately shares no code with lib/x_cs.py."""
    GEN = object()

    def __init__(self, outdir):
        import mmlib
        self.mm = mmlib.MMView()
        self.root = os.path.join(outdir, "lsprotocol")
        self.issues = []
        self.counts = {"classes": 0, "members": 0, "enums": 0, "enum_values": 0, "requests": 0, "notifications": 0, "method_constants": 0}
        self.keys = []
        self._src = {}

    def src(self, cls):
        """text of the file that declares `cls` (file name = metamodel name; Command.cs declares CommandAction)"""
        if cls not in self._src:
            p = os.path.join(self.root, cls + ".cs")
            self._src[cls] = open(p, encoding="utf-8").read() if os.path.exists(p) else None
        return self._src[cls]

    def issue(self, kind, cls, member, expected, observed, mm_entry, cs_text, file=None):
        self.issues.append({"kind": kind, "class": cls, "file": (file or cls) + ".cs", "member": member, "expected": expected,
                            "observed": observed, "metamodel": mm_entry, "cs_text": cs_text})

    # -- the documented mapping
    def cs_of(self, t):
        E = self.mm.E
        k = t["kind"]
        if k == "base":
            return {"string": "string", "RegExp": "string", "DocumentUri": "Uri", "URI": "Uri", "decimal": "float", "integer": "int",
                    "uinteger": "long", "boolean": "bool", "null": "object"}[t["name"]]
        if k == "reference":
            n = t["name"]
            if n in E and E[n].get("supportsCustomValues"):
                if all(isinstance(v["value"], str) for v in E[n]["values"]):
                    return "string"
                if all(isinstance(v["value"], int) for v in E[n]["values"]):
                    return "int"
                return None
            return "CommandAction" if n == "Command" else n
        if k == "array":
            e = self.cs_of(t["element"])
            return e if e is None or e is self.GEN else "ImmutableArray<%s>" % e
        if k == "map":
            kk = self.cs_of(t["key"])
            v = t["value"]
            if v["kind"] == "or" and len([i for i in v["items"] if not self.is_null(i)]) >= 2:
                inner = self.cs_of(v)
                return None if inner is None or kk is None else ("DICT", kk, inner)
            vv = self.cs_of(v)
            return None if vv is None or kk is None or isinstance(vv, tuple) else "ImmutableDictionary<%s, %s>" % (kk, vv)
        if k == "stringLiteral":
            return "string"
        if k == "literal":
            return "LSPObject" if not t["value"]["properties"] else None
        if k == "tuple":
            its = [self.cs_of(i) for i in t["items"] if not self.is_null(i)]
            return None if any(x is None or isinstance(x, tuple) for x in its) else "(%s)" % ", ".join(its)
        if k == "or":
            its = [i for i in t["items"] if not self.is_null(i)]
            if len(its) == 1:
                return self.cs_of(its[0])
            if not its or all(i["kind"] == "literal" for i in its):
                return None
            sub = [self.cs_of(i) for i in its]
            return None if any(x is None or isinstance(x, tuple) for x in sub) else "OrType<%s>" % ", ".join(sub)
        return None

    @staticmethod
    def is_null(t):
        return t["kind"] == "base" and t["name"] == "null"

    @staticmethod
    def norm(s):
        return re.sub(r"\s+", "", s)

    # -- structures
    MEMBER = re.compile(r"((?:[ \t]*\[[^\n]*\][ \t]*\n)+)[ \t]*(?:public|private|protected|internal)?[ \t]*([^\n{;=]+?)[ \t]+(\w+)[ \t]*(?:\{|;|=)")
    CTOR = re.compile(r"\[JsonConstructor\]\s*public\s+\w+\s*\((.*?)\)\s*\{(.*?)\n\s*\}", re.S)

    def members(self, src):
        res = {}
        for m in self.MEMBER.finditer(src):
            at, ty, ident = m.groups()
            dm = re.search(r'DataMember\(\s*Name\s*=\s*"([^"]*)"\s*\)', at)
            if not dm:
                continue
            res.setdefault(dm.group(1), []).append({"ident": ident, "type": ty.strip(), "attrs": at, "text": (at + m.group(0)[len(at):]).strip()})
        return res

    def ctor(self, src):
        m = self.CTOR.search(src)
        if not m:
            return None
        params = [re.split(r"\s*=\s*", x.strip())[0].split()[-1] for x in self.split_top(m.group(1)) if x.strip()]
        assigns = re.findall(r"(?:this\.)?(\w+)\s*=\s*(\w+)\s*;", m.group(2))
        return params, assigns

    @staticmethod
    def split_top(s):
        out, cur, depth = [], "", 0
        for ch in s:
            if ch in "<([":
                depth += 1
            elif ch in ">)]":
                depth -= 1
            if ch == "," and depth == 0:
                out.append(cur); cur = ""
            else:
                cur += ch
        return out + [cur]

    def type_positions(self):
        seen = set()

        def walk(t):
            k = t["kind"]
            if k == "reference":
                seen.add(t["name"])
            elif k == "array":
                walk(t["element"])
            elif k == "map":
                walk(t["key"]); walk(t["value"])
            elif k in ("or", "and", "tuple"):
                for i in t["items"]:
                    walk(i)
            elif k == "literal":
                for p in t["value"]["properties"]:
                    walk(p["type"])
        d = self.mm.doc
        for s in d["structures"]:
            for p in s["properties"]:
                walk(p["type"])
        for a in d["typeAliases"]:
            walk(a["type"])
        for r in d["requests"] + d["notifications"]:
            for f in ("params", "result", "partialResult", "errorData", "registrationOptions"):
                if r.get(f) and isinstance(r[f], dict):
                    walk(r[f])
        return seen

    def structures(self):
        used = self.type_positions()
        for sn, s in self.mm.S.items():
            if sn.startswith("_") and sn not in used:
                continue          # pinned: private base, checked through its heirs
            cls = "CommandAction" if sn == "Command" else sn
            src = self.src(sn)
            if src is None or not re.search(r"public\s+(?:record|class)\s+%s\b" % re.escape(cls), src):
                self.issue("class-missing", cls, "", "a class for structure " + sn, "no file / declaration", {"structure": sn}, None, file=sn)
                continue
            self.counts["classes"] += 1
            if not re.search(r"\[DataContract\]\s*public\s+(?:record|class)\s+%s\b" % re.escape(cls), src):
                self.issue("contract", cls, "DataContract", "[DataContract] on the class", "absent", {"structure": sn},
                           (re.search(r"[^\n]*public\s+(?:record|class)\s+%s[^\n]*" % re.escape(cls), src) or [""])[0].strip(), file=sn)
            mems = self.members(src)
            ctor = self.ctor(src)
            flat = self.mm.flat(sn)
            for wire, lst in mems.items():
                if wire not in flat:
                    self.issue("member-extra", cls, wire, "only flattened properties %s" % sorted(flat), wire, {"structure": sn}, lst[0]["text"], file=sn)
                if len(lst) > 1:
                    self.issue("member-dup", cls, wire, "one data member", "%d data members" % len(lst), {"structure": sn}, lst[0]["text"], file=sn)
            for pn, pr in flat.items():
                self.keys.append((cls, pn))
                entry = {"structure": sn, "property": {k: pr[k] for k in ("name", "type", "optional") if k in pr}}
                if pn not in mems:
                    near = [m_["text"] for ms in mems.values() for m_ in ms if m_["ident"].lower() == pn.lower()]
                    self.issue("member-missing", cls, pn, '[DataMember(Name = "%s")]' % pn, "wire names %s" % sorted(mems), entry, near[0] if near else None, file=sn)
                    continue
                self.counts["members"] += 1
                m = mems[pn][0]
                decl = m["type"]
                nullable = decl.endswith("?")
                got = decl[:-1] if nullable else decl
                exp = self.cs_of(pr["type"])
                coll = False
                if exp is None:
                    self.issue("type", cls, pn, "a type inside the documented mapping", decl, entry, m["text"], file=sn)
                elif isinstance(exp, tuple):
                    coll = True
                    mm_ = re.fullmatch(r"ImmutableDictionary<%s,\s*(\w+)>" % re.escape(exp[1]), got)
                    vsrc = self.src(mm_.group(1)) if mm_ else None
                    base = re.search(r"public\s+(?:record|class)\s+%s\s*:\s*([^\n{]+)" % re.escape(mm_.group(1)), vsrc) if vsrc else None
                    if not (base and self.norm(base.group(1)) == self.norm(exp[2])):
                        self.issue("type", cls, pn, "ImmutableDictionary<%s, V> with V : %s" % (exp[1], exp[2]), decl, entry, m["text"], file=sn)
                else:
                    coll = exp.startswith("ImmutableArray<") or exp.startswith("ImmutableDictionary<")
                    if self.norm(got) != self.norm(exp):
                        self.issue("type", cls, pn, exp, decl, entry, m["text"], file=sn)
                opt, na = bool(pr.get("optional")), self.mm.null_adm(pr["type"])
                want_null = (opt or na) and not coll
                want_ign = opt and not na and not coll
                if nullable != want_null:
                    self.issue("nullable", cls, pn, "nullable" if want_null else "not nullable", decl, entry, m["text"], file=sn)
                ign = bool(re.search(r"JsonProperty\(\s*NullValueHandling\s*=\s*NullValueHandling\.Ignore\s*\)", m["attrs"]))
                if ign != want_ign:
                    self.issue("ignore", cls, pn, "NullValueHandling.Ignore " + ("required" if want_ign else "forbidden"),
                               "present" if ign else "absent", entry, m["text"], file=sn)
                ok = ctor is not None and any(lhs == m["ident"] and rhs in ctor[0] for lhs, rhs in ctor[1])
                if not ok:
                    self.issue("ctor", cls, pn, "%s = <constructor parameter>; in the [JsonConstructor]" % m["ident"],
                               "no [JsonConstructor]" if ctor is None else "assignments %s" % [a for a, _ in ctor[1]], entry, m["text"], file=sn)

    # -- enumerations
    def enumerations(self):
        for en, e in self.mm.E.items():
            self.keys.append(("enum", en))
            want = [v["value"] for v in e["values"]]
            src = self.src(en)
            if src is None or not re.search(r"public\s+enum\s+%s\b" % re.escape(en), src):
                self.issue("enum-missing", en, "", want, "no file / declaration", {"enumeration": en}, None)
                continue
            self.counts["enums"] += 1
            self.counts["enum_values"] += len(want)
            body = src[src.index("enum " + en):]
            body = re.sub(r"//[^\n]*", "", body)
            conv = bool(re.search(r"\[JsonConverter\(typeof\(StringEnumConverter\)\)\]\s*public\s+enum", src))
            if conv:
                # under StringEnumConverter a member carries its [EnumMember] value, else its identifier
                inner = re.sub(r"\[(?!EnumMember\b)[^\]\n]*\]", "", body[body.index("{"):])
                got = [val if attr else ident for attr, val, ident in
                       re.findall(r'(\[EnumMember\(\s*Value\s*=\s*"([^"]*)"\s*\)\]\s*)?(\w+)\s*(?:=\s*-?\d+\s*)?,', inner)]
            else:
                got, nxt = [], 0
                for a, num in re.findall(r"(\w+)\s*(?:=\s*(-?\d+)\s*)?,", re.sub(r"\[[^\]]*\]", "", body[body.index("{"):])):
                    nxt = int(num) if num else nxt
                    got.append(nxt)
                    nxt += 1
            if sorted(map(repr, got)) != sorted(map(repr, want)):
                self.issue("enum", en, "", want, got, {"enumeration": en, "values": e["values"]},
                           "\n".join(l for l in body.split("\n") if l.strip())[:600])

    # -- messages
    @staticmethod
    def msg_name(entry, suffix):
        n = entry.get("typeName")
        if not n:
            return None
        return n if n.endswith(suffix) else n + suffix

    def class_attrs(self, src, cls):
        m = re.search(r"((?:[ \t]*\[[^\n]*\][ \t]*\n)*)[ \t]*public\s+(?:record|class)\s+%s\b[^\n]*" % re.escape(cls), src)
        return (m.group(1), m.group(0).strip()) if m else (None, None)

    def direction(self, cls, src, entry, key):
        at, text = self.class_attrs(src, cls)
        got = re.findall(r"\[Direction\(\s*MessageDirection\.(\w+)\s*\)\]", at or "")
        want = DIR[entry["messageDirection"]]
        if not got or any(g != want for g in got):
            self.issue("direction", cls, "Direction", want, got, {key: entry["method"], "messageDirection": entry["messageDirection"]}, text)

    def messages(self):
        d = self.mm.doc
        msrc = self.src("LSPMethods") or ""
        consts = re.findall(r'public\s+(?:static\s+|const\s+)+string\s+(\w+)\s*(?:\{[^}]*\})?\s*=\s*"([^"]*)"\s*;', re.sub(r"(?m)^\s*//[^\n]*", "", msrc))
        self.counts["method_constants"] = len(consts)
        values = [v for _, v in consts]
        allm = [r["method"] for r in d["requests"]] + [n["method"] for n in d["notifications"]]
        for c, v in consts:
            if v not in allm:
                self.issue("methods", "LSPMethods", c, "a metamodel method", v, {}, 'public static string %s ... = "%s";' % (c, v))
        for r in d["requests"]:
            self.keys.append(("request", r["method"]))
            n = self.msg_name(r, "Request")
            if n is None:
                self.issue("request-name", r["method"], "", "typeName", None, {"request": r["method"]}, None)
                continue
            src = self.src(n)
            if src is None:
                self.issue("class-missing", n, "", "a class for request " + r["method"], "no file", {"request": r["method"]}, None)
            else:
                self.counts["requests"] += 1
                at, text = self.class_attrs(src, n)
                m = re.search(r'\[LSPRequest\(\s*"([^"]*)"\s*,\s*typeof\(\s*(\w+)\s*\)', at or "")
                if not m:
                    self.issue("lsprequest", n, "LSPRequest", '[LSPRequest("%s", typeof(<Response>))]' % r["method"], "absent", {"request": r["method"]}, text)
                else:
                    if m.group(1) != r["method"]:
                        self.issue("method", n, "LSPRequest", r["method"], m.group(1), {"request": r["method"]}, text)
                    resp = m.group(2)
                    rsrc = self.src(resp)
                    rat, rtext = self.class_attrs(rsrc, resp) if rsrc else (None, None)
                    back = re.search(r"\[LSPResponse\(\s*typeof\(\s*(\w+)\s*\)\s*\)\]", rat or "")
                    if not back or back.group(1) != n:
                        self.issue("pairing", n, "LSPRequest", "typeof(R) with R carrying [LSPResponse(typeof(%s))]" % n,
                                   {"response_class": resp, "its_LSPResponse": back.group(1) if back else None, "exists": rsrc is not None},
                                   {"request": r["method"]}, (text or "") + " // " + (rtext or "<no such class>"))
                self.direction(n, src, r, "request")
            if r["method"] not in values:
                self.issue("methods", n, "LSPMethods", 'a constant = "%s"' % r["method"], "absent", {"request": r["method"]}, None, file="LSPMethods")
        for x in d["notifications"]:
            self.keys.append(("notification", x["method"]))
            n = self.msg_name(x, "Notification")
            if n is None:
                self.issue("notification-name", x["method"], "", "typeName", None, {"notification": x["method"]}, None)
                continue
            src = self.src(n)
            if src is None:
                self.issue("class-missing", n, "", "a class for notification " + x["method"], "no file", {"notification": x["method"]}, None)
            else:
                self.counts["notifications"] += 1
                self.direction(n, src, x, "notification")
            if x["method"] not in values:
                self.issue("methods", n, "LSPMethods", 'a constant = "%s"' % x["method"], "absent", {"notification": x["method"]}, None, file="LSPMethods")

    def run(self):
        self.structures()
        self.enumerations()
        self.messages()
        return self.issues


# ------------------------------------------------------------------------------------------------ explain twin
def explain():
    out = V.coq_eval("C08Explain", EXPLAIN_HDR, ["explain mm files"], timeout=300)[0]
    return [{"class": c, "member": m, "reason": r} for c, m, r in re.findall(r'\("([^"]*)",\s*"([^"]*)",\s*"([^"]*)"\)', out)]


def kind_of(reason):
    return reason.split(":")[0]


# ------------------------------------------------------------------------------------------------ check
def run(chk):
    chk.rule = RULE
    chk.exhaustive = True
    chk.trusted = V.STD_TRUSTED + [
        "translators lib/x_mm.py (lsp.json -> Coq data) and lib/x_cs.py (tokeniser + fail-closed grammar over the emitted .cs files; "
        "what it keeps of a file is listed in its docstring); cross-examined on every run by the independent regex search of lib/props/c08.py",
        "specification choices of LSP.Dotnet: cs_of IS the reading of 'the mapped C# type'; immutable collections are exempt from nullable/Ignore; "
        "'_'-prefixed structures used in no type position need no class; [DataContract] required; notification method strings are read "
        "through the LSPMethods catalogue; pairing is mutual reference",
        "Newtonsoft.Json attribute semantics ([DataContract]/[DataMember(Name)], [JsonProperty(NullValueHandling)], [JsonConstructor], "
        "StringEnumConverter/[EnumMember]) are taken as documented: no C# compiler or runtime is available, nothing is executed",
    ]
    chk.assumptions = ["quantifier: the committed generator/lsp.json; the plugin is run from the current tree with PYTHONHASHSEED=0"]
    mm_v = os.path.join(V.GEN, "MMData.v")
    cs_v = os.path.join(V.GEN, "DotnetData.v")
    fails, witnesses, proved, stats = [], [], False, {}
    with V.scratch("verif-c08-") as d:
        with V.build_lock():
            p = V.run_py("x_mm.py", [os.path.join(V.REPO, "generator", "lsp.json"), mm_v])
            chk.obligation("translate:x_mm", p.returncode == 0, (p.stdout + p.stderr)[-300:])
            if p.returncode != 0:
                fails.append(("translator", "x_mm", (p.stdout + p.stderr)[-1500:]))
            p2 = V.run_py("x_cs.py", [d, cs_v])
            chk.obligation("translate:x_cs", p2.returncode == 0, (p2.stdout + p2.stderr)[-300:])
            if p2.returncode != 0:
                fails.append(("translator", "x_cs", (p2.stdout + p2.stderr)[-1500:]))
            else:
                stats = json.loads(p2.stdout.strip().split("\n")[-1])
            if not fails:
                proved, f2 = V.prove(chk, "C08", [mm_v, cs_v])
                fails += f2
                data_ok = os.path.exists(cs_v[:-2] + ".vo") and os.path.exists(mm_v[:-2] + ".vo")
                if not proved and data_ok:
                    try:
                        witnesses = explain()
                    except Exception as e:  # best effort: the search below is the replay source
                        witnesses = [{"explain_failed": str(e)[-400:]}]
        # independent search on the real plugin output (always: cheap, and it is the replay source)
        have_output = os.path.isdir(os.path.join(d, "lsprotocol")) and any(f.endswith(".cs") for f in os.listdir(os.path.join(d, "lsprotocol")))
        if not have_output:
            rc, log = run_plugin(d)
            have_output = rc == 0
            if rc != 0:
                fails.append(("plugin", "generator --plugin dotnet", log))
        issues, s = None, None
        if have_output:
            s = Search(d)
            issues = s.run()
    if s is not None:
        for k in s.keys:
            chk.count(k)
        chk.extra["search_counts"] = s.counts
    chk.extra["translated"] = stats
    chk.obligation("search:plugin-output-vs-metamodel", issues is not None,
                   "%s issues" % len(issues) if issues is not None else "plugin produced no output")
    if s is not None and not issues:
        chk.sample({"class": "Position", "flattened": list(s.mm.flat("Position"))} if "Position" in s.mm.S else {})
        chk.sample({"counts": s.counts})

    by_kind = {}
    for i in issues or []:
        by_kind.setdefault(i["kind"], []).append(i)
    for kind, lst in by_kind.items():
        first = lst[0]
        chk.violation({"property": "C08", "kind": "generated C# differs from the metamodel: " + kind,
                       "input": first,
                       "expected": first["expected"], "observed_impl": first["observed"],
                       "all": [{"class": i["class"], "member": i["member"], "expected": i["expected"], "observed": i["observed"]} for i in lst[:40]],
                       "count": len(lst),
                       "observed_model": [w for w in witnesses if kind_of(w.get("reason", "")) == kind][:40],
                       "obligation": [f[1] for f in fails] or ["search:plugin-output-vs-metamodel"],
                       "how_to_replay": "./check C08 --replay <this file>  (re-runs the dotnet plugin of the current tree and re-examines this class)"},
                      tag=kind)
    model_only = [w for w in witnesses if "reason" in w and kind_of(w["reason"]) not in by_kind]
    if (fails and not by_kind) or model_only:
        chk.violation({"property": "C08", "kind": "obligation no longer checks",
                       "broken": [{"what": a, "name": b, "detail": c} for a, b, c in fails],
                       "observed_model": model_only or witnesses,
                       "searched": "regex search of the plugin output against lsp.json (every structure member, enumeration, request, notification, "
                                   "LSPMethods constant): %s" % ("no difference of this kind" if issues is not None else "could not run")},
                      no_input=True, tag="obligation")


def replay(path):
    r = json.load(open(path))
    inp = r.get("input")
    with V.scratch("verif-c08-replay-") as d:
        rc, log = run_plugin(d)
        if rc != 0:
            print("the dotnet plugin fails:", log[-800:])
            return 1
        issues = Search(d).run()
    if not inp:
        print("no concrete input recorded; current issues:", len(issues), json.dumps(r.get("broken"))[:1500])
        return 1 if issues else 0
    still = [i for i in issues if i["kind"] == inp["kind"] and i["class"] == inp["class"] and i["member"] == inp["member"]]
    if still:
        i = still[0]
        print("still failing: %s %s.%s expected %s observed %s\n  C#: %s" % (i["kind"], i["class"], i["member"], json.dumps(i["expected"]), json.dumps(i["observed"]), i["cs_text"]))
        return 1
    print("no longer failing: %s %s.%s (expected %s)" % (inp["kind"], inp["class"], inp["member"], json.dumps(inp["expected"])))
    return 0
