"""C18 — model loading is lossless, merge is concatenation, model equality, invalid models write nothing.

proof:   coq/props/C18.v over generator/model.py, __main__.py, lsp.schema.json as translated on this run
         (lib/x_modelpy.py, lib/x_main.py, lib/x_schema.py) under the semantics LSP.JSchema / LSP.Loader; generic theorems
         (compat_sound, py_eq_total/refl/skeleton, merge_concat, gate_generic) + instance obligations by vm_compute.
tie:     translators (AST, fail-closed, cross-checked against the imported module and an observed run of main) and four
         correspondence streams (loader, equality, jsv-vs-jsonschema, main) through generated cases files.
search:  the real code against the property's own oracle (documents built by lib/c18_docs.py, the real jsonschema under root
         MetaModel as validity reference, python -m generator runs for the gate); witnesses for failing checker sites are
         synthesised from the schema file.  Shape coverage (c18_docs.schema_coverage) is DERIVED from lsp.schema.json: for every
         (object definition, property) one document per alternative of every anyOf/oneOf, per listed JSON type, per enum value,
         and per array length 0 / 1 / 2 wherever an array is allowed (`params` as one type, [], [T], [T, U]); each must load and
         read back (~), and documents of one site that differ in shape must compare unequal.  A converter that maps one shape
         to another (unwraps [T], drops an element, sorts, de-duplicates) fails on one of them with the document as replay.
tie of load_readback to model.py: x_modelpy accepts as `converter=` only partial_apply / list_converter applications (recognised
         by their BODIES: closure, lambda, comprehension or list(map(..)) forms), `lambda x: C(**x)`, the uuid lambda and
         positional dispatch functions; any other converter (a new function, a changed factory body) is REJECTED - the
         compatibility checker `compat` (C18.compat_current) then is not re-proved and the streams above must find the input.
history: the gate is also exercised over PROCESS HISTORIES (lib/c18_history.py, always on): generator.__main__.main called several times in one
         interpreter while the model files are rewritten between the calls (valid then invalid at the same path, invalid-valid-invalid,
         valid then another valid document, two paths with swapped roles, two files in one call, the real python plugin).  A step on a
         schema-violating file must raise with nothing written and the plugin not called, a step on valid files must hand the recording
         plugin the model of the documents on disk NOW.  The translated effect list is a function of the documents alone; x_main rejects
         what could make main depend on earlier calls (decorators such as functools.lru_cache on a followed helper), and this stream finds
         the concrete history when it does.  Every step of the recording-plugin histories is also a case of the main correspondence stream.
known findings: keys loader:<kind> | loader:<Def>.<prop> | eq-raises:<Class> | eq-ignores:<attr> | gate:<edit kind> | merge | purity:<aspect> |
         history:<aspect>:<plan>
"""
import concurrent.futures
import copy
import json
import os
import random
import re
import subprocess

import c18_docs as D
import c18_history as HS
import vcommon as V
from mmlib import cj as plain_cj

LEVEL = "proof"
RULE = ("documents: the committed lsp.json (whole); one small document per feature (every type kind incl. integerLiteral/booleanLiteral, "
        "map key kinds, extends/mixins present/absent/empty, every annotation at every node class, params as array, enumerations of each base "
        "type); shape coverage derived from lsp.schema.json: per (definition, property) one minimal document per anyOf/oneOf alternative, listed "
        "JSON type, enum value, boolean, and array length 0/1/2 (length 1 once per item alternative, length 2 as consecutive pairs of alternatives) - "
        "457 documents over 91 sites for the committed schema, those using a recorded finding (integerLiteral, booleanLiteral, StructureLiteral "
        "annotations) attributed to it; seeded random schema-valid edits of samples of lsp.json (drop/add annotation, reorder, add feature declarations, shuffle keys, "
        "extends); 47 single schema-violating edits of a base document (missing required key, unknown property, wrong JSON type, bad enum, "
        "type expression not an object, null annotation) and 5 extension files violating the schema only at their top level; model groups for "
        "create_lsp_model, incl. first files with empty sections, each merged twice on the same in-memory documents (inputs compared before/after, "
        "earlier model re-read, first document loaded alone afterwards); all pairs of 12 edited documents plus "
        "single-skeleton-attribute mutation pairs and shape pairs (two coverage documents of one site in different shapes: T vs [T], [] vs [T], "
        "[T] vs [T, U]; quick: all cross-shape pairs of array sites + 40 sampled others) for ==; schema-violating edits x plugins for the gate; "
        "process histories for the gate (main called repeatedly in one interpreter, files rewritten in between: valid->invalid per edit (4 quick / all thorough), "
        "invalid->valid->invalid, valid->other valid->first, two paths swapped, two files in one call rewritten and reordered, python plugin on the committed model "
        "then with one required key removed). A case counts as distinct "
        "non-trivial by (stream, canonical input) hash; the empty document is the only trivial one.")

PLUGINS_QUICK = ["python"]
PLUGINS_ALL = ["python", "rust", "dotnet", "testdata"]
NSTR, NCHUNK = 8, 8


# ------------------------------------------------------------------------------------------------ real-code access
def real(op, **kw):
    p = V.run_py("r_loader.py", input_=json.dumps(dict(kw, op=op)), timeout=1800)
    if p.returncode != 0:
        raise RuntimeError("r_loader %s failed: %s" % (op, p.stderr[-2000:]))
    return json.loads(p.stdout)


def run_generator(docs, plugin, timeout=900):
    """python -m generator --model <docs> --plugin P into scratch dirs. -> dict(rc, written, reached, tail)"""
    with V.scratch("verif-c18-") as d:
        files = []
        for i, doc in enumerate(docs):
            f = os.path.join(d, "model%d.json" % i)
            json.dump(doc, open(f, "w"))
            files.append(f)
        out, tst = os.path.join(d, "out"), os.path.join(d, "tests")
        os.makedirs(out); os.makedirs(tst)
        try:
            p = subprocess.run([V.PY, "-B", "-m", "generator", "--model", *files, "--plugin", plugin, "--output-dir", out, "--test-dir", tst],
                               capture_output=True, text=True, timeout=timeout, env=V.repo_env(), cwd=d)
            rc, txt = p.returncode, p.stdout + p.stderr
        except subprocess.TimeoutExpired:
            rc, txt = -9, "timeout"
        written = []
        for root in (out, tst):
            for dp, _, fs in os.walk(root):
                written += [os.path.relpath(os.path.join(dp, f), d) for f in fs]
        stray = [x for x in os.listdir(d) if x not in ("out", "tests") and not x.startswith("model")]
        return {"rc": rc, "written": sorted(written)[:8], "n_written": len(written), "stray": stray,
                "reached": "Loading plugin:" in txt, "tail": txt[-400:]}


def gate_fails(r):
    """the property's verdict on one generator run over a schema-violating input"""
    return r["rc"] == 0 or r["n_written"] > 0 or r["reached"] or bool(r["stray"])


# ------------------------------------------------------------------------------------------------ Coq emission
class Emit:
    """JSON -> Coq terms with long strings interned in shared, separately compiled tables and big lists chunked."""

    def __init__(self):
        self.strs, self.chunks, self.memo = {}, [], {}

    def s(self, x):
        if len(x) <= 40:
            return V.q(x)
        if x not in self.strs:
            self.strs[x] = "s%d" % len(self.strs)
        return self.strs[x]

    def cj(self, j):
        if j is None:
            return "JNull"
        if isinstance(j, bool):
            return "(JBool %s)" % str(j).lower()
        if isinstance(j, int):
            return "(JInt (%d))" % j
        if isinstance(j, float):
            n, d = j.as_integer_ratio()
            return "(JFlt (%d) (%d))" % (n, d)
        if isinstance(j, str):
            return "(JStr %s)" % self.s(j)
        if isinstance(j, (list, tuple)):
            return "(JArr [%s])" % "; ".join(self.cj(x) for x in j)
        if isinstance(j, dict):
            return "(JObj [%s])" % "; ".join("(%s, %s)" % (V.q(k), self.cj(v)) for k, v in j.items())
        raise TypeError(type(j))

    def big(self, j):
        """like cj, but the elements of long lists become separately compiled definitions (memoised per object)"""
        if isinstance(j, (list, dict)):
            if id(j) not in self.memo:
                self.memo[id(j)] = (j, self._big(j))
            return self.memo[id(j)][1]
        return self.cj(j)

    def _big(self, j):
        if isinstance(j, list) and len(j) > 20:
            names = []
            for x in j:
                n = "k%d" % len(self.chunks)
                self.chunks.append((n, self.cj(x)))
                names.append(n)
            return "(JArr [%s])" % "; ".join(names)
        if isinstance(j, dict):
            return "(JObj [%s])" % "; ".join("(%s, %s)" % (V.q(k), self.big(v)) for k, v in j.items())
        return self.cj(j)

    def write_tables(self, tag):
        files_s, files_c = [], []
        sh = [[] for _ in range(NSTR)]
        for x, n in self.strs.items():
            sh[int(n[1:]) % NSTR].append("Definition %s : string := %s." % (n, V.q(x)))
        for i, rows in enumerate(sh):
            f = os.path.join(V.PROPS_OUT, "C18Str_%s_%d.v" % (tag, i))
            V.write_if_changed(f, "From Coq Require Import String.\nOpen Scope string_scope.\n" + "\n".join(rows) + "\n")
            files_s.append(f)
        imp = "From Props Require Import %s.\n" % " ".join("C18Str_%s_%d" % (tag, i) for i in range(NSTR))
        ch = [[] for _ in range(NCHUNK)]
        for i, (n, t) in enumerate(self.chunks):
            ch[i % NCHUNK].append("Definition %s : json := %s." % (n, t))
        for i, rows in enumerate(ch):
            f = os.path.join(V.PROPS_OUT, "C18Chunk_%s_%d.v" % (tag, i))
            V.write_if_changed(f, "From LSP Require Import Base.\n" + imp + "Open Scope string_scope.\n" + "\n".join(rows) + "\n")
            files_c.append(f)
        imp += "From Props Require Import %s.\n" % " ".join("C18Chunk_%s_%d" % (tag, i) for i in range(NCHUNK))
        return files_s, files_c, imp


def par_coqc(files, workers=12):
    with concurrent.futures.ThreadPoolExecutor(workers) as ex:
        outs = list(ex.map(V.coqc, files))
    for f, r in zip(files, outs):
        if not r.ok:
            raise RuntimeError("generated file %s does not compile: %s" % (os.path.basename(f), r.text[-1500:]))
    return outs


HDR = ("From LSP Require Import Base JSchema Loader.\nFrom Gen Require Import SchemaData ModelPyData MainData.\n%s"
       "Open Scope string_scope.\nDefinition META : schema := SRef \"MetaModel\".\n")


def run_cases(tag, cases, shard=60):
    """cases: list of dict(kind, ...).  Returns list of codes (0 = model and real code agree)."""
    em = Emit()
    rows = []
    for c in cases:
        k = c["kind"]
        if k == "load":
            e = "XRaise" if not c["real"]["ok"] else "(XDump %s)" % em.big(c["real"]["dump"])
            rows.append("(CLoad %s %s)" % (em.big(c["doc"]), e))
        elif k == "create":
            e = "XRaise" if not c["real"]["ok"] else "(XDump %s)" % em.cj(c["real"]["dump"])
            rows.append("(CCreate [%s] %s)" % ("; ".join(em.cj(x) for x in c["docs"]), e))
        elif k == "eq":
            rows.append("(CEq %s %s %d)" % (em.big(c["a"]), em.big(c["b"]), c["real"]))
        elif k == "jsv":
            root = {"file": "root_file", "MetaModel": "META", "main": "gate_root"}[c["root"]]
            rows.append("(CJsv %s %s %s)" % (root, em.big(c["doc"]), str(bool(c["real"])).lower()))
        elif k == "main":
            rows.append("(CMain gate_root main_effects [%s] %s)" % ("; ".join(em.big(x) for x in c["docs"]), str(bool(c["real"])).lower()))
        else:
            raise ValueError(k)
    fs, fc, imp = em.write_tables(tag)
    par_coqc(fs)
    par_coqc(fc)
    files = []
    # shards balanced by size
    order = sorted(range(len(rows)), key=lambda i: -len(rows[i]))
    nsh = max(1, min(16, (len(rows) + shard - 1) // shard, ))
    if sum(len(r) for r in rows) > 400000:
        nsh = max(nsh, 12)
    buckets = [[] for _ in range(nsh)]
    sizes = [0] * nsh
    for i in order:
        b = sizes.index(min(sizes))
        buckets[b].append(i); sizes[b] += len(rows[i])
    for b, idx in enumerate(buckets):
        idx.sort()
        body = "\n".join("Definition c%d : lcase := %s." % (i, rows[i]) for i in idx)
        f = os.path.join(V.PROPS_OUT, "C18Cases_%s_%d.v" % (tag, b))
        V.write_if_changed(f, HDR % imp + body + "\nDefinition verdicts := [%s].\nEval vm_compute in verdicts.\n"
                           % "; ".join("(%d, judge model_py defs c%d)" % (i, i) for i in idx))
        files.append(f)
    outs = par_coqc(files)
    codes = [None] * len(rows)
    for r in outs:
        body = r.out.split(": list (nat * nat)")[0]
        for a, b in re.findall(r"\(\s*(\d+),\s*(\d+)\)", body):
            codes[int(a)] = int(b)
    if any(c is None for c in codes):
        raise RuntimeError("cases output could not be parsed for tag " + tag)
    return codes


# ------------------------------------------------------------------------------------------------ known findings
def site_key(site, schema):
    kind, dname, item = site
    defs = schema["definitions"]
    if kind == "alt":
        k = defs.get(item, {}).get("properties", {}).get("kind", {}).get("const")
        return "loader:" + (k or item)
    if kind == "prop":
        return "loader:%s.%s" % (dname, item)
    return "loader:%s:%s%s" % (kind, dname, ("." + item) if item else "")


def key_rops(key, schema):
    """known-finding key -> restriction of the schema (Coq term), or None"""
    defs = schema["definitions"]
    m = re.match(r"loader:([A-Za-z]+)\.([A-Za-z]+)$", key)
    if m and m.group(1) in defs and m.group(2) in defs[m.group(1)].get("properties", {}):
        return "RDropProp %s %s" % (V.q(m.group(1)), V.q(m.group(2)))
    m = re.match(r"loader:([A-Za-z]+)$", key)
    if m:
        for dn, d in defs.items():
            for a in d.get("anyOf", []):
                an = a.get("$ref", "").split("/")[-1]
                if an in defs and defs[an].get("properties", {}).get("kind", {}).get("const") == m.group(1):
                    return "RDropAlt %s %s" % (V.q(dn), V.q(an))
    return None


def replay_obj(r):
    """re-run a recorded input on the real code; True iff it (still) violates the property"""
    kind, inp = r.get("kind"), r.get("input") or {}
    if kind == "loader":
        res = real("load", docs=[inp["doc"]])[0]
        bad = (not res["ok"]) or not D.sim(res["readback"], inp["doc"])
        return bad, ("raises %s: %s" % (res["exc"], res["msg"][:160])) if not res["ok"] else ("loaded; read-back ~ document: %s" % (not bad))
    if kind == "eq":
        v = real("eq", docs=[inp["a"], inp["b"]], pairs=[[0, 1]])
        got = v["verdicts"][0]
        return got != inp["expected"], "a == b gives %s (1 True, 0 False, 2 raises: %s); expected %s" % (got, v["excs"][0], inp["expected"])
    if kind == "create":
        res = real("create", groups=[inp["docs"]])[0]
        want = concat_oracle(inp["docs"])
        bad = (not res["ok"]) or not D.sim(res["readback"], want)
        return bad, "create_lsp_model: %s" % ("raises " + res.get("exc", "") if not res["ok"] else "read-back ~ concatenation: %s" % (not bad))
    if kind == "purity":
        res = real("purity", groups=[inp["docs"]])[0]
        v = purity_verdict(inp["docs"], res)
        return v is not None, ("%s: %s" % v) if v else "merging twice on the same in-memory documents: inputs unchanged, same model, earlier model unchanged"
    if kind == "gate":
        g = run_generator(inp["docs"], inp["plugin"])
        return gate_fails(g), "rc=%s written=%s plugin reached=%s" % (g["rc"], g["n_written"], g["reached"])
    if kind == "history":
        h = inp["history"]
        js = HS.judge(h, HS.run_history(h), HS.oracle([h], real))
        bad = [j["bad"] for j in js if j["bad"]]
        lines = ["step %d: files on disk %s -> %s" % (j["step"], "all schema-valid" if j["valid"] else "VIOLATE the schema", j["observed"]) for j in js]
        return bool(bad), "one process, main called %d times (%s):\n  %s\n%s" % (len(js), h["label"], "\n  ".join(lines),
                                                                                 "; ".join("%s: %s" % b for b in bad) if bad else "every step behaves as the property says")
    return None, "no concrete input recorded"


def purity_verdict(group, r):
    """the loader is a function of the documents: (first failing aspect, everything that was observed), or None"""
    want = concat_oracle(group)
    if not r["ok"]:
        return "raises", "%s: %s" % (r["exc"], r["msg"][:160])
    obs = []
    if not D.sim(r["first"], want):
        obs.append(("first-merge-not-concatenation", "read-back of create_lsp_model(docs) differs from the concatenation"))
    if r["inputs_after_first"] != group or r["inputs_after_second"] != group or not r["single_load_keeps_input"]:
        after = r["inputs_after_second"]
        where = [(i, k, len(after[i][k]), len(group[i][k])) for i in range(len(group)) for k in D.LISTS
                 if isinstance(after[i].get(k), list) and after[i][k] != group[i][k]]
        obs.append(("input-mutated", "loading modified its input documents: (document, section, entries now, entries before) = %s" % where[:4]))
    if not D.sim(r["second"], want):
        n = {k: (len(r["second"].get(k, [])), len(want[k])) for k in D.LISTS if len(r["second"].get(k, [])) != len(want[k])}
        obs.append(("second-merge-differs", "the same in-memory documents merged a second time give (entries, expected) per section = %s" % n))
    if not D.sim(r["first_reread"], want):
        obs.append(("earlier-model-changed", "the model returned by the first merge changed when the documents were loaded again"))
    if not D.sim(r["first_document_alone"], group[0]):
        obs.append(("first-document-alone-differs", "the first document loaded alone afterwards does not read back as that document"))
    return (obs[0][0], "; ".join(b for _, b in obs)) if obs else None


def concat_oracle(docs):
    r = copy.deepcopy(docs[0])
    for d in docs[1:]:
        for k in D.LISTS:
            r[k] = r[k] + copy.deepcopy(d[k])
    return r


def replay(path):
    r = json.load(open(path))
    bad, note = replay_obj(r)
    print(note)
    if bad is None:
        print(json.dumps(r.get("broken") or r.get("obligation"))[:2000])
        return 1
    return 1 if bad else 0


# ------------------------------------------------------------------------------------------------ the check
def parse_why(txt, name):
    m = re.search(r"%s\s*=\s*(.*?)\n\s*:\s" % name, txt, re.S)
    if not m:
        raise RuntimeError("explain output for %s not found" % name)
    return [tuple(x) for x in re.findall(r'\("([^"]*)",\s*"([^"]*)",\s*"([^"]*)"\)', m.group(1))]


def parse_val(txt, name):
    m = re.search(r"%s\s*=\s*(.*?)\n\s*:\s" % name, txt, re.S)
    return m.group(1).strip() if m else None


def run(chk):
    if os.environ.get("VERIF_KNOWN_FINDINGS"):
        V.KNOWN = os.environ["VERIF_KNOWN_FINDINGS"]
    rng = random.Random(chk.seed)
    quick = chk.tier == "quick"
    chk.trusted = V.STD_TRUSTED + [
        "translators lib/x_modelpy.py, lib/x_main.py, lib/x_schema.py (AST / JSON, fail-closed; x_modelpy cross-checked against attrs.fields and the origin of each __eq__, x_main against an observed run of main with a recording jsonschema.validate and a stub plugin)",
        "x_main follows calls of module-level helper functions of __main__.py by splicing their bodies in at the call (parameters substituted, locals renamed apart, "
        "a final `return` bound to the call's target; early returns / nested functions / star-arguments / recursion rejected): the inlining itself is trusted, "
        "its result (effect order, schema object) is cross-checked against the observed run",
        "x_modelpy normalises create_lsp_model and the __eq__ methods before its grammar applies: a module-level tuple / list of string literals bound exactly once "
        "(lists: only ever iterated) is a constant table, `for x in TABLE` is unrolled, all(E for x in TABLE) becomes the and-chain, tuple(..)/[..] over TABLE the literal, "
        "getattr(o, 'ident') the attribute read; the table is compared with the imported module's value; x_main reads `with P.open(..) as F: X = json.load(F)` as "
        "X = json.load(P.open(..)) (single load, F not used elsewhere; other context managers rejected); both rewrites are argued in the translators' comments, not verified",
        "x_modelpy reads a module-level dict literal {str: class of the module} that is bound exactly once and only ever read as TABLE[e], TABLE.get(e) or tuple(TABLE.values()) "
        "inside function bodies as the same literal written locally in the dispatch function (the table is compared with the imported module's dict: keys, order, identity of "
        "each class); a one-parameter dispatch function with single-assignment locals and conditional expressions over tests info[KEY] == 'k' is executed symbolically to the "
        "function value-of-KEY -> class it computes; x_main reads `with P.open(..) as F: return json.load(F)` in a followed helper as `return json.load(P.open(..))` and splices a "
        "helper whose returns all stand in tail position of if/else branches (guard form `if c: ..return` + rest included) with each return turned into the binding of the "
        "call's target; argued in the translators' comments, not verified",
        "lib/c18_history.py + lib/c18_hplugin.py: the process-history driver calls the real generator.__main__.main repeatedly in one interpreter (nothing patched) and judges "
        "each step against the real jsonschema under root MetaModel",
        "lib/c18_docs.py: schema_coverage reads lsp.schema.json (type, properties, required, anyOf/oneOf, items, enum, const, $ref) to enumerate shapes; every document it "
        "emits is re-checked against the real jsonschema under root MetaModel and against the Coq jsv",
        "hand-written semantics LSP.JSchema (draft-07 subset) and LSP.Loader (attrs __init__ order, converters, validators, Python == on lists/dicts/objects, effect order of main): validated by the correspondence streams, not verified",
        "jsonschema 4.23 under root {$ref: MetaModel} as the reference for 'schema-valid' in the streams (cross-checked against the Coq jsv on every stream document)",
        "specification choices of DESIGN C18: the relation ~ (jeqv), the structural skeleton (SKNAMES), numbers are integers, enumeration values typed by their base type",
    ]
    chk.assumptions = ["documents are JSON values as a parser produces them (unique object keys, no NaN); uuid4 values are pairwise distinct; "
                       "the plugin is an arbitrary function of (model, files) in the gate theorem; the loader is a function of the JSON value (no aliasing of, "
                       "or writing to, its input) - checked on the real code by the purity stream"]
    schema = json.load(open(os.path.join(V.REPO, "generator", "lsp.schema.json")))
    committed = json.load(open(os.path.join(V.REPO, "generator", "lsp.json")))
    failed = []            # (what, name, detail): obligations that broke
    viol = {}              # key -> replay object (first one wins)
    os.makedirs(V.PROPS_OUT, exist_ok=True)

    def add_violation(key, obj):
        if key not in viol:
            viol[key] = dict(obj, key=key, property="C18", how_to_replay="./check C18 --replay <this file>")

    with V.build_lock():
        # ---------------------------------------------------------------- 1. translators
        gen = {n: os.path.join(V.GEN, n + ".v") for n in ("SchemaData", "ModelPyData", "MainData", "C18X")}
        info_mp, info_main = os.path.join(V.GEN, "modelpy.json"), os.path.join(V.GEN, "main.json")
        tr = {}
        for name, script, args in (("x_schema", "x_schema.py", [gen["SchemaData"]]), ("x_modelpy", "x_modelpy.py", [gen["ModelPyData"], info_mp]),
                                   ("x_main", "x_main.py", [gen["MainData"], info_main])):
            p = V.run_py(script, args)
            tr[name] = p.returncode == 0
            chk.obligation("translate:" + name, p.returncode == 0, (p.stdout + p.stderr)[-300:])
            if p.returncode != 0:
                failed.append(("translator", name, (p.stdout + p.stderr)[-1500:]))
        model_ok = all(tr.values())
        if model_ok:
            ok, res = V.compile_chain([gen["SchemaData"], gen["ModelPyData"], gen["MainData"]])
            if not ok:
                model_ok = False
                failed.append(("coqc", os.path.basename(res[-1][0]), res[-1][1].text[-1500:]))
        mp = json.load(open(info_mp)) if tr["x_modelpy"] else None
        mi = json.load(open(info_main)) if tr["x_main"] else None

        # observed run of main: effect order and the schema object really passed
        cap = real("capture", doc=D.empty())
        if mi:
            obs = []
            for e in cap["events"]:
                t = {"validate": "EValidate", "create": "ECreate", "plugin": "EPlugin"}[e]
                if not obs or obs[-1] != t:
                    obs.append(t)
            same = obs == mi["info"]["effects"] and (not cap["schemas"] or all(s == mi["root"] for s in cap["schemas"]))
            chk.obligation("crosscheck:x_main-vs-observed-run", same, "observed %s, translated %s" % (obs, mi["info"]["effects"]))
            if not same:
                failed.append(("translator", "x_main vs observed run", json.dumps({"observed": obs, "translated": mi["info"]["effects"]})))
        main_schema = cap["schemas"][0] if cap["schemas"] else None
        gate_is_meta = bool(mi and mi["root"] and mi["root"].get("$ref") == "#/definitions/MetaModel")

        # ---------------------------------------------------------------- 2. known findings
        opens, _fixed = V.known_findings("C18")
        known_keys, x_rops, x_eqcls, gate_known, stale = set(), [], [], False, []
        refuted = []           # (lemma name, statement+proof text)
        for e in opens:
            wpath = os.path.join(V.VERIF, e["witness"])
            try:
                w = json.load(open(wpath))
                bad, note = replay_obj(w)
            except Exception as ex:      # noqa: BLE001
                bad, note, w = None, "witness unreadable: %r" % ex, None
            if not bad:
                stale.append({"key": e["key"], "note": note})
                print("NOTE: known finding C18 %s no longer reproduces (%s): it excludes nothing on this run" % (e["key"], note), flush=True)
                continue
            chk.known("key=%s %s [witness re-confirmed: %s]" % (e["key"], e["text"], note))
            known_keys.add(e["key"])
            lname = "C18_refuted_" + re.sub(r"\W+", "_", e["key"])
            if e["key"].startswith("loader:"):
                r = key_rops(e["key"], schema)
                if r:
                    x_rops.append(r)
                refuted.append((lname, "Lemma %s : exists d, doc_wf [] d = true /\\ schema_valid d = true /\\ is_ok (load d) = false.\n"
                                       "Proof. exists %s. vm_compute. repeat split. Qed.\n" % (lname, plain_cj(w["input"]["doc"]))))
            elif e["key"].startswith("eq-raises:"):
                x_eqcls.append(e["key"].split(":", 1)[1])
                refuted.append((lname, "Lemma %s : exists a b, jwf a && jwf b = true /\\ match load a, load b with Ok x, Ok y => is_ok (model_eq x y) | _, _ => true end = false.\n"
                                       "Proof. exists %s, %s. vm_compute. split; reflexivity. Qed.\n" % (lname, plain_cj(w["input"]["a"]), plain_cj(w["input"]["b"]))))
            elif e["key"].startswith("gate:"):
                gate_known = True
                wd = w["input"]["docs"]
                names_w = ["%s_doc%d" % (lname, i) for i in range(len(wd))]
                alts = " | ".join("(exists %s; split; [%sleft; reflexivity | vm_compute; reflexivity])" % (n, "right; " * i) for i, n in enumerate(names_w))
                refuted.append((lname, "".join("Definition %s : json := %s.\n" % (n, plain_cj(x)) for n, x in zip(names_w, wd)) +
                                "Lemma %s : exists docs, (exists d, In d docs /\\ schema_valid d = false) /\\ main_model probe_plugin docs [] <> (SError, []).\n"
                                "Proof. exists [%s]. split; [first [%s] | vm_compute; discriminate]. Qed.\n" % (lname, "; ".join(names_w), alts)))
        chk.extra["known_findings_stale"] = stale

        # ---------------------------------------------------------------- 3. exclusions file, explain mode
        expl = {"compat": [], "eq": [], "covers": [], "flags": {}}
        compiled = False
        if model_ok:
            pairs = cpairs(mp, schema)
            V.write_if_changed(gen["C18X"], "(* generated by lib/props/c18.py: exclusions read from known_findings.txt; pairs for the compatibility checker *)\n"
                               "From LSP Require Import Base JSchema Loader.\nOpen Scope string_scope.\n"
                               "Definition x_rops : list rop := [%s].\nDefinition x_eqcls : list string := [%s].\n"
                               "Definition cpairs : list (string * callee) := [%s].\n"
                               % ("; ".join(x_rops), "; ".join(V.q(c) for c in x_eqcls), "; ".join(pairs)))
            ex_v = os.path.join(V.PROPS_OUT, "C18Explain.v")
            V.write_if_changed(ex_v, "From LSP Require Import Base JSchema Loader.\nFrom Gen Require Import SchemaData ModelPyData MainData C18X.\nOpen Scope string_scope.\n"
                               "Definition pinned : list rop := [RNarrowNumber; REnumTyped \"Enumeration\"].\n"
                               "Definition e_compat := Eval vm_compute in compat_explain (restrict (pinned ++ x_rops) defs) model_py cpairs.\nPrint e_compat.\n"
                               "Definition e_eq := Eval vm_compute in eq_explain model_py x_eqcls.\nPrint e_eq.\n"
                               "Definition e_covers := Eval vm_compute in covers_explain model_py x_eqcls (sk_table model_py).\nPrint e_covers.\n"
                               "Definition e_tables := Eval vm_compute in tables_ok model_py.\nPrint e_tables.\n"
                               "Definition e_merge := Eval vm_compute in t_merge model_py.\nPrint e_merge.\n"
                               "Definition e_order := Eval vm_compute in order_ok main_effects.\nPrint e_order.\n"
                               "Definition e_mergeok := Eval vm_compute in (let dl := match find_cls model_py (t_root model_py) with Some C => map f_name (filter (fun f => match f_conv f with KList _ => true | _ => false end) (c_fields C)) | None => [] end in nodupb (t_merge model_py) && seteq (t_merge model_py) dl && negb (is_nil_b dl)).\nPrint e_mergeok.\n"
                               "Definition e_root := Eval vm_compute in in_cp cpairs \"MetaModel\" (CClass (t_root model_py)).\nPrint e_root.\n")
            ok, res = V.compile_chain([gen["C18X"], ex_v])
            if not ok:
                failed.append(("coqc", "C18Explain.v", res[-1][1].text[-1500:]))
            else:
                out = res[-1][1].out
                expl["compat"], expl["eq"], expl["covers"] = parse_why(out, "e_compat"), parse_why(out, "e_eq"), parse_why(out, "e_covers")
                expl["flags"] = {"tables_ok": parse_val(out, "e_tables"), "merge": parse_val(out, "e_merge"), "order_ok": parse_val(out, "e_order"),
                                 "merge_ok": parse_val(out, "e_mergeok"), "root_pair": parse_val(out, "e_root")}
            chk.extra["explain"] = {k: [list(x) for x in v] if isinstance(v, list) else v for k, v in expl.items()}

            # ------------------------------------------------------------ 4. the property file
            src = open(os.path.join(V.PROPS_SRC, "C18.v")).read()
            if gate_known:
                src = re.sub(r"\(\* BEGIN UNLESS-KNOWN gate \*\).*?\(\* END UNLESS-KNOWN gate \*\)",
                             "(* C18_gate: the full statement gate_stmt is REFUTED on this tree (recorded finding, see Props.C18Refuted); C18_gate_partial is what holds *)",
                             src, flags=re.S)
            prop = os.path.join(V.PROPS_OUT, "C18.v")
            V.write_if_changed(prop, src)
            names = V.theorems_in(prop)
            r = V.coqc(prop)
            compiled = r.ok
            if r.ok:
                for n in names:
                    chk.obligation(n, True)
                chk.assumptions.append("Print Assumptions: %d theorems 'Closed under the global context', axioms: %s"
                                       % (r.out.count("Closed under the global context"), V.parse_assumptions(r.out).get("axioms", [])))
            else:
                m = re.search(r"line (\d+)", r.text)
                bad = None
                if m:
                    lines = src.split("\n")
                    for i in range(min(int(m.group(1)), len(lines)) - 1, -1, -1):
                        mm = re.match(r"\s*(?:Theorem|Lemma|Example)\s+([A-Za-z0-9_']+)", lines[i])
                        if mm:
                            bad = mm.group(1); break
                fl = expl["flags"]
                inst = {"compat_current": not expl["compat"], "root_pair_current": fl.get("root_pair") == "true", "tables_ok_current": fl.get("tables_ok") == "true",
                        "eqs_ok_current": not expl["eq"], "eq_covers_current": not expl["covers"], "merge_fields_current": fl.get("merge_ok") == "true",
                        "order_current": fl.get("order_ok") == "true", "gate_sound_current": gate_is_meta}
                deps = {"C18_load_readback": ["compat_current", "root_pair_current"], "C18_merge_concat": ["merge_fields_current"],
                        "C18_eq_total": ["tables_ok_current", "eqs_ok_current"], "C18_eq_refl_load": ["tables_ok_current", "eqs_ok_current"],
                        "C18_eq_skeleton": ["tables_ok_current", "eqs_ok_current", "eq_covers_current"], "C18_gate_partial": ["order_current"],
                        "C18_gate": ["order_current", "gate_sound_current"], "C18_gate_history": ["order_current", "gate_sound_current", "C18_gate"], "C18_example": list(inst)}
                dead = {n for n in names if (n in inst and not inst[n]) or [d for d in deps.get(n, []) if not inst.get(d, True)]}
                if bad:
                    dead.add(bad)
                    dead |= {n for n in names if bad in deps.get(n, [])}
                # re-check what does not depend on a failing instance obligation: the same file without the dead lemmas
                part = src
                for n in dead:
                    part = re.sub(r"(?:Lemma|Theorem|Example)\s+%s\b.*?(?:Qed|Defined)\.\n" % re.escape(n), "(* %s: removed, see evidence *)\n" % n, part, count=1, flags=re.S)
                    part = re.sub(r"Print Assumptions %s\.\n" % re.escape(n), "", part)
                pf = os.path.join(V.PROPS_OUT, "C18Partial.v")
                V.write_if_changed(pf, part)
                rp = V.coqc(pf)
                for n in names:
                    if n in dead:
                        broken = [d for d in deps.get(n, []) if not inst.get(d, True)]
                        chk.obligation(n, False, ("instance obligation FAILS (explain mode)" if n in inst else "depends on failing " + ", ".join(broken)) if (n in inst and not inst[n]) or broken
                                       else "coqc failed here")
                    else:
                        chk.obligation(n, rp.ok, "re-checked in C18Partial.v (the file without the failing obligations)" if rp.ok else "C18Partial.v does not compile: " + rp.text[-200:])
                if rp.ok:
                    chk.assumptions.append("C18Partial.v: %d theorems 'Closed under the global context'" % rp.out.count("Closed under the global context"))
                failed.append(("proof", bad or "C18.v", r.text[-1200:]))
            if compiled and not quick:
                try:
                    cp_ = subprocess.run(["timeout", "900", "coqchk", "-silent", "-o", *V.COQ_ARGS, "Props.C18"], capture_output=True, text=True)
                    okc = cp_.returncode == 0 and re.search(r"Axioms:\s*<none>", cp_.stdout + cp_.stderr) is not None
                    chk.obligation("coqchk:Props.C18", okc, (cp_.stdout + cp_.stderr)[-300:].replace("\n", " "))
                    if not okc:
                        failed.append(("coqchk", "Props.C18", (cp_.stdout + cp_.stderr)[-800:]))
                except Exception as ex:      # noqa: BLE001
                    chk.obligation("coqchk:Props.C18", False, repr(ex))
            if refuted and compiled:
                rf = os.path.join(V.PROPS_OUT, "C18Refuted.v")
                V.write_if_changed(rf, "(* generated: one refutation of the FULL statement per recorded finding, by computation on the recorded witness *)\n"
                                   "From LSP Require Import Base JSchema Loader.\nFrom Gen Require Import SchemaData ModelPyData MainData C18X.\nFrom Props Require Import C18.\n"
                                   "Open Scope string_scope.\n" + "\n".join(t for _, t in refuted) + "\n" + "\n".join("Print Assumptions %s." % n for n, _ in refuted) + "\n")
                rr = V.coqc(rf)
                for n, _ in refuted:
                    chk.obligation(n, rr.ok, "" if rr.ok else rr.text[-300:])
                if not rr.ok:
                    failed.append(("proof", "C18Refuted.v", rr.text[-1200:]))

        # ---------------------------------------------------------------- 5. witnesses for the failing checker sites
        for site in expl["compat"]:
            key = site_key(site, schema)
            if key in known_keys:
                continue
            w = D.witness_for(schema, site if site[0] in ("prop", "alt") else ("min", site[1], None)) if site[1] in schema["definitions"] else None
            if w is None:
                failed.append(("checker", "compat " + "/".join(site), "no witness document could be synthesised"))
                continue
            robj = {"kind": "loader", "obligation": "compat_current (C18_load_readback)", "site": list(site), "input": {"doc": w},
                    "expected": "a schema-valid document loads and reads back as the document"}
            bad, note = replay_obj(robj)
            if bad:
                add_violation(key, dict(robj, observed_impl=note))
            else:
                failed.append(("checker", "compat " + "/".join(site), "the synthesised witness does not fail on the real code: " + note))
        for site in expl["eq"]:
            key = ("eq-raises:" + site[1]) if site[0] == "eq-attr" else "eq:%s:%s" % (site[0], site[1])
            if key in known_keys:
                continue
            failed.append(("checker", "eqs_ok " + "/".join(site), "see the equality stream for an input"))
        for site in expl["covers"]:
            failed.append(("checker", "eq_covers " + "/".join(site), "see the equality stream for an input"))

        # ---------------------------------------------------------------- 6. streams
        feats = D.feature_docs()
        n_rand = 40 if quick else 400
        valid_docs = [("feature:" + f, d) for f, d in feats] + [("random:" + "+".join(l), d) for l, d in (D.random_valid(committed, rng, feats) for _ in range(n_rand))]
        # shape coverage derived from lsp.schema.json: every (definition, property) x every alternative / listed type / enum value of its
        # schema x array lengths 0, 1, 2 - a converter that normalises one shape into another fails on one of these documents
        cov = D.schema_coverage(schema)
        cov_info = {"schema:" + l: i for l, _, i in cov}
        valid_docs += [("schema:" + l, d) for l, d, _ in cov]
        invalid_docs = [("invalid:" + l, d) for l, d in D.invalid_edits() + D.invalid_extensions()]
        docs = [("committed", committed)] + valid_docs + invalid_docs
        if not quick:     # every declaration of the committed document on its own
            for k in D.LISTS:
                for i, x in enumerate(committed[k]):
                    d = D.empty(); d[k] = [copy.deepcopy(x)]
                    docs.append(("committed-decl:%s[%d]" % (k, i), d))
        loads = real("load", docs=[d for _, d in docs])
        roots = ["file", "MetaModel"] + (["main"] if main_schema is not None else [])
        jsvr = real("jsv", docs=[d for _, d in docs], roots=roots, main_schema=main_schema)
        for (lab, d), l in zip(docs, loads):
            chk.count(("load", D.strict_dumps(d)), nontrivial=lab != "feature:empty")
        chk.sample({"stream": "loader", "label": docs[1][0], "doc": docs[1][1], "impl": {k: loads[1][k] for k in ("ok",)}})

        # oracle on the real code: every document valid under the pinned reading loads and reads back
        loader_fail = []
        n_cov_ok = 0
        for (lab, d), l, v in zip(docs, loads, jsvr["MetaModel"]):
            if lab in cov_info and not v:
                failed.append(("generator", "c18_docs.schema_coverage", "document %s is not valid under root MetaModel for the real jsonschema" % lab))
            if v and D.pinned_ok(d):
                bad = (not l["ok"]) or not D.sim(l["readback"], d)
                if lab in cov_info and not bad:
                    n_cov_ok += 1
                if bad:
                    feat = lab.split(":", 1)[1] if lab.startswith("feature:") else None
                    key = ("loader:" + feat) if feat else "loader:doc:" + lab[:60]
                    if feat and lab.startswith("feature:") and feat not in D.TYPES:
                        key = "loader:feature:" + feat
                    used = re.findall(r"add-feature:([\w.\-]+)", lab)
                    if lab.startswith("random:") and any(("loader:" + u) in viol or ("loader:" + u) in known_keys for u in used):
                        continue        # explained by a feature that already fails on its own
                    if lab in cov_info:
                        ci = cov_info[lab]
                        if any(("loader:" + u) in viol or ("loader:" + u) in known_keys for u in ci["uses"]):
                            continue    # uses a type kind / annotation that already fails on its own (recorded or reported above)
                        key = "loader:schema:%s:%s" % (ci["site"], ci["shape"])      # one report per (site, shape), not per alternative
                    if key not in known_keys:
                        loader_fail.append((0 if lab.startswith("feature:") else 1, len(D.strict_dumps(d)), key,
                                            {"kind": "loader", "label": lab, "input": {"doc": d}, "expected": "loads; read-back ~ document",
                                             "observed_impl": ("raises %s: %s" % (l["exc"], l["msg"][:200])) if not l["ok"] else "read-back differs from the document",
                                             "read_back": l.get("readback") if l["ok"] and len(D.strict_dumps(d)) < 4000 else None}))
        loader_fail.sort(key=lambda x: x[:3])
        chk.extra["loader_oracle_failures"] = len(loader_fail)
        chk.extra["schema_shape_coverage"] = {"documents": len(cov), "sites": len({i["site"] for _, _, i in cov}), "load_and_read_back": n_cov_ok,
                                              "array_sites_with_lengths_0_1_2": sorted({i["site"] for _, _, i in cov if i["shape"] == "array2"})}
        chk.obligation("search:every-schema-shape-loads-and-reads-back", not any(k.startswith("loader:schema:") for _, _, k, _ in loader_fail),
                       "%d documents derived from lsp.schema.json (every alternative, arrays of length 0/1/2), %d load and read back (the others use a recorded finding)"
                       % (len(cov), n_cov_ok))
        for _, _, key, obj in loader_fail[:8]:      # smallest documents first; a systemic defect is not reported forty times
            add_violation(key, dict(obj, failing_documents_in_this_run=len(loader_fail)))
        # create_lsp_model
        fd = dict(feats)
        groups = [[fd["or"], fd["enumerations"]], [fd["literal"], fd["message-all-optionals"], fd["extends-mixins"]], [fd["empty"], fd["base"]],
                  [fd["base"]], [], [fd["map-basekey"], fd["map-basekey"]]]
        for _ in range(3 if quick else 30):
            groups.append([D.random_valid(committed, rng, feats)[1] for _ in range(rng.choice([2, 3]))])
        groups.append([fd["base"], D.invalid_edits()[0][1]])
        creates = real("create", groups=groups)
        gdocs = [x for g in groups for x in g]
        gl = iter([l["ok"] and D.sim(l["readback"], x) for l, x in zip(real("load", docs=gdocs), gdocs)])
        for g, c in zip(groups, creates):
            chk.count(("create", D.strict_dumps(g)))
            if g and all([next(gl) for _ in g]):
                bad = (not c["ok"]) or not D.sim(c["readback"], concat_oracle(g))
                if bad and "merge" not in known_keys:
                    add_violation("merge", {"kind": "create", "input": {"docs": g}, "expected": "the first model extended in order by the others' declarations",
                                            "observed_impl": "raises " + c.get("exc", "") if not c["ok"] else "read-back differs from the concatenation"})
        # purity: the loader is a function of the documents (what the Coq model assumes, and what "merge is concatenation" and
        # "two loads of the same document" need): one in-memory copy of each group is merged twice, the inputs are compared
        # before/after, the first model is re-read, the first document is loaded alone afterwards
        pgroups = D.purity_groups(feats) + [("stream-group", g) for g in groups if len(g) >= 2]
        ploaded = [all(l["ok"] and D.sim(l["readback"], x) for l, x in zip(real("load", docs=g), g)) for _, g in pgroups]
        pres = real("purity", groups=[g for _, g in pgroups])
        n_pure = 0
        for (lab, g), okg, r in zip(pgroups, ploaded, pres):
            chk.count(("purity", D.strict_dumps(g)))
            if not okg:
                continue
            n_pure += 1
            v = purity_verdict(g, r)
            if v and ("purity:" + v[0]) not in known_keys:
                add_violation("purity:" + v[0], {"kind": "purity", "label": lab, "input": {"docs": g},
                                                   "expected": "create_lsp_model(docs) twice on the same in-memory documents: inputs unchanged, both models read back as the concatenation, "
                                                               "the first model unchanged by the second call, the first document alone reads back as itself",
                                                   "observed_impl": "%s: %s" % v})
        chk.obligation("search:loader-is-a-function-of-the-documents", not any(k.startswith("purity:") for k in viol), "%d model groups (first file with empty sections included)" % n_pure)
        # equality: all pairs of a small family + single skeleton-attribute mutations
        fam = eq_family(committed, rng)
        epairs = [(i, j) for i in range(len(fam)) for j in range(len(fam))]
        muts = skeleton_mutations([d for f, d in feats if f in ("or", "literal", "map-refkey", "tuple", "and", "extends-mixins", "enumerations", "message-all-optionals", "params-array", "array")],
                                  rng, 60 if quick else 100000)
        # shape pairs: two documents that differ only in the shape chosen at one site of the schema (single vs [x], [] vs [x], [x] vs [x, y], ...)
        by_site = {}
        for l, d, i in cov:
            if i["site"].split(".")[1] in D.SKNAMES:
                by_site.setdefault(i["site"], []).append((l, d, i))
        shape_pairs = []
        for site, xs in sorted(by_site.items()):
            first = {}
            for x in xs:
                first.setdefault(x[2]["shape"], x)
            reps = list(first.values())
            cand = [(a, b) for n, a in enumerate(reps) for b in reps[n + 1:]]                       # one representative per shape, all pairs
            cand += [(xs[n], xs[n + 1]) for n in range(len(xs) - 1)]                                 # neighbouring variants
            for a, b in cand:
                shape_pairs.append(("shape:%s:%s|%s" % (site, a[2]["shape"], b[2]["shape"]), a[1], b[1]))
        if quick:       # every pair across array shapes (T vs [T], [] vs [T], [T] vs [T, U]: what a normalising converter confuses), a sample of the rest
            cross = [p for p in shape_pairs if "array" in p[0] and p[0].split(":")[-1].split("|")[0] != p[0].split("|")[-1]]
            rest = [p for p in shape_pairs if p not in cross]
            shape_pairs = cross + rng.sample(rest, min(40, len(rest)))
        muts = muts + shape_pairs
        edocs = [d for _, d in fam]
        for lab, a, b in muts:
            edocs += [a, b]
            epairs.append((len(edocs) - 2, len(edocs) - 1))
        eqr = real("eq", docs=edocs, pairs=epairs)
        elabels = {}
        for n, (lab, a, b) in enumerate(muts):
            elabels[(len(fam) + 2 * n, len(fam) + 2 * n + 1)] = lab
        for (i, j), v, ex in zip(epairs, eqr["verdicts"], eqr["excs"]):
            chk.count(("eq", D.strict_dumps(edocs[i]), D.strict_dumps(edocs[j])))
            same_doc = D.strict_dumps(edocs[i]) == D.strict_dumps(edocs[j])
            diff_skel = D.strict_dumps(D.skeleton(edocs[i])) != D.strict_dumps(D.skeleton(edocs[j]))
            want = 1 if same_doc else 0 if diff_skel else None
            if v == 3:
                continue
            if v == 2 or (want is not None and v != want):
                if v == 2:
                    m = re.match(r"AttributeError: '(\w+)' object", ex or "")
                    key = "eq-raises:" + (m.group(1) if m else "unknown")
                elif same_doc:
                    key = "eq-not-reflexive"
                else:
                    key = "eq-ignores:" + elabels.get((i, j), "family[%d,%d]" % (i, j))
                if key not in known_keys:
                    add_violation(key, {"kind": "eq", "input": {"a": edocs[i], "b": edocs[j], "expected": want if want is not None else 0},
                                        "expected": "two separate loads compared with ==: %s, never an exception" % {1: "True (same document)", 0: "False (structurally different)", None: "a bool"}[want],
                                        "observed_impl": "raises %s" % ex if v == 2 else "== gives %s" % bool(v)})
        chk.sample({"stream": "equality", "pair": [fam[0][0], fam[1][0]], "impl": eqr["verdicts"][1]})

        # gate: schema-violating documents must make the generator fail before any plugin runs, nothing written
        plugins = PLUGINS_QUICK if quick else PLUGINS_ALL
        inval = [(lab, d) for (lab, d), v in zip(docs, jsvr["MetaModel"]) if lab.startswith("invalid:") and not v]
        jobs = []
        sel = inval if not quick else inval[:: max(1, len(inval) // 16)][:16] + [x for x in inval if x[0] == "invalid:missing-result"]
        seen = set()
        for lab, d in sel:
            if lab in seen:
                continue
            seen.add(lab)
            for pl in plugins:
                jobs.append((lab, [d], pl))
        jobs.append(("invalid:second-file-missing-result", [fd["base"], dict(D.invalid_edits())["missing-result"]], "python"))
        # a NON-first model file whose only violation is at its top level (metaData, unknown key), after a valid first file
        for lab, d in D.invalid_extensions():
            if ("invalid:" + lab, d) in inval:
                for pl in plugins:
                    jobs.append(("invalid:second-file-" + lab, [committed if pl != "testdata" else fd["base"], d], pl))
        big = copy.deepcopy(committed)
        del big["requests"][0]["result"]          # the committed model with one schema-required key removed
        jobs = [(lab, [big], pl) if (lab == "invalid:missing-result" and pl != "testdata") else (lab, ds, pl) for lab, ds, pl in jobs]
        vjobs = [("valid:feature:or", [fd["or"]], "python"), ("valid:feature:enumerations", [fd["enumerations"], fd["base"]], "python")]
        with concurrent.futures.ThreadPoolExecutor(8) as ex:
            gres = list(ex.map(lambda j: run_generator(j[1], j[2]), jobs + vjobs))
        gate_viol = 0
        for (lab, ds, pl), g in zip(jobs, gres[:len(jobs)]):
            chk.count(("gate", pl, D.strict_dumps(ds)))
            if gate_fails(g):
                gate_viol += 1
                key = "gate:" + lab.split(":", 1)[1]
                if key not in known_keys:
                    add_violation(key, {"kind": "gate", "input": {"docs": ds, "plugin": pl}, "expected": "exit status != 0, output and test directories empty, plugin not loaded",
                                        "observed_impl": "rc=%s, %d files written %s, plugin reached=%s" % (g["rc"], g["n_written"], g["written"][:3], g["reached"])})
        chk.extra["gate_runs"] = {"runs": len(jobs), "plugins": plugins, "violating": gate_viol}

        # gate over process histories: main called repeatedly in ONE interpreter while the files change on disk (lib/c18_history.py)
        hplans = HS.plans(quick, committed)
        hobs = HS.run_all(hplans)
        horc = HS.oracle(hplans, real)
        hjudged = [HS.judge(h, o, horc) for h, o in zip(hplans, hobs)]
        hbad = []
        for h, o, js in zip(hplans, hobs, hjudged):
            chk.count(("history", h["plugin"], D.strict_dumps(h["steps"])))
            first = next((j for j in js if j["bad"]), None)
            if first:
                key = "history:%s:%s" % (first["bad"][0], h["label"].split(":")[0])
                if key not in known_keys:
                    hbad.append((len(D.strict_dumps(h["steps"])), key, {
                        "kind": "history", "label": h["label"], "input": {"history": h},
                        "expected": "in one process, whatever ran before: a call of main on a schema-violating file raises, calls no plugin, writes nothing; a call on valid files "
                                    "hands the plugin the model of the documents on disk at that moment",
                        "observed_impl": "; ".join(j["bad"][1] for j in js if j["bad"]),
                        "steps": [{"step": j["step"], "rewritten_before_the_call": sorted(h["steps"][j["step"]]["write"]), "argv": ["--model"] + ["<dir>/" + m for m in h["steps"][j["step"]]["models"]] + ["--plugin", h["plugin"], "--output-dir", "<dir>/out%d" % j["step"],
                                                                                                             "--test-dir", "<dir>/tests%d" % j["step"]],
                                   "files_on_disk_schema_valid": j["valid"], "expected": j["expected"], "observed": j["observed"], "violates": bool(j["bad"])} for j in js]}))
        hbad.sort(key=lambda x: x[:2])
        hfirst = {}
        for x in hbad:
            hfirst.setdefault(x[1], x)
        for _, key, obj in sorted(hfirst.values(), key=lambda x: x[:2])[:3]:            # smallest histories first; one systemic defect is not reported ten times
            add_violation(key, dict(obj, failing_histories_in_this_run=len(hbad)))
        n_hsteps = sum(len(js) for js in hjudged)
        chk.obligation("search:gate-holds-over-process-histories", not hbad, "%d histories, %d calls of main (files rewritten between calls, one interpreter per history)"
                       % (len(hplans), n_hsteps))
        chk.extra["gate_histories"] = {"histories": len(hplans), "calls_of_main": n_hsteps, "violating": len(hbad), "plans": [h["label"] for h in hplans]}
        chk.sample({"stream": "gate-history", "label": hplans[0]["label"], "impl": [j["observed"] for j in hjudged[0]]})
        chk.sample({"stream": "gate", "label": jobs[0][0], "plugin": jobs[0][2], "impl": {k: gres[0][k] for k in ("rc", "n_written", "reached")}})

        # ---------------------------------------------------------------- 7. correspondence: model vs real code
        disagreements = []
        n_corr = 0
        if model_ok:
            cases, meta = [], []
            for (lab, d), l in zip(docs, loads):
                cases.append({"kind": "load", "doc": d, "real": l}); meta.append(("load", lab))
            for r in roots:
                for (lab, d), v in zip(docs, jsvr[r]):
                    if r == "file" and (lab.startswith("random:") or lab.startswith("schema:")):
                        continue
                    cases.append({"kind": "jsv", "root": r, "doc": d, "real": v}); meta.append(("jsv:" + r, lab))
            for g, c in zip(groups, creates):
                cases.append({"kind": "create", "docs": g, "real": c}); meta.append(("create", "%d docs" % len(g)))
            cases.append({"kind": "eq", "a": committed, "b": committed, "real": real("eq", docs=[committed], pairs=[[0, 0]])["verdicts"][0]}); meta.append(("eq", "committed,committed"))
            for (i, j), v in zip(epairs, eqr["verdicts"]):
                cases.append({"kind": "eq", "a": edocs[i], "b": edocs[j], "real": v}); meta.append(("eq", "%d,%d" % (i, j)))
            for (lab, ds, pl), g in zip(jobs + vjobs, gres):
                if pl == "python":
                    cases.append({"kind": "main", "docs": ds, "real": g["reached"] or g["rc"] == 0}); meta.append(("main", lab))
            for h, js in zip(hplans, hjudged):      # the model of main is a function of the documents on disk at the call: every step of a history is a case
                if h["plugin"] == HS.STUB:
                    for j in js:
                        cases.append({"kind": "main", "docs": j["documents"], "real": j["reached"]}); meta.append(("main", "history:%s#%d" % (h["label"], j["step"])))
            codes = run_cases("s%d%s" % (chk.seed, "q" if quick else "t"), cases)
            n_corr = len(cases)
            by_stream = {}
            covered = {D.strict_dumps(d) for (lab, d), v in zip(docs, jsvr["MetaModel"]) if v and D.pinned_ok(d)}
            for (st, lab), c, case in zip(meta, codes, cases):
                if c == 3 and D.strict_dumps(case["doc"]) not in covered:
                    c = 0       # read-back ~ document is only claimed for schema-valid documents
                st0 = st.split(":")[0]
                by_stream.setdefault(st0, [0, 0])
                by_stream[st0][0] += 1
                if c != 0:
                    by_stream[st0][1] += 1
                    disagreements.append({"stream": st, "label": lab, "code": c, "case": {k: v for k, v in case.items() if k != "real"}, "impl": case["real"] if not isinstance(case["real"], dict) else {k: case["real"].get(k) for k in ("ok", "exc", "msg")}})
            for st, (n, b) in sorted(by_stream.items()):
                chk.obligation("correspondence:%s-stream" % st, b == 0, "%d cases, %d disagreements" % (n, b))
            chk.extra["correspondence"] = {k: {"cases": v[0], "disagreements": v[1]} for k, v in by_stream.items()}
            if disagreements:
                failed.append(("correspondence", "LSP.Loader / LSP.JSchema vs the real code", json.dumps(disagreements[:3])[:3000]))
        chk.extra["traces_validated_against_impl"] = n_corr
        chk.extra["input_distribution"] = {"documents": len(docs), "feature": len(feats), "random_valid": n_rand, "invalid_single_edits": len(invalid_docs),
                                           "create_groups": len(groups), "purity_groups": len(pgroups), "eq_pairs": len(epairs), "gate_runs": len(jobs),
                                           "gate_histories": len(hplans), "gate_history_calls": n_hsteps}

    # -------------------------------------------------------------------- 8. verdict
    for key, obj in sorted(viol.items()):
        obj["broken"] = [list(f[:2]) for f in failed][:6]
        chk.violation(obj, tag=re.sub(r"\W+", "_", key)[:40])
    if failed and not viol:
        chk.violation({"property": "C18", "kind": "obligation no longer checks", "broken": [{"what": a, "name": b, "detail": c} for a, b, c in failed],
                       "searched": "%d documents through the real loader, %d == pairs, %d generator runs against the property's oracle: none fails"
                                   % (len(docs), len(epairs), len(jobs) + n_hsteps)}, no_input=True)
    elif failed:
        chk.extra["broken_obligations"] = [{"what": a, "name": b, "detail": c[:600]} for a, b, c in failed]


def cpairs(mp, schema):
    """(definition, callee) pairs reachable from (MetaModel, root class): a traversal of schema + translated classes; the checker verifies each"""
    defs = schema["definitions"]
    fields = {}
    txt = open(os.path.join(V.GEN, "ModelPyData.v")).read()
    for cm in re.finditer(r"Definition cls_(\w+) : cls := \{\| c_name := \"(\w+)\"; c_fields := \[(.*?)\];\n  c_eq", txt, re.S):
        fs = {}
        for fm in re.finditer(r"f_name := \"(\w+)\"; f_conv := (.*?); f_default", cm.group(3)):
            fs[fm.group(1)] = fm.group(2)
        fields[cm.group(2)] = fs
    out, todo, seen = [], [("MetaModel", ("CClass", mp["root"]))], set()

    def refs(node):
        if "$ref" in node:
            return [node["$ref"].split("/")[-1]]
        r = []
        for a in node.get("anyOf", []):
            r += refs(a)
        if "items" in node:
            r += refs(node["items"])
        return r
    while todo:
        dn, ce = todo.pop(0)
        if (dn, ce) in seen or dn not in defs:
            continue
        seen.add((dn, ce))
        out.append("(%s, %s %s)" % (V.q(dn), ce[0], V.q(ce[1])))
        node = defs[dn]
        targets = []
        if ce[0] == "CClass":
            targets.append((node, ce[1]))
        else:
            f = mp["funs"].get(ce[1])
            if f:
                for a in node.get("anyOf", []):
                    an = defs.get(a.get("$ref", "").split("/")[-1], a)
                    k = an.get("properties", {}).get("kind", {}).get("const")
                    c = dict(f["cases"]).get(k, f["default"])
                    if c:
                        targets.append((an, c))
        for n, c in targets:
            for p, ps in n.get("properties", {}).items():
                conv = fields.get(c, {}).get(p, "")
                m = re.search(r"\((CClass|CFun) \"(\w+)\"\)", conv) or re.search(r"\(K(Direct) \"(\w+)\"\)", conv)
                if m:
                    callee = ("CFun", m.group(2)) if m.group(1) == "Direct" else (m.group(1), m.group(2))
                    for r in refs(ps):
                        todo.append((r, callee))
    return out


def eq_family(committed, rng):
    """a base document and edited variants: (label, doc)"""
    b = D.sample(committed, rng, 2)
    b["typeAliases"] = copy.deepcopy(committed["typeAliases"][:2])
    fam = [("base", b), ("base-again", copy.deepcopy(b))]

    def v(label, f):
        d = copy.deepcopy(b); f(d); fam.append((label, d))
    v("doc-only-edit", lambda d: d["structures"][0].update(documentation="changed"))
    v("keys-shuffled", lambda d: d.update(D.shuffle_keys(copy.deepcopy(d), rng)))
    v("property-dropped", lambda d: d["structures"][0]["properties"].pop() if d["structures"][0]["properties"] else d["structures"][0].update(name="Other"))
    v("structure-renamed", lambda d: d["structures"][-1].update(name="Renamed"))
    v("structures-reordered", lambda d: d["structures"].reverse())
    v("request-result-changed", lambda d: d["requests"][0].update(result={"kind": "base", "name": "null"}))
    v("enum-value-changed", lambda d: d["enumerations"][0]["values"][0].update(value="zz" if isinstance(d["enumerations"][0]["values"][0]["value"], str) else 424242))
    v("second-alias-type-changed", lambda d: d["typeAliases"][1].update(type={"kind": "base", "name": "null"}))
    v("alias-dropped", lambda d: d["typeAliases"].pop())
    v("notification-direction-changed", lambda d: d["notifications"][0].update(messageDirection="both" if d["notifications"][0]["messageDirection"] != "both" else "clientToServer"))
    return fam


def skeleton_mutations(docs, rng, limit):
    """(label, doc, doc') with exactly one skeleton attribute changed somewhere"""
    out = []
    for d in docs:
        for path, node in D.nodes(d):
            for k in list(node):
                if k not in D.SKNAMES:
                    continue
                d2 = copy.deepcopy(d)
                n2 = d2
                for p in path:
                    n2 = n2[p]
                x = n2[k]
                if isinstance(x, bool):
                    n2[k] = not x
                elif isinstance(x, str):
                    if k == "kind" or (k == "name" and n2.get("kind") == "base") or k == "messageDirection":
                        continue        # would leave the schema; other mutations cover these classes
                    n2[k] = x + "_x"
                elif isinstance(x, int):
                    n2[k] = x + 1
                elif isinstance(x, list):
                    if x:
                        n2[k] = x[1:]
                    else:
                        continue
                elif isinstance(x, dict):
                    n2[k] = {"kind": "base", "name": "decimal"} if x != {"kind": "base", "name": "decimal"} else {"kind": "base", "name": "null"}
                    if k == "key":
                        n2[k] = {"kind": "base", "name": "integer"}
                    if k == "value" and n2.get("kind") == "literal":
                        n2[k] = {"properties": []}
                    if k == "type" and "values" in n2:
                        continue
                out.append(("%s" % k, d, d2))
    if len(out) > limit:
        out = rng.sample(out, limit)
    return out
