"""C11 — spec-invalid single-field deviations are rejected, never silently repaired.

proof:   coq/props/C11.v: four generic rejection theorems (LSP.SemThy: every table, every callback, every fuel, every
         surrounding object) instantiated through the eligibility table computed from the current metamodel + package
tie:     x_mm, x_pkg; converter correspondence on exactly these edits (model and real converter must both reject)
search:  every eligible (structure, property, edit) applied to a minimal and a near-maximal valid value on the real converter
"""
import json
import os
import random

import conv_stream as CS
import mmlib
import vcommon as V

RULE = ("every structure x every property eligible for an edit (missing required / int out of range x {below, above} / closed enum "
        "outside value / literal mismatch) x {minimal, near-maximal} valid surrounding value; distinct = (structure, property, edit, surrounding)")
I32 = (-2**31, 2**31 - 1)


def edits(mmv, open_enums):
    """yield (structure, property, edit-name, function applying the edit to a dict)"""
    for sn in mmv.S:
        if sn == "LSPObject":
            continue
        for pn, p in mmv.flat(sn).items():
            t = p["type"]
            opt = bool(p.get("optional")) or mmv.null_adm(t)
            if not opt and t["kind"] != "stringLiteral":
                yield sn, pn, "missing", None
            if t["kind"] == "base" and t["name"] == "integer":
                yield sn, pn, "below", I32[0] - 1
                yield sn, pn, "above", I32[1] + 1
            if t["kind"] == "base" and t["name"] == "uinteger":
                yield sn, pn, "below", -1
                yield sn, pn, "above", I32[1] + 1
            if t["kind"] == "reference" and t["name"] in mmv.E and t["name"] not in open_enums:
                e = mmv.E[t["name"]]
                vals = [v["value"] for v in e["values"]]
                if e["type"]["name"] == "string":
                    # far from every member, and NEAR members: other spellings of a declared value (case, surrounding blanks, a proper
                    # prefix, one more character) that are not declared values themselves
                    outs = ["zz-not-a-member"]
                    for v in vals[:3]:
                        outs += [v.upper(), v.capitalize(), v.swapcase(), " " + v, v + " ", v[:-1], v + "x"]
                    outs = [o for o in dict.fromkeys(outs) if o not in vals]
                else:
                    outs = [max(vals) + 1000] + [o for o in (min(vals) - 1, max(vals) + 1, -max(vals)) if o not in vals]
                for out in outs:
                    yield sn, pn, "enum", out
            if t["kind"] == "stringLiteral":
                lit = t["value"]
                for v in dict.fromkeys([lit + "x", lit[:-1], lit[1:], "", lit.upper(), " " + lit]):
                    if v != lit:
                        yield sn, pn, "literal", v


def run(chk):
    rng = random.Random(chk.seed)
    chk.rule = RULE
    chk.trusted = V.STD_TRUSTED + ["translators x_mm, x_pkg", "hand-written converter model LSP.Sem (validated by the correspondence stream)"]
    mmv = mmlib.MMView()
    open_enums = {e["name"] for e in mmv.doc["enumerations"] if e.get("supportsCustomValues")} | {"CompletionItemKind"}
    with V.build_lock():
        ok, fails = CS.build_conv(chk)
        if ok:
            proved, f2 = V.prove(chk, "C11", [])
            fails += f2
        cases, meta = [], []
        for sn, pn, ed, val in edits(mmv, open_enums):
            for sur, (alt, depth) in (("minimal", (0, 0)), ("maximal", (1, 3))):
                base = mmv.value(mmlib.ref(sn), 0, alt, depth)
                if ed == "missing":
                    if pn not in base:
                        continue
                    j = dict(base)
                    del j[pn]
                else:
                    j = dict(base)
                    j[pn] = val
                cases.append({"target": sn, "input": j, "kind": ed})
                meta.append((sn, pn, ed, sur))
                chk.count((sn, pn, ed, sur))
        dist = {}
        for m in meta:
            dist[m[2]] = dist.get(m[2], 0) + 1
        chk.extra["edit_distribution"] = dist
        verdict, real = ([], [])
        if ok:
            pkg = CS.load_pkg(mmv)
            keep = [i for i, c in enumerate(cases) if c["target"] in pkg["classes"]]
            cases = [cases[i] for i in keep]
            meta = [meta[i] for i in keep]
            verdict, real = CS.run_cases(cases, "C11")
            nbad = sum(1 for v in verdict if v)
            chk.obligation("correspondence:Sem-vs-real-converter(edits)", nbad == 0, "%d cases, %d disagreements" % (len(cases), nbad))
            chk.extra["traces_validated_against_impl"] = len(cases)
            if nbad:
                i = [k for k, v in enumerate(verdict) if v][0]
                fails.append(("correspondence", "LSP.Sem vs converter", json.dumps({"case": cases[i], "meta": meta[i], "code": verdict[i], "impl_ok": real[i]["ok"]})[:1500]))
        else:
            real = CS.real_results(cases) if cases else []
    chk.sample({"structure": meta[0][0], "property": meta[0][1], "edit": meta[0][2], "input": cases[0]["input"]} if cases else {})
    accepted = [(m, c) for m, c, r in zip(meta, cases, real) if r["ok"]]
    if accepted:
        m, c = accepted[0]
        chk.violation({"property": "C11", "kind": "the real converter accepts a spec-invalid single-field deviation", "input": {"class": c["target"], "property": m[1], "edit": m[2], "surrounding": m[3], "json": c["input"]},
                       "others": [list(x[0]) for x in accepted[1:20]], "broken": [f[:2] for f in fails]})
    elif fails:
        chk.violation({"property": "C11", "kind": "obligation no longer checks", "broken": [{"what": a, "name": b, "detail": c} for a, b, c in fails],
                       "searched": "%d edited inputs on the real converter: all rejected" % len(cases)}, no_input=True)


def replay(path):
    r = json.load(open(path))
    inp = r.get("input")
    if not inp:
        print("no concrete input recorded")
        return 1
    res = CS.real_run([{"target": inp["class"], "input": inp["json"]}])["results"][0]
    print("real converter:", "accepts" if res["ok"] else "rejects (%s)" % res.get("err"))
    return 1 if res["ok"] else 0
