"""Entry point of every check: ./check <id> [--tier quick|thorough] [--replay file]."""
import argparse
import importlib
import os
import sys
import traceback

sys.path.insert(0, os.path.dirname(os.path.abspath(__file__)))
import vcommon as V  # noqa: E402


def main():
    ap = argparse.ArgumentParser()
    ap.add_argument("prop")
    ap.add_argument("--tier", default=os.environ.get("VERIF_TIER", "quick"), choices=["quick", "thorough"])
    ap.add_argument("--replay")
    a = ap.parse_args()
    seed = int(os.environ.get("VERIF_SEED", "0") or 0)
    mod = importlib.import_module("props." + a.prop.lower())
    if a.replay:
        try:
            import json
            if (json.load(open(a.replay)).get("converter_history") or {}).get("cfg"):
                os.environ["VERIF_REPLAY_CONV_CFG"] = json.load(open(a.replay))["converter_history"]["cfg"]
        except Exception:
            pass
        sys.exit(mod.replay(a.replay))
    chk = V.Check(a.prop, a.tier, seed, level=getattr(mod, "LEVEL", "proof"))
    try:
        V.ensure_theory()
        mod.run(chk)
    except Exception:
        # the machinery itself broke: the property is no longer shown to hold
        tb = traceback.format_exc()
        sys.stderr.write(tb)
        chk.obligation("check-machinery", False, tb[-800:])
        chk.violation({"property": a.prop, "kind": "machinery-error", "obligation": "the check could not be completed",
                       "traceback": tb[-4000:]}, no_input=True, tag="machinery")
    rc = chk.finish(rule=getattr(mod, "RULE", ""))
    sys.exit(rc)


if __name__ == "__main__":
    main()
