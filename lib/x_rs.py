"""x_rs — translate the Rust crate source (lib.rs) into Coq data (Gen/RustData.v).

Two sources, both taken from vcommon.REPO on every run:
  generated  `python -m generator --plugin rust` run from the CURRENT tree into a scratch directory (raw output, and the
             same file after `rustfmt --edition 2021` when rustfmt is available; both must give the same items)
  committed  packages/rust/lsprotocol/src/lib.rs

Grammar accepted (everything else: exit 3 and "REJECT: <source>:<line>: <why>"):
  file     := item*
  item     := attr* ( `use` ... `;` | vis? `struct` Ident generics? `{` field,* `}` | vis? `enum` Ident generics? `{` variant,* `}`
                    | vis? `type` Ident `=` type `;` )
            | `impl` `Serialize` `for` Ident `{` <the generator's serialize_i32 match> `}`
            | `impl<'de>` `Deserialize<'de>` `for` Ident `{` <the generator's i32 match> `}`
  attr     := `#[` derive(paths) | serde(args) | cfg(feature = "proposed") | deprecated[(..)] | doc = ".." | allow(..) `]`
  serde    := struct: rename_all = "camelCase", deny_unknown_fields   enum: untagged
              field: rename = "..", skip_serializing_if = ".."          variant: rename = ".."
  field    := attr* vis? Ident `:` type
  variant  := attr* Ident [ `(` type,* `)` ] [ `=` `-`? Int ]
  type     := path [ `<` type,* `>` ] | `(` type,* `)`
  comments (`//`, `///`, `/* */`) are skipped.

Besides the items, `msg_hints : list (string * string)` = (method, candidate struct name) for every request / notification of
generator/lsp.json WITHOUT typeName (optional in lsp.schema.json).  The candidate is computed here, independently of the plugin
(derived_msg_name).  It is an UNTRUSTED hint: LSP.Rust.rust_ok only looks the struct up under that name and checks everything on
the item found (and that no two messages share a struct); a wrong hint makes the check fail, never pass.

usage: x_rs.py <out.v> <info.json>      exit 0 ok | 3 REJECT | 4 the generator itself failed
"""
import json
import os
import re
import shutil
import subprocess
import sys

import vcommon as V
from vcommon import q

RUSTFMT_CANDIDATES = ["rustfmt", "/root/.cargo/bin/rustfmt", os.path.expanduser("~/.cargo/bin/rustfmt")]


class Reject(Exception):
    pass


RUST_KEYWORDS = set("""as async await break const continue crate dyn else enum extern false fn for if impl in let loop match mod move mut
pub ref return self Self static struct super trait true type unsafe use where while abstract become box do final macro override priv try
typeof unsized virtual yield""".split())


# ---------------------------------------------------------------------------------------------- lexer
PUNCT2 = ("::", "=>", "->")
PUNCT1 = "#[](){}<>,:;=&?.-!|*+"
ESC = {"n": "\n", "t": "\t", "r": "\r", "\\": "\\", '"': '"', "0": "\0", "'": "'"}


def lex(src, name):
    toks = []  # (kind, value, line)   kind in id, int, str, life, p
    i, n, line = 0, len(src), 1
    while i < n:
        c = src[i]
        if c == "\n":
            line += 1
            i += 1
        elif c in " \t\r":
            i += 1
        elif src.startswith("//", i):
            j = src.find("\n", i)
            i = n if j < 0 else j
        elif src.startswith("/*", i):
            j = src.find("*/", i + 2)
            if j < 0:
                raise Reject("%s:%d: unterminated block comment" % (name, line))
            line += src.count("\n", i, j)
            i = j + 2
        elif c == '"':
            j = i + 1
            out = []
            while True:
                if j >= n:
                    raise Reject("%s:%d: unterminated string" % (name, line))
                d = src[j]
                if d == '"':
                    break
                if d == "\\":
                    e = src[j + 1:j + 2]
                    if e not in ESC:
                        raise Reject("%s:%d: string escape \\%s not handled" % (name, line, e))
                    out.append(ESC[e])
                    j += 2
                    continue
                if d == "\n":
                    line += 1
                out.append(d)
                j += 1
            toks.append(("str", "".join(out), line))
            i = j + 1
        elif c == "'":
            m = re.compile(r"'([A-Za-z_][A-Za-z0-9_]*)").match(src, i)
            if not m or src[m.end():m.end() + 1] == "'":
                raise Reject("%s:%d: character literal / odd quote" % (name, line))
            toks.append(("life", m.group(1), line))
            i = m.end()
        elif c.isalpha() and c.isascii() or c == "_":
            m = re.compile(r"[A-Za-z_][A-Za-z0-9_]*").match(src, i)
            toks.append(("id", m.group(0), line))
            i = m.end()
        elif c.isdigit():
            m = re.compile(r"[0-9]+").match(src, i)
            if src[m.end():m.end() + 1].isalpha() or src[m.end():m.end() + 1] == "_":
                raise Reject("%s:%d: numeric literal with suffix/underscore" % (name, line))
            toks.append(("int", int(m.group(0)), line))
            i = m.end()
        elif src[i:i + 2] in PUNCT2:
            toks.append(("p", src[i:i + 2], line))
            i += 2
        elif c in PUNCT1:
            toks.append(("p", c, line))
            i += 1
        else:
            raise Reject("%s:%d: character %r outside the grammar" % (name, line, c))
    toks.append(("eof", None, line))
    return toks


# ---------------------------------------------------------------------------------------------- parser
class P:
    def __init__(self, toks, name):
        self.t, self.i, self.name = toks, 0, name

    def peek(self, k=0):
        return self.t[min(self.i + k, len(self.t) - 1)]

    def rej(self, why):
        k, v, ln = self.peek()
        raise Reject("%s:%d: %s (at %s %r)" % (self.name, ln, why, k, v))

    def is_p(self, v, k=0):
        t = self.peek(k)
        return t[0] == "p" and t[1] == v

    def is_id(self, v=None, k=0):
        t = self.peek(k)
        return t[0] == "id" and (v is None or t[1] == v)

    def eat_p(self, v):
        if not self.is_p(v):
            self.rej("expected `%s`" % v)
        self.i += 1

    def eat_id(self, v=None):
        if not self.is_id(v):
            self.rej("expected %s" % (("`%s`" % v) if v else "an identifier"))
        self.i += 1
        return self.t[self.i - 1][1]

    def decl_id(self, what):
        """a declared name (item, field, variant): a Rust keyword there is not valid Rust"""
        if self.is_id() and self.peek()[1] in RUST_KEYWORDS:
            self.rej("%s identifier is a Rust keyword: not valid Rust" % what)
        return self.eat_id()

    def seq(self, spec):
        """match a whitespace-separated token template; `?,` is an optional comma"""
        for w in spec.split():
            if w == "?,":
                if self.is_p(","):
                    self.i += 1
                continue
            k, v, _ = self.peek()
            if w.startswith("'"):
                ok = k == "life" and v == w[1:]
            elif re.match(r"[A-Za-z_]", w):
                ok = k == "id" and v == w
            else:
                ok = k == "p" and v == w
            if not ok:
                self.rej("impl body differs from the generator's template: expected `%s`" % w)
            self.i += 1

    # ---- attributes
    def balanced(self, open_, close):
        self.eat_p(open_)
        depth = 1
        while depth:
            k, v, _ = self.peek()
            if k == "eof":
                self.rej("unbalanced " + open_)
            if k == "p" and v == open_:
                depth += 1
            if k == "p" and v == close:
                depth -= 1
            self.i += 1

    def attrs(self, where):
        a = {"derive": set(), "serde": {}, "gated": False}
        while self.is_p("#"):
            self.i += 1
            if self.is_p("!"):
                self.rej("inner attribute")
            self.eat_p("[")
            name = self.eat_id()
            if name == "derive":
                self.eat_p("(")
                while not self.is_p(")"):
                    last = self.eat_id()
                    while self.is_p("::"):
                        self.i += 1
                        last = self.eat_id()
                    a["derive"].add(last)
                    if self.is_p(","):
                        self.i += 1
                    elif not self.is_p(")"):
                        self.rej("derive list")
                self.eat_p(")")
            elif name == "serde":
                self.eat_p("(")
                while not self.is_p(")"):
                    key = self.eat_id()
                    val = True
                    if self.is_p("="):
                        self.i += 1
                        k, v, _ = self.peek()
                        if k != "str":
                            self.rej("serde(%s = <non-string>)" % key)
                        val = v
                        self.i += 1
                    allowed = {"struct": {"rename_all", "deny_unknown_fields"}, "enum": {"untagged"},
                               "field": {"rename", "skip_serializing_if"}, "variant": {"rename"}, "alias": set()}[where]
                    if key not in allowed:
                        self.rej("serde attribute `%s` on a %s is outside the grammar" % (key, where))
                    if key == "rename_all" and val != "camelCase":
                        self.rej("rename_all = %r (only camelCase is modelled)" % (val,))
                    if key in ("rename", "skip_serializing_if") and val is True:
                        self.rej("serde(%s) without a value" % key)
                    if key in ("deny_unknown_fields", "untagged") and val is not True:
                        self.rej("serde(%s = ..)" % key)
                    if key in a["serde"]:
                        self.rej("serde attribute `%s` given twice" % key)
                    a["serde"][key] = val
                    if self.is_p(","):
                        self.i += 1
                    elif not self.is_p(")"):
                        self.rej("serde argument list")
                self.eat_p(")")
            elif name == "cfg":
                self.eat_p("(")
                self.eat_id("feature")
                self.eat_p("=")
                k, v, _ = self.peek()
                if k != "str" or v != "proposed":
                    self.rej('cfg other than feature = "proposed"')
                self.i += 1
                self.eat_p(")")
                a["gated"] = True
            elif name == "deprecated":
                if self.is_p("("):
                    self.balanced("(", ")")
                elif self.is_p("="):
                    self.i += 1
                    if self.peek()[0] != "str":
                        self.rej("deprecated = <non-string>")
                    self.i += 1
            elif name == "doc":
                self.eat_p("=")
                if self.peek()[0] != "str":
                    self.rej("doc = <non-string>")
                self.i += 1
            elif name == "allow":
                self.balanced("(", ")")
            else:
                self.rej("attribute `%s` is outside the grammar" % name)
            self.eat_p("]")
        return a

    def vis(self):
        if self.is_id("pub"):
            self.i += 1
            if self.is_p("("):
                self.balanced("(", ")")

    def generics(self):
        g = []
        if self.is_p("<"):
            self.i += 1
            while not self.is_p(">"):
                g.append(self.eat_id())
                if self.is_p(","):
                    self.i += 1
                elif not self.is_p(">"):
                    self.rej("generic parameter list (bounds/lifetimes are outside the grammar)")
            self.eat_p(">")
        return g

    def type_(self):
        if self.is_p("("):
            self.i += 1
            xs = self.type_list(")")
            self.eat_p(")")
            return ["tuple", xs]
        if not self.is_id():
            self.rej("type")
        path = [self.eat_id()]
        while self.is_p("::"):
            self.i += 1
            path.append(self.eat_id())
        name = "::".join(path)
        if self.is_p("<"):
            self.i += 1
            xs = self.type_list(">")
            self.eat_p(">")
            return ["app", name, xs]
        return ["name", name]

    def type_list(self, close):
        xs = []
        while not self.is_p(close):
            xs.append(self.type_())
            if self.is_p(","):
                self.i += 1
            elif not self.is_p(close):
                self.rej("type list")
        return xs

    def int_(self):
        neg = False
        if self.is_p("-"):
            neg = True
            self.i += 1
        k, v, _ = self.peek()
        if k != "int":
            self.rej("integer literal")
        self.i += 1
        return -v if neg else v

    # ---- items
    def file(self):
        items, impls = [], []
        while self.peek()[0] != "eof":
            start = self.peek()[2]
            if self.is_id("impl"):
                impls.append(self.impl())
                continue
            save = self.i
            # attributes are parsed once the item kind is known (their grammar depends on it): look ahead
            j = self.i
            self.skip_attrs()
            self.vis()
            kw = self.peek()
            self.i = save
            if kw[0] != "id" or kw[1] not in ("use", "struct", "enum", "type"):
                self.skip_attrs()
                self.vis()
                self.rej("item kind outside the grammar")
            if kw[1] == "use":
                self.skip_attrs()
                self.vis()
                while not self.is_p(";"):
                    if self.peek()[0] == "eof":
                        self.rej("use without `;`")
                    self.i += 1
                self.i += 1
                continue
            where = {"struct": "struct", "enum": "enum", "type": "alias"}[kw[1]]
            a = self.attrs(where)
            self.vis()
            self.i += 1
            name = self.decl_id("item")
            if where == "alias":
                if self.is_p("<"):
                    self.rej("generic type alias")
                self.eat_p("=")
                target = self.type_()
                self.eat_p(";")
                it = {"kind": "alias", "name": name, "gated": a["gated"], "target": target}
            elif where == "struct":
                g = self.generics()
                if not self.is_p("{"):
                    self.rej("tuple/unit struct")
                self.i += 1
                fields = []
                while not self.is_p("}"):
                    fa = self.attrs("field")
                    self.vis()
                    ident = self.decl_id("field")
                    self.eat_p(":")
                    ty = self.type_()
                    fields.append({"ident": ident, "rename": fa["serde"].get("rename"), "ty": ty, "gated": fa["gated"]})
                    if self.is_p(","):
                        self.i += 1
                    elif not self.is_p("}"):
                        self.rej("field list")
                self.i += 1
                it = {"kind": "struct", "name": name, "generics": g, "serde": {"Serialize", "Deserialize"} <= a["derive"],
                      "camel": a["serde"].get("rename_all") == "camelCase", "gated": a["gated"], "fields": fields}
            else:
                g = self.generics()
                self.eat_p("{")
                variants = []
                while not self.is_p("}"):
                    va = self.attrs("variant")
                    ident = self.decl_id("variant")
                    payload = []
                    if self.is_p("("):
                        self.i += 1
                        payload = self.type_list(")")
                        self.eat_p(")")
                    elif self.is_p("{"):
                        self.rej("struct-like enum variant")
                    disc = None
                    if self.is_p("="):
                        self.i += 1
                        disc = self.int_()
                    variants.append({"ident": ident, "rename": va["serde"].get("rename"), "payload": payload, "disc": disc, "gated": va["gated"]})
                    if self.is_p(","):
                        self.i += 1
                    elif not self.is_p("}"):
                        self.rej("variant list")
                self.i += 1
                it = {"kind": "enum", "name": name, "generics": g, "serde": {"Serialize", "Deserialize"} <= a["derive"],
                      "untagged": bool(a["serde"].get("untagged")), "gated": a["gated"], "variants": variants, "ser": [], "de": []}
            it["lines"] = [start, self.t[self.i - 1][2]]
            items.append(it)
        by = {}
        for it in items:
            by.setdefault(it["name"], it)
        for kind, ename, arms, lines in impls:
            it = by.get(ename)
            if it is None or it["kind"] != "enum":
                raise Reject("%s:%d: impl %s for %s, which is not an enum of this file" % (self.name, lines[0], kind, ename))
            if it[kind]:
                raise Reject("%s:%d: second impl %s for %s" % (self.name, lines[0], kind, ename))
            if not arms:
                raise Reject("%s:%d: impl %s for %s without arms" % (self.name, lines[0], kind, ename))
            it[kind] = arms
            it.setdefault("impl_lines", []).append(lines)
        for it in items:
            if it["kind"] == "enum" and bool(it["ser"]) != bool(it["de"]):
                raise Reject("%s: enum %s has only one of impl Serialize / impl Deserialize" % (self.name, it["name"]))
            if it["kind"] == "enum" and it["ser"] and it["serde"]:
                raise Reject("%s: enum %s both derives and implements Serialize/Deserialize" % (self.name, it["name"]))
        return items

    def skip_attrs(self):
        while self.is_p("#"):
            self.i += 1
            self.balanced("[", "]")

    def impl(self):
        start = self.peek()[2]
        self.eat_id("impl")
        if self.is_id("Serialize"):
            self.seq("Serialize for")
            en = self.eat_id()
            self.seq("{ fn serialize < S > ( & self , serializer : S ) -> Result < S :: Ok , S :: Error > where S : serde :: Serializer ?, { match self {")
            arms = []
            while not self.is_p("}"):
                self.eat_id(en)
                self.eat_p("::")
                v = self.eat_id()
                self.seq("=> serializer . serialize_i32 (")
                z = self.int_()
                self.seq(") ?,")
                arms.append([v, z])
            self.seq("} } }")
            return ("ser", en, arms, [start, self.t[self.i - 1][2]])
        self.seq("< 'de > Deserialize < 'de > for")
        en = self.eat_id()
        self.seq("{ fn deserialize < D > ( deserializer : D ) -> Result <")
        self.eat_id(en)
        self.seq(", D :: Error > where D : serde :: Deserializer < 'de > ?, { let value = i32 :: deserialize ( deserializer ) ? ; match value {")
        arms = []
        while not self.is_id("_"):
            z = self.int_()
            self.seq("=> Ok (")
            self.eat_id(en)
            self.eat_p("::")
            v = self.eat_id()
            self.seq(") ?,")
            arms.append([z, v])
        self.seq("_ => Err ( serde :: de :: Error :: custom (")
        if self.peek()[0] != "str":
            self.rej("error message")
        self.i += 1
        self.seq(") ) ?, } } }")
        return ("de", en, arms, [start, self.t[self.i - 1][2]])


def parse(src, name):
    return P(lex(src, name), name).file()


def strip_lines(items):
    """the items without source positions (for comparing raw and formatted output)"""
    return [{k: v for k, v in it.items() if k not in ("lines", "impl_lines")} for it in items]


# ---------------------------------------------------------------------------------------------- Coq printer
def b(x):
    return "true" if x else "false"


def opt(f, x):
    return "None" if x is None else "(Some %s)" % f(x)


def rty(t):
    if t[0] == "name":
        return "(RName %s)" % q(t[1])
    if t[0] == "app":
        return "(RApp %s [%s])" % (q(t[1]), "; ".join(rty(x) for x in t[2]))
    return "(RTuple [%s])" % "; ".join(rty(x) for x in t[1])


def z(n):
    return "(%d)%%Z" % n


def item_term(it):
    if it["kind"] == "struct":
        fs = "; ".join("{| f_ident := %s; f_rename := %s; f_ty := %s; f_gated := %s |}"
                       % (q(f["ident"]), opt(q, f["rename"]), rty(f["ty"]), b(f["gated"])) for f in it["fields"])
        return "RStruct %s %s %s %s [%s]" % (q(it["name"]), b(it["serde"]), b(it["camel"]), b(it["gated"]), fs)
    if it["kind"] == "enum":
        vs = "; ".join("{| v_ident := %s; v_rename := %s; v_payload := [%s]; v_disc := %s; v_gated := %s |}"
                       % (q(v["ident"]), opt(q, v["rename"]), "; ".join(rty(x) for x in v["payload"]), opt(z, v["disc"]), b(v["gated"]))
                       for v in it["variants"])
        return "REnum %s %s %s %s [%s] [%s] [%s]" % (
            q(it["name"]), b(it["serde"]), b(it["untagged"]), b(it["gated"]), vs,
            "; ".join("(%s, %s)" % (q(a), z(n)) for a, n in it["ser"]), "; ".join("(%s, %s)" % (z(n), q(a)) for n, a in it["de"]))
    return "RAlias %s %s %s" % (q(it["name"]), b(it["gated"]), rty(it["target"]))


# ---------------------------------------------------------------------------------------------- message-name hints
def derived_msg_name(method, suffix):
    """Candidate struct name of a message without typeName: strip a leading "$/", split on "/", "_" and whitespace and at every
    lower-case-or-digit -> upper-case boundary, capitalise each part (first character upper, rest lower), join, and append the
    suffix ("Request" / "Notification") unless the name already ends with it.  Own implementation (the plugin is not imported)."""
    name = method[2:] if method.startswith("$/") else method
    parts, cur = [], ""
    for ch in name:
        if ch in "/_" or ch.isspace():
            if cur:
                parts.append(cur)
            cur = ""
            continue
        if cur and "A" <= ch <= "Z" and ("a" <= cur[-1] <= "z" or "0" <= cur[-1] <= "9"):
            parts.append(cur)
            cur = ""
        cur += ch
    if cur:
        parts.append(cur)
    s = "".join(p[:1].upper() + p[1:].lower() for p in parts)
    return s if s.endswith(suffix) else s + suffix


def msg_hints(doc):
    hints = []
    for kind, suffix in (("requests", "Request"), ("notifications", "Notification")):
        for m in doc.get(kind, []):
            if not m.get("typeName") and isinstance(m.get("method"), str):
                hints.append((m["method"], derived_msg_name(m["method"], suffix)))
    return hints


def emit(lists, hints=()):
    """One Definition per item.  An item of a later list whose Coq term is textually identical to an already emitted one is
    defined as that constant (same text, same term): the committed file normally equals the fresh output, which halves coqc time."""
    out = ["(* generated by lib/x_rs.py — do not edit *)", "From LSP Require Import Base MM Rust.", "Open Scope string_scope."]
    seen = {}
    for prefix, lname, items in lists:
        names = []
        for k, it in enumerate(items):
            nm = "%s%d_%s" % (prefix, k, re.sub(r"\W", "_", it["name"]))
            term = item_term(it)
            if term in seen:
                out.append("Definition %s : ritem := %s." % (nm, seen[term]))
            else:
                out.append("Definition %s : ritem := %s." % (nm, term))
                seen[term] = nm
            names.append(nm)
        out.append("Definition %s : list ritem := [%s]." % (lname, "; ".join(names)))
    out.append("Definition msg_hints : list (string * string) := [%s]." % "; ".join("(%s, %s)" % (q(m), q(n)) for m, n in hints))
    return "\n".join(out) + "\n"


def counts(items):
    return {"structs": sum(i["kind"] == "struct" for i in items), "fields": sum(len(i["fields"]) for i in items if i["kind"] == "struct"),
            "enums": sum(i["kind"] == "enum" for i in items), "variants": sum(len(i["variants"]) for i in items if i["kind"] == "enum"),
            "aliases": sum(i["kind"] == "alias" for i in items),
            "int_enum_impl_arms": sum(len(i["ser"]) + len(i["de"]) for i in items if i["kind"] == "enum"),
            "gated_items": sum(bool(i["gated"]) for i in items)}


# ---------------------------------------------------------------------------------------------- sources
def find_rustfmt():
    for c in RUSTFMT_CANDIDATES:
        p = shutil.which(c) or (c if os.path.isfile(c) and os.access(c, os.X_OK) else None)
        if p:
            return p
    return None


def run_generator(d):
    """Runs the rust plugin of the current tree into d; returns the path of the emitted lib.rs."""
    out, tst = os.path.join(d, "out"), os.path.join(d, "tests")
    os.makedirs(tst, exist_ok=True)
    p = subprocess.run([V.PY, "-B", "-m", "generator", "--plugin", "rust", "--output-dir", out, "--test-dir", tst],
                       cwd=V.REPO, env=V.repo_env(), capture_output=True, text=True, timeout=600)
    lib = os.path.join(out, "lsprotocol", "src", "lib.rs")
    if p.returncode != 0 or not os.path.exists(lib):
        sys.stdout.write("GENERATOR-FAILED rc=%d\n%s\n" % (p.returncode, (p.stdout[-1500:] + p.stderr[-3000:])))
        sys.exit(4)
    return lib


GEN_COPY = os.path.join(V.GEN, "lib_generated.rs")     # the fresh output, kept for the search / replays (never in /tmp)


def main(out_v, info_path):
    info = {}
    for stale in (GEN_COPY, info_path):
        if os.path.exists(stale):
            os.remove(stale)
    with V.scratch("verif-rs-") as d:
        lib = run_generator(d)
        raw = open(lib, encoding="utf-8").read()
        gen_src, gen_name = raw, "generated(raw)"
        fmt = find_rustfmt()
        info["rustfmt"] = fmt
        fmt_err = None
        if fmt:
            f2 = os.path.join(d, "fmt.rs")
            shutil.copy(lib, f2)
            p = subprocess.run([fmt, "--edition", "2021", f2], capture_output=True, text=True, timeout=300)
            if p.returncode != 0:
                fmt_err = (p.stderr or p.stdout)[-600:]
            else:
                gen_src, gen_name = open(f2, encoding="utf-8").read(), "generated(rustfmt)"
        V.write_if_changed(GEN_COPY, gen_src)
        if fmt_err:
            raise Reject("generated(raw): rustfmt cannot parse the generator's output: " + fmt_err)
        raw_items = parse(raw, "generated(raw)")
        gen_items = raw_items
        if fmt:
            gen_items = parse(gen_src, gen_name)
            a, c = strip_lines(raw_items), strip_lines(gen_items)
            if a != c:
                k = next((i for i, (x, y) in enumerate(zip(a, c)) if x != y), min(len(a), len(c)))
                raise Reject("tokeniser reads the raw and the rustfmt'ed generator output differently at item #%d (%s)"
                             % (k, (a[k]["name"] if k < len(a) else "<end>")))
    com_path = os.path.join(V.REPO, "packages", "rust", "lsprotocol", "src", "lib.rs")
    if not os.path.exists(com_path):
        raise Reject("committed: packages/rust/lsprotocol/src/lib.rs does not exist")
    com_src = open(com_path, encoding="utf-8").read()
    com_items = parse(com_src, "committed")
    mm_path = os.path.join(V.REPO, "generator", "lsp.json")
    try:
        hints = msg_hints(json.load(open(mm_path, encoding="utf-8")))
    except (OSError, ValueError, AttributeError, TypeError) as e:
        raise Reject("generator/lsp.json cannot be read for the message-name hints: %r" % (e,))
    V.write_if_changed(out_v, emit([("g", "generated_items", gen_items), ("c", "committed_items", com_items)], hints))
    info.update({"generated": {"source": gen_name, "path": GEN_COPY, "counts": counts(gen_items), "items": gen_items},
                 "committed": {"source": "committed", "path": com_path, "counts": counts(com_items), "items": com_items},
                 "msg_hints": [list(h) for h in hints],
                 "generated_equals_committed_items": strip_lines(gen_items) == strip_lines(com_items),
                 "generated_text_equals_committed_text": gen_src == com_src})
    V.write_if_changed(info_path, json.dumps(info, indent=0, sort_keys=True) + "\n")
    print("ok generated=%s committed=%s same_items=%s" % (counts(gen_items), counts(com_items), info["generated_equals_committed_items"]))


if __name__ == "__main__":
    try:
        main(sys.argv[1], sys.argv[2])
    except Reject as e:
        print("REJECT: %s" % e)
        sys.exit(3)
