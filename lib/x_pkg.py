"""x_pkg — translate the live lsprotocol package (introspection after get_converter()) and _hooks.py (AST) to Coq.

What is read, and from where:
  * class table: attrs.fields(cls) of every attrs class in ALL_TYPES_MAP *after* get_converter() resolved the
    forward references; wire names and omit_if_default from the `overrides` that cattrs attaches to the structure /
    unstructure functions the converter really built for the class;
  * enum table: __members__ (aliases included) of every Enum in ALL_TYPES_MAP;
  * union hooks: registration list recorded by a recording cattrs.Converter passed to register_hooks; bodies from the AST
    of _hooks.py; cattrs' own disambiguators (unions of attrs classes without a registered hook) from their closures;
  * module-level alias objects (Definition, DocumentSelector, ...): translated as they are (ForwardRefs stay PyFwd).
Fail-closed: any type, validator, default or hook construct outside the grammar aborts (exit 3).
usage: x_pkg.py <out.v> <out.json>
"""
import ast
import collections
import copy
import collections.abc
import enum
import json
import sys
import typing
from typing import Any, Union, get_args, get_origin

import attrs
import cattrs
from cattrs._compat import is_optional
from cattrs.disambiguators import is_supported_union

from vcommon import q, write_if_changed


from pyty import Reject  # noqa: E402


from lsprotocol import _hooks, converters, validators  # noqa: E402
from lsprotocol import types as T  # noqa: E402

import conv_cfg  # noqa: E402
conv = conv_cfg.make_converter()      # VERIF_CONV_CFG=after-foreign: the tables as seen after a customised user converter was used (must be the same)


from pyty import ty  # noqa: E402,F401


def vkind(v):
    opt = False
    if v is None:
        return "VNoVal", False
    if type(v).__name__ == "_OptionalValidator":
        opt = True
        v = v.validator
    if v is validators.integer_validator:
        return "VInteger", opt
    if v is validators.uinteger_validator:
        return "VUInteger", opt
    n = type(v).__name__
    if n == "_InstanceOfValidator" and v.type in (str, bool, float):
        return {str: "VIsStr", bool: "VIsBool", float: "VIsFloat"}[v.type], opt
    if n == "_InValidator" and all(isinstance(x, str) for x in v.options):
        return "(VIn [%s])" % "; ".join(q(x) for x in v.options), opt
    raise Reject("validator outside grammar: %r" % (v,))


def b(x):
    return "true" if x else "false"


def ident(n):
    return "".join(c if c.isalnum() else "_" for c in n)


CLASS_WIRES = {}


def class_row(name, cls, stats):
    ufn = conv.get_unstructure_hook(cls)
    uo = getattr(ufn, "overrides", None)
    poisoned = False
    try:
        sfn = conv.get_structure_hook(cls)
        so = getattr(sfn, "overrides", None)
    except TypeError as e:
        # cattrs cannot GENERATE the structure function of this class (a field's union has no usable disambiguator): every
        # structuring of the class raises in the real converter.  Model: the class gets a required pseudo-field of an unhandled
        # type, so the model raises on every input as well; wire names are taken from the unstructure overrides.
        if "no usable non-default attributes" not in str(e):
            raise
        poisoned, so = True, uo
        stats["classes_without_structure_fn"] = stats.get("classes_without_structure_fn", 0) + 1
    if so is None or uo is None:
        raise Reject("class %s is not (un)structured by a cattrs-generated dict function" % name)
    import linecache
    usrc = linecache.getlines(getattr(getattr(ufn, "__code__", None), "co_filename", "")) or None
    if usrc is not None and not (usrc[0].startswith("def unstructure_") and any(ln.strip() == "return res" for ln in usrc)):
        raise Reject("generated unstructure function of %s has an unexpected shape" % name)
    fs = []
    for a in attrs.fields(cls):
        if not a.init or a.kw_only is None:
            raise Reject("field %s.%s: init=False" % (name, a.name))
        if a.default is attrs.NOTHING:
            d = "NoDefault"
        elif a.default is None:
            d = "DefaultNone"
        elif isinstance(a.default, str):
            d = "(DefaultStr %s)" % q(a.default)
        else:
            raise Reject("default outside grammar: %s.%s = %r" % (name, a.name, a.default))
        if a.converter is not None:
            raise Reject("attrs converter on %s.%s" % (name, a.name))
        vk, opt = vkind(a.validator)
        s_ov, u_ov = so.get(a.name), uo.get(a.name)
        win = s_ov.rename if s_ov is not None and s_ov.rename is not None else a.name
        wout = u_ov.rename if u_ov is not None and u_ov.rename is not None else a.name
        if (s_ov is not None and (s_ov.omit or s_ov.struct_hook)) or (u_ov is not None and (u_ov.omit or u_ov.unstruct_hook)):
            raise Reject("override outside grammar on %s.%s" % (name, a.name))
        # omit-if-default as the GENERATED unstructure function does it (cattrs keeps the source of what it generated): the attribute is
        # written under `if instance.<attr> != __c_def_<attr>:` iff it is omitted when it equals its default — whatever mixture of
        # per-attribute overrides, function-level `_cattrs_omit_if_default` and converter option produced that
        guard = "if instance.%s != __c_def_%s:" % (a.name, a.name)
        if a.default is attrs.NOTHING:
            # no default: the flag never matters (nothing to compare with); the declared override is kept so that the image check still
            # sees what the package declares
            omit = bool(u_ov.omit_if_default) if u_ov is not None and u_ov.omit_if_default is not None else False
        elif usrc is not None:
            omit = any(ln.strip() == guard for ln in usrc)
            if not any(("res['%s']" % wout) in ln or ("'%s':" % wout) in ln for ln in usrc):
                raise Reject("generated unstructure function of %s does not write %r" % (name, wout))
            if u_ov is not None and u_ov.omit_if_default is not None and bool(u_ov.omit_if_default) != omit and a.default is not attrs.NOTHING:
                raise Reject("override and generated code disagree on omit_if_default of %s.%s" % (name, a.name))
        elif u_ov is not None and u_ov.omit_if_default is not None:
            omit = bool(u_ov.omit_if_default)
        else:
            raise Reject("cannot tell whether %s.%s is omitted when default (no generated source, no explicit override)" % (name, a.name))
        fs.append("{| fname := %s; fwire := %s; fwireo := %s; ftype := %s; fdefault := %s; fval := %s; fvalopt := %s; fomit := %s |}"
                  % (q(a.name), q(win), q(wout), ty(a.type), d, vk, b(opt), b(omit)))
        stats["fields"] += 1
        CLASS_WIRES.setdefault(name, []).append(wout)
    if poisoned:
        fs.append("{| fname := \"cattrs_cannot_generate_structure_fn\"; fwire := \"\\u0000cattrs\"; fwireo := \"\\u0000cattrs\"; ftype := (PyFwd \"<no structure function>\"); "
                  "fdefault := NoDefault; fval := VNoVal; fvalopt := false; fomit := false |}")
    return "Definition c_%s : string * list fld := (%s, [%s])." % (ident(name), q(name), ";\n   ".join(fs))


# ---------------------------------------------------------------------------------------------- hooks (AST)
tree = ast.parse(open(_hooks.__file__).read())
funcs = {}
for n in ast.walk(tree):
    if isinstance(n, ast.FunctionDef):
        funcs.setdefault(n.name, []).append(n)


def hexpr(e, var):
    if isinstance(e, ast.Name) and e.id == var:
        return "HObj"
    if isinstance(e, ast.Name) and e.id == "item":
        return "HItem"
    if isinstance(e, ast.Subscript) and isinstance(e.slice, ast.Constant):
        base = hexpr(e.value, var)
        s = e.slice.value
        if isinstance(s, bool):
            raise Reject("bool subscript")
        if isinstance(s, int) and s >= 0:
            return "(HIdx %s %d)" % (base, s)
        if isinstance(s, str):
            return "(HKey %s %s)" % (base, q(s))
    raise Reject("hook expression outside grammar: " + ast.unparse(e))


PRIMS = {"(bool, int, str, float)", "(bool, int, float, str)", "(int, bool, str, float)", "(str, int, float, bool)", "(bool, str, int, float)"}


_depth = [0]


def cond(c, var):
    if isinstance(c, ast.Compare) and len(c.ops) == 1:
        op, l, r = c.ops[0], c.left, c.comparators[0]
        if isinstance(op, ast.Is) and isinstance(r, ast.Constant) and r.value is None:
            return "(CIsNone %s)" % hexpr(l, var)
        if isinstance(op, ast.IsNot) and isinstance(r, ast.Constant) and r.value is None:
            return "(CNot (CIsNone %s))" % hexpr(l, var)
        if isinstance(op, ast.In) and isinstance(l, ast.Constant) and isinstance(l.value, str):
            return "(CHasKey %s %s)" % (q(l.value), hexpr(r, var))
        if isinstance(op, ast.NotIn) and isinstance(l, ast.Constant) and isinstance(l.value, str):
            return "(CNot (CHasKey %s %s))" % (q(l.value), hexpr(r, var))
        if isinstance(op, ast.Eq) and isinstance(r, ast.Constant) and isinstance(r.value, str):
            return "(CEqStr %s %s)" % (hexpr(l, var), q(r.value))
        if (isinstance(op, ast.Eq) and isinstance(r, ast.Constant) and r.value == 0 and not isinstance(r.value, bool) and isinstance(l, ast.Call)
                and isinstance(l.func, ast.Name) and l.func.id == "len" and len(l.args) == 1):
            return "(CLenEq0 %s)" % hexpr(l.args[0], var)
        # len(x) > 0 / != 0 / >= 1 : the negation of len(x) == 0 (same domain of definition: len raises on the same values)
        if (isinstance(l, ast.Call) and isinstance(l.func, ast.Name) and l.func.id == "len" and len(l.args) == 1 and isinstance(r, ast.Constant)
                and not isinstance(r.value, bool) and ((isinstance(op, (ast.Gt, ast.NotEq)) and r.value == 0) or (isinstance(op, ast.GtE) and r.value == 1))):
            return "(CNot (CLenEq0 %s))" % hexpr(l.args[0], var)
    if isinstance(c, ast.Call) and isinstance(c.func, ast.Name) and c.func.id == "isinstance" and len(c.args) == 2:
        t = ast.unparse(c.args[1])
        if t in PRIMS or (isinstance(c.args[1], ast.Tuple) and all(isinstance(e, ast.Name) for e in c.args[1].elts)
                          and {e.id for e in c.args[1].elts} == {"bool", "int", "str", "float"}):
            return "(CIsPrim %s)" % hexpr(c.args[0], var)
        if t == "str":
            return "(CIsStr %s)" % hexpr(c.args[0], var)
        if t == "list":
            return "(CIsList %s)" % hexpr(c.args[0], var)
    if isinstance(c, ast.BoolOp):
        op = "COr" if isinstance(c.op, ast.Or) else "CAnd"
        vals = [cond(v, var) for v in c.values]
        r = vals[-1]
        for v in reversed(vals[:-1]):
            r = "(%s %s %s)" % (op, v, r)
        return r
    if isinstance(c, ast.UnaryOp) and isinstance(c.op, ast.Not):
        return "(CNot %s)" % cond(c.operand, var)
    if (isinstance(c, ast.Call) and isinstance(c.func, ast.Name) and c.func.id == "any" and len(c.args) == 1 and not c.keywords
            and isinstance(c.args[0], (ast.GeneratorExp, ast.ListComp)) and len(c.args[0].generators) == 1):
        # any(<condition on item> for item in <expression>): evaluated item by item, in order, stopping at the first True
        g = c.args[0].generators[0]
        if g.ifs or g.is_async or not isinstance(g.target, ast.Name) or g.target.id == var:
            raise Reject("any(...) generator outside grammar: " + ast.unparse(c))
        elt = c.args[0].elt
        if g.target.id != "item":
            if any(isinstance(n, ast.Name) and n.id == "item" for n in ast.walk(elt)):
                raise Reject("any(...) uses both 'item' and another loop variable")
            elt = subst(elt, {g.target.id: ast.Name(id="item", ctx=ast.Load())})
        return "(CAnyItem %s %s)" % (hexpr(g.iter, var), cond(elt, var))
    if isinstance(c, ast.Call) and isinstance(c.func, ast.Name) and not c.keywords and c.func.id in funcs and len(funcs[c.func.id]) == 1:
        # a helper predicate defined in _hooks.py whose body is one pure return expression: inline it
        fn = funcs[c.func.id][0]
        body = [st for st in fn.body if not (isinstance(st, ast.Expr) and isinstance(st.value, ast.Constant))]
        params = [a.arg for a in fn.args.args]
        if (len(body) == 1 and isinstance(body[0], ast.Return) and body[0].value is not None and len(params) == len(c.args) and not fn.decorator_list
                and not fn.args.vararg and not fn.args.kwarg and not fn.args.kwonlyargs and pure(body[0].value) and _depth[0] < 4):
            _depth[0] += 1
            try:
                return cond(subst(body[0].value, dict(zip(params, c.args))), var)
            finally:
                _depth[0] -= 1
    raise Reject("hook condition outside grammar: " + ast.unparse(c))


def lsp_type(e):
    s = ast.unparse(e)
    if s.startswith("lsp_types.") and hasattr(T, s[len("lsp_types."):]):
        return getattr(T, s[len("lsp_types."):])
    raise Reject("structure target outside grammar: " + s)


def rexpr(e, var):
    if isinstance(e, ast.Constant) and e.value is None:
        return "RNone"
    if isinstance(e, (ast.Name, ast.Subscript)):
        return "(RSelf %s)" % hexpr(e, var)
    if isinstance(e, ast.List) and not e.elts:
        return "REmpty"
    if isinstance(e, ast.Call) and not e.keywords:
        f = ast.unparse(e.func)
        if f == "converter.structure" and len(e.args) == 2:
            if isinstance(e.args[1], ast.IfExp):      # structure(x, A if c else B)  ==  structure(x, A) if c else structure(x, B)
                te = e.args[1]
                mk = lambda t: ast.Call(func=e.func, args=[e.args[0], t], keywords=[])
                return "(RIf %s %s %s)" % (cond(te.test, var), rexpr(mk(te.body), var), rexpr(mk(te.orelse), var))
            return "(RStruct %s %s)" % (hexpr(e.args[0], var), ty(lsp_type(e.args[1])))
        if f == "str" and len(e.args) == 1:
            return "(RStr %s)" % hexpr(e.args[0], var)
        if f == "int" and len(e.args) == 1:
            return "(RIntOf %s)" % hexpr(e.args[0], var)
    if (isinstance(e, ast.ListComp) and len(e.generators) == 1 and not e.generators[0].ifs and not e.generators[0].is_async
            and isinstance(e.generators[0].target, ast.Name) and e.generators[0].target.id != var):
        tgt = e.generators[0].target.id
        elt = e.elt if tgt == "item" else subst(e.elt, {tgt: ast.Name(id="item", ctx=ast.Load())})
        if tgt != "item" and any(isinstance(n, ast.Name) and n.id == "item" for n in ast.walk(e.elt)):
            raise Reject("comprehension uses both 'item' and another loop variable")
        return "(RMap %s %s)" % (hexpr(e.generators[0].iter, var), rexpr(elt, var))
    if isinstance(e, ast.IfExp):
        return "(RIf %s %s %s)" % (cond(e.test, var), rexpr(e.body, var), rexpr(e.orelse, var))
    if isinstance(e, ast.Tuple):
        return "(RTuple [%s])" % "; ".join(rexpr(x, var) for x in e.elts)
    raise Reject("hook return outside grammar: " + ast.unparse(e))


class _Subst(ast.NodeTransformer):
    def __init__(self, env):
        self.env = env

    def visit_Name(self, node):
        if isinstance(node.ctx, ast.Load) and node.id in self.env:
            return copy.deepcopy(self.env[node.id])
        return node


def subst(e, env):
    return _Subst(env).visit(copy.deepcopy(e)) if env else e


def pure(e):
    """expressions a local may be bound to: built from names, constants, subscripts, comparisons, boolean operators, conditional
    expressions, attribute access on lsp_types and the side-effect-free calls isinstance / len"""
    for n in ast.walk(e):
        if isinstance(n, ast.Call):
            if not (isinstance(n.func, ast.Name) and n.func.id in ("isinstance", "len")):
                return False
        elif isinstance(n, (ast.Lambda, ast.ListComp, ast.SetComp, ast.DictComp, ast.GeneratorExp, ast.Await, ast.Yield, ast.YieldFrom, ast.NamedExpr, ast.Starred)):
            return False
    return True


def terminal(stmts):
    if not stmts:
        return False
    l = stmts[-1]
    return isinstance(l, (ast.Return, ast.Raise)) or (isinstance(l, ast.If) and terminal(l.body) and terminal(l.orelse))


def is_literal(e):
    """a constant: strings, numbers, None, lsp_types attributes and the primitive type names, in tuples / lists / dicts"""
    if isinstance(e, ast.Constant):
        return True
    if isinstance(e, ast.Attribute):
        return ast.unparse(e).startswith("lsp_types.")
    if isinstance(e, ast.Name):
        return e.id in ("bool", "int", "str", "float", "list", "dict")
    if isinstance(e, (ast.Tuple, ast.List)):
        return all(is_literal(x) for x in e.elts)
    if isinstance(e, ast.Dict):
        return all(k_ is not None and is_literal(k_) for k_ in e.keys) and all(is_literal(v_) for v_ in e.values)
    return False


class _Fold(ast.NodeTransformer):
    """constant folding of conditional expressions / not / and / or whose test is a boolean constant"""
    def visit_IfExp(self, node):
        self.generic_visit(node)
        if isinstance(node.test, ast.Constant) and isinstance(node.test.value, bool):
            return node.body if node.test.value else node.orelse
        return node

    def visit_UnaryOp(self, node):
        self.generic_visit(node)
        if isinstance(node.op, ast.Not) and isinstance(node.operand, ast.Constant) and isinstance(node.operand.value, bool):
            return ast.Constant(value=not node.operand.value)
        return node

    def visit_BoolOp(self, node):
        self.generic_visit(node)
        vals = []
        for v_ in node.values:
            if isinstance(v_, ast.Constant) and isinstance(v_.value, bool):
                if isinstance(node.op, ast.And) and not v_.value:
                    return ast.Constant(value=False) if not vals else ast.BoolOp(op=node.op, values=vals + [v_])
                if isinstance(node.op, ast.Or) and v_.value:
                    return ast.Constant(value=True) if not vals else ast.BoolOp(op=node.op, values=vals + [v_])
                continue
            vals.append(v_)
        if not vals:
            return ast.Constant(value=isinstance(node.op, ast.And))
        return vals[0] if len(vals) == 1 else ast.BoolOp(op=node.op, values=vals)


def fold(e):
    return _Fold().visit(copy.deepcopy(e))


def static_truth(t):
    """a boolean constant; x is None / x is not None where x is the constant None or an lsp_types attribute (after substitution of a table lookup)"""
    t = fold(t)
    if isinstance(t, ast.Constant) and isinstance(t.value, bool):
        return t.value
    if isinstance(t, ast.Compare) and len(t.ops) == 1 and isinstance(t.ops[0], (ast.Is, ast.IsNot)) \
            and isinstance(t.comparators[0], ast.Constant) and t.comparators[0].value is None:
        l = t.left
        known = True if (isinstance(l, ast.Constant) and l.value is None) else (False if (isinstance(l, ast.Attribute) and ast.unparse(l).startswith("lsp_types.")) else None)
        if known is None:
            return None
        return known if isinstance(t.ops[0], ast.Is) else not known
    return None


# constant {str: lsp_types.X} tables assigned to a name somewhere in _hooks.py
tables = {}
for _n in ast.walk(tree):
    if (isinstance(_n, ast.Assign) and len(_n.targets) == 1 and isinstance(_n.targets[0], ast.Name) and isinstance(_n.value, ast.Dict) and _n.value.keys
            and all(isinstance(k_, ast.Constant) and isinstance(k_.value, str) for k_ in _n.value.keys)
            and all(isinstance(v_, ast.Attribute) and ast.unparse(v_).startswith("lsp_types.") for v_ in _n.value.values)):
        if _n.targets[0].id in tables:
            tables[_n.targets[0].id] = None
        else:
            tables[_n.targets[0].id] = [(k_.value, v_) for k_, v_ in zip(_n.value.keys, _n.value.values)]
tables = {k_: v_ for k_, v_ in tables.items() if v_ is not None}


def used_on_every_returning_path(stmts, name):
    """syntactic, conservative: does every path through stmts that ends in `return` evaluate `name`?"""
    def uses(e):
        return e is not None and any(isinstance(n, ast.Name) and n.id == name for n in ast.walk(e))
    for i, st in enumerate(stmts):
        if isinstance(st, ast.Expr) and isinstance(st.value, ast.Constant):
            continue
        if isinstance(st, ast.Raise):
            return True
        if isinstance(st, ast.Return):
            return uses(st.value)
        if isinstance(st, ast.Assign):
            if uses(st.value):
                return True
            continue
        if isinstance(st, (ast.If, ast.Assert)):
            if uses(st.test):
                return True
            if isinstance(st, ast.If):
                rest = list(stmts[i + 1:])
                return used_on_every_returning_path(list(st.body) + rest, name) and used_on_every_returning_path(list(st.orelse) + rest, name)
            continue
        return False
    return False          # falls off the end: returns None without touching the name


def table_of(e):
    """[(key string, value AST)] of a constant {str: ...} table: a module-level table name of _hooks.py or a dict literal"""
    if isinstance(e, ast.Name) and e.id in tables:
        return tables[e.id]
    if isinstance(e, ast.Dict) and e.keys and all(isinstance(k_, ast.Constant) and isinstance(k_.value, str) for k_ in e.keys) and all(is_literal(v_) for v_ in e.values):
        return [(k_.value, v_) for k_, v_ in zip(e.keys, e.values)]
    return None


_inline_depth = [0]
_fresh = [0]


def helper_def(call, hook_name=None):
    """the definition of a helper of _hooks.py called by name (module level or local to a registering function): exactly one def with that
    name, no decorators, no *args / **kwargs, not a generator"""
    if not (isinstance(call, ast.Call) and isinstance(call.func, ast.Name)):
        return None
    cands = funcs.get(call.func.id, [])
    if len(cands) != 1:
        return None
    fn = cands[0]
    if fn.decorator_list or fn.args.vararg or fn.args.kwarg or fn.args.posonlyargs or any(isinstance(n, (ast.Yield, ast.YieldFrom, ast.Await, ast.Global, ast.Nonlocal)) for n in ast.walk(fn)):
        return None
    if any(isinstance(n, ast.Call) and isinstance(n.func, ast.Name) and n.func.id == fn.name for n in ast.walk(fn)):
        return None          # recursive
    return fn


def bind_params(fn, call, env):
    """parameter -> argument AST (arguments substituted in the caller's environment).  Arguments must be pure (no effects, so evaluating
    them where the parameter is used instead of at the call is the same) and are evaluated at most... exactly as often as the parameter
    occurs: a pure expression may raise (object_[0]); like for let-bindings the translation below forces nothing extra — the
    arguments admitted are names, constants, lsp_types attributes and literal tuples / lists of those, which cannot raise"""
    params = [a.arg for a in fn.args.args] + [a.arg for a in fn.args.kwonlyargs]
    b = {}
    if len(call.args) > len(fn.args.args):
        raise Reject("too many arguments in call of helper " + fn.name)
    for pname, a in zip([a.arg for a in fn.args.args], call.args):
        b[pname] = a
    for kw in call.keywords:
        if kw.arg is None or kw.arg not in params or kw.arg in b:
            raise Reject("keyword argument outside grammar in call of helper " + fn.name)
        b[kw.arg] = kw.value
    defaults = dict(zip([a.arg for a in fn.args.args][len(fn.args.args) - len(fn.args.defaults):], fn.args.defaults))
    defaults.update({a.arg: d for a, d in zip(fn.args.kwonlyargs, fn.args.kw_defaults) if d is not None})
    for pname in params:
        if pname not in b:
            if pname not in defaults:
                raise Reject("missing argument %s in call of helper %s" % (pname, fn.name))
            b[pname] = defaults[pname]
    out, lets = {}, []
    for pname in params:                      # in parameter order = evaluation order of positional arguments
        a = fold(subst(b[pname], env))
        if isinstance(a, ast.Name) or is_literal(a):
            out[pname] = a
        elif pure(a):
            # evaluated once, at the call, before the body: a let-binding in front of the inlined body (the binding machinery of
            # block() keeps the evaluation point and splits conditional expressions)
            lets.append(ast.Assign(targets=[ast.Name(id=pname, ctx=ast.Store())], value=a))
        else:
            raise Reject("argument of helper %s is not pure: %s" % (fn.name, ast.unparse(a)))
    return out, lets


class _RetToAssign(ast.NodeTransformer):
    """inside an inlined helper body: `return E` becomes `<name> = E` followed by the caller's continuation (which is terminal)"""
    def __init__(self, name, tail):
        self.name, self.tail = name, tail

    def visit_FunctionDef(self, node):
        return node

    def visit_Lambda(self, node):
        return node

    def visit_Return(self, node):
        val = node.value if node.value is not None else ast.Constant(value=None)
        return [ast.Assign(targets=[ast.Name(id=self.name, ctx=ast.Store())], value=val)] + copy.deepcopy(self.tail)


def helper_body(fn):
    return [st for st in fn.body if not (isinstance(st, ast.Expr) and isinstance(st.value, ast.Constant))]


def find_helper_call(e):
    """the single helper call inside a return / assignment expression, if everything else in it is pure"""
    calls = [n for n in ast.walk(e) if isinstance(n, ast.Call) and helper_def(n) is not None]
    return calls[0] if len(calls) == 1 else None


def live(stmts):
    """the statements that can execute: everything up to and including the first top-level return / raise"""
    out = []
    for st in stmts:
        out.append(st)
        if isinstance(st, (ast.Return, ast.Raise)):
            break
    return out


def plain_rebinds(stmts, name):
    """every binding of `name` in stmts is a statement `name = e` / `name: T = e` directly in the statement lists of (nested) ifs"""
    def stores(node):
        return any(isinstance(n, ast.Name) and n.id == name and isinstance(n.ctx, ast.Store) for n in ast.walk(node))
    for st in stmts:
        if isinstance(st, ast.AnnAssign) and st.value is not None and st.simple and isinstance(st.target, ast.Name):
            if stores(st.value):
                return False
        elif isinstance(st, ast.Assign) and len(st.targets) == 1 and isinstance(st.targets[0], ast.Name):
            if stores(st.value):
                return False
        elif isinstance(st, ast.If):
            if stores(st.test) or not plain_rebinds(st.body, name) or not plain_rebinds(st.orelse, name):
                return False
        elif stores(st):
            return False
    return True


def assigns_in(stmts):
    """does this statement list bind a local (on a path that can fall through to what follows)?"""
    for st in stmts:
        if isinstance(st, (ast.Assign, ast.AnnAssign)):
            return True
        if isinstance(st, ast.If) and (assigns_in(st.body) or assigns_in(st.orelse)):
            return True
    return False


def block(stmts, var, k, env=None):
    env = env or {}
    if not stmts:
        return k
    s, rest = stmts[0], stmts[1:]
    if (isinstance(s, ast.Expr) and isinstance(s.value, ast.Constant)) or isinstance(s, ast.Pass):
        return block(rest, var, k, env)
    if isinstance(s, ast.AnnAssign) and s.value is not None and isinstance(s.target, ast.Name) and s.simple:
        s = ast.Assign(targets=[s.target], value=s.value)        # `x: T = v` binds like `x = v` (the annotation of a local is not evaluated)
    if (isinstance(s, ast.Assign) and len(s.targets) == 1 and isinstance(s.targets[0], ast.Name) and s.targets[0].id not in (var, "converter", "item", "lsp_types")
            and isinstance(fold(subst(s.value, env)), ast.IfExp)):
        # name = A if c else B (A, B not necessarily pure: a table look-up): c is evaluated once, here; each continuation binds the branch it selected
        # (a test that folds to a constant has already selected its branch in fold)
        val = fold(subst(s.value, env))
        name = s.targets[0].id
        st_ = static_truth(val.test)
        if st_ is not None:
            return block([ast.Assign(targets=[ast.Name(id=name, ctx=ast.Store())], value=val.body if st_ else val.orelse)] + list(rest), var, k, env)
        kt = block([ast.Assign(targets=[ast.Name(id=name, ctx=ast.Store())], value=val.body)] + list(rest), var, k, env)
        kf = block([ast.Assign(targets=[ast.Name(id=name, ctx=ast.Store())], value=val.orelse)] + list(rest), var, k, env)
        return "(TIf %s %s %s)" % (cond(fold(val.test), var), kt, kf)
    if (isinstance(s, ast.Assign) and len(s.targets) == 1 and isinstance(s.targets[0], ast.Name) and s.targets[0].id not in (var, "converter", "item", "lsp_types")
            and pure(s.value)):
        # a local bound once to a pure expression: substitute it.  The binding is evaluated exactly once, BEFORE what follows, and may
        # raise (object_[0] on an empty list): the translation forces its evaluation at the same point with a branch whose two arms
        # are the same continuation, so an error of the binding is an error of the hook in the model as well.
        name = s.targets[0].id
        val = fold(subst(s.value, env))
        if any(isinstance(n, ast.Name) and n.id == name and isinstance(n.ctx, ast.Store) for st in live(rest) for n in ast.walk(st)):
            # re-binding is followed only in its simplest form: the FIRST value is a constant (cannot raise, nothing to force) and every later
            # binding is a plain `name = ...` statement at the top level of nested if-statements.  block() walks statements in execution
            # order and splits the paths at every `if` that binds a local (assigns_in), so on each path the environment holds the binding
            # that is current there; the bound value is substituted (with the environment of ITS binding point) where it is read.
            if not (is_literal(val) and plain_rebinds(live(rest), name)):
                raise Reject("local %s assigned more than once" % name)
        if is_literal(val):
            return block(rest, var, k, dict(env, **{name: val}))       # a constant cannot raise: nothing to force
        is_cond = True
        try:
            cc = cond(val, var)
        except Reject:
            is_cond = False
        if is_cond:
            # a condition bound to a name: evaluated ONCE here; each continuation sees the name as the constant it evaluated to
            # (so `A if flag else B` further down folds away and the translation is the hook's decision tree itself)
            kt = block(rest, var, k, dict(env, **{name: ast.Constant(value=True)}))
            kf = block(rest, var, k, dict(env, **{name: ast.Constant(value=False)}))
            return "(TIf %s %s %s)" % (cc, kt, kf)
        if isinstance(val, ast.IfExp):
            # name = A if c else B: c is evaluated once, here; each continuation sees the branch it selected
            kt = block([ast.Assign(targets=[ast.Name(id=name, ctx=ast.Store())], value=val.body)] + list(rest), var, k, env)
            kf = block([ast.Assign(targets=[ast.Name(id=name, ctx=ast.Store())], value=val.orelse)] + list(rest), var, k, env)
            return "(TIf %s %s %s)" % (cond(val.test, var), kt, kf)
        kk = block(rest, var, k, dict(env, **{name: val}))
        if used_on_every_returning_path(rest, name):
            # the continuation evaluates the bound expression itself on every path that returns: an error of the binding is an
            # error of the hook either way (the model does not distinguish which exception is raised), nothing to force
            return kk
        force = "(CIsNone %s)" % hexpr(val, var)
        return "(TIf %s %s %s)" % (force, kk, kk)
    if (isinstance(s, ast.Assign) and len(s.targets) == 1 and isinstance(s.targets[0], ast.Tuple) and isinstance(s.value, ast.Tuple)
            and len(s.targets[0].elts) == len(s.value.elts) and all(isinstance(t_, ast.Name) for t_ in s.targets[0].elts)):
        # a, b = (x, y): the right-hand sides are evaluated left to right before any name is bound: as successive bindings this is
        # the same as long as no right-hand side mentions a name bound by the same statement
        names_ = [t_.id for t_ in s.targets[0].elts]
        if any(isinstance(n, ast.Name) and n.id in names_ for v_ in s.value.elts for n in ast.walk(v_)):
            raise Reject("tuple assignment whose right-hand side uses its own targets")
        seq = [ast.Assign(targets=[ast.Name(id=nm, ctx=ast.Store())], value=v_) for nm, v_ in zip(names_, s.value.elts)]
        return block(seq + list(rest), var, k, env)
    if isinstance(s, ast.For) and not s.orelse:
        # for a, b in <literal table>: ... — unrolled (the table is a constant after substitution of closure values)
        it = fold(subst(s.iter, env))
        if not (isinstance(it, (ast.Tuple, ast.List)) and is_literal(it)):
            raise Reject("loop over something that is not a constant table: " + ast.unparse(s.iter))
        tg = s.target
        unrolled = []
        for elt in it.elts:
            if isinstance(tg, ast.Name):
                b = {tg.id: elt}
            elif isinstance(tg, ast.Tuple) and isinstance(elt, (ast.Tuple, ast.List)) and len(tg.elts) == len(elt.elts) and all(isinstance(t_, ast.Name) for t_ in tg.elts):
                b = {t_.id: e_ for t_, e_ in zip(tg.elts, elt.elts)}
            else:
                raise Reject("loop target outside grammar: " + ast.unparse(tg))
            if any(isinstance(n, (ast.Break, ast.Continue)) for st in s.body for n in ast.walk(st)):
                raise Reject("break/continue in a hook loop")
            unrolled += [_Subst(b).visit(copy.deepcopy(st)) for st in s.body]
        return block(unrolled + list(rest), var, k, env)
    if (isinstance(s, ast.Assign) and len(s.targets) == 1 and isinstance(s.targets[0], ast.Name) and isinstance(s.value, ast.Call)
            and isinstance(s.value.func, ast.Attribute) and s.value.func.attr == "get"
            and len(s.value.args) == 1 and not s.value.keywords and table_of(subst(s.value.func.value, env)) is not None):
        # t = TABLE.get(<expr>) for a constant {str: lsp type} table (a module-level name of _hooks.py, or a dict literal / a dict the hook
        # closes over): a chain of string comparisons in table order, t bound to the type on a hit and to None otherwise (a non-string
        # key makes every comparison false, like dict.get; dict.get hashes its argument first: the keys compared here are what
        # object_[...] yields — JSON values — of which only lists and dicts are unhashable, and for those the real code raises TypeError
        # while the chain answers None: the forms admitted below evaluate the key under an isinstance(key, str) test or compare it)
        name, key = s.targets[0].id, subst(s.value.args[0], env)
        if any(isinstance(n, ast.Name) and n.id == name and isinstance(n.ctx, ast.Store) for st in live(rest) for n in ast.walk(st)):
            raise Reject("local %s assigned more than once" % name)
        r = block(rest, var, k, dict(env, **{name: ast.Constant(value=None)}))
        for kstr, vexpr in reversed(table_of(subst(s.value.func.value, env))):
            r = "(TIf (CEqStr %s %s) %s %s)" % (hexpr(key, var), q(kstr), block(rest, var, k, dict(env, **{name: vexpr})), r)
        return r
    if isinstance(s, (ast.Return, ast.Assign)) and s.value is not None and _inline_depth[0] < 4 and any(helper_def(n_) is not None for n_ in ast.walk(s.value)):
        s = copy.deepcopy(s)          # the tree is shared by every registration of the same hook function: never edit it in place
        hc = s.value if helper_def(s.value) is not None else (find_helper_call(s.value) if isinstance(s, ast.Return) else None)
        if hc is not None and (isinstance(s, ast.Return) or (len(s.targets) == 1 and isinstance(s.targets[0], ast.Name))):
            fn = helper_def(hc)
            params, lets = bind_params(fn, hc, env)
            # the helper's own locals and parameters must not collide with names bound around the call (the caller's continuation is
            # translated in the same environment)
            body = lets + copy.deepcopy(helper_body(fn))
            _inline_depth[0] += 1
            try:
                if isinstance(s, ast.Return) and hc is s.value:
                    # return f(args): the helper's body, with its parameters bound, IS the rest of the hook
                    return block(body, var, k, dict(env, **params))
                bound = {n.id for st in fn.body for n in ast.walk(st) if isinstance(n, ast.Name) and isinstance(n.ctx, ast.Store)}
                bound |= set(params) | {l_.targets[0].id for l_ in lets}
                if bound & ((set(env) | {var}) - {p_ for p_, a_ in params.items() if isinstance(a_, ast.Name) and a_.id == p_}):
                    raise Reject("helper %s binds a name that is bound at the call site: %s" % (fn.name, sorted(bound & ((set(env) | {var}) - {p_ for p_, a_ in params.items() if isinstance(a_, ast.Name) and a_.id == p_}))))

                if isinstance(s, ast.Return):
                    # return E[f(args)] with everything else in E pure: t = f(args); return E[t]
                    _fresh[0] += 1
                    tname = "zz_inl_%d" % _fresh[0]

                    class _Rep(ast.NodeTransformer):
                        def visit_Call(self, node):
                            if node is hc:
                                return ast.Name(id=tname, ctx=ast.Load())
                            return self.generic_visit(node)
                    s2 = copy.copy(s)
                    s2.value = _Rep().visit(s.value)
                    tail = [s2]
                else:
                    tname = s.targets[0].id
                    tail = list(rest)
                    if not terminal(tail):
                        raise Reject("a helper call is bound to a local but what follows does not end in return / raise on every path")
                new_body = []
                for st in body:
                    r_ = _RetToAssign(tname, tail).visit(st)
                    new_body += r_ if isinstance(r_, list) else [r_]
                if not terminal(new_body):
                    # the helper can fall off its end: it returns None there
                    new_body += [ast.Assign(targets=[ast.Name(id=tname, ctx=ast.Store())], value=ast.Constant(value=None))] + copy.deepcopy(tail)
                return block(new_body, var, k, dict(env, **params))
            finally:
                _inline_depth[0] -= 1
    if env:
        s = fold(_Subst(env).visit(copy.deepcopy(s))) if not isinstance(s, (ast.If,)) else ast.If(test=fold(subst(s.test, env)), body=s.body, orelse=s.orelse)
    if isinstance(s, ast.Return):
        return "(TRet %s)" % (rexpr(s.value, var) if s.value is not None else "RNone")
    if isinstance(s, ast.Raise):
        return "TRaise"
    if isinstance(s, ast.Assert):
        return "(TIf %s %s TRaise)" % (cond(s.test, var), block(rest, var, k, env))
    if isinstance(s, ast.If):
        st = static_truth(s.test)
        if st is not None:
            chosen = s.body if st else s.orelse
            if terminal(chosen):
                return block(chosen, var, k, env)           # what follows the if is unreachable on this path
            return block(chosen, var, block(rest, var, k, env), env)
        if assigns_in(s.body) or assigns_in(s.orelse):
            # a branch binds a local that the statements after the if may use: `if c: A else: B; R` is `if c: A; R else: B; R`
            # (c is evaluated once; each copy of R sees the bindings of the branch taken)
            return "(TIf %s %s %s)" % (cond(s.test, var), block(list(s.body) + list(rest), var, k, env), block(list(s.orelse) + list(rest), var, k, env))
        kk = block(rest, var, k, env)
        return "(TIf %s %s %s)" % (cond(s.test, var), block(s.body, var, kk, env), block(s.orelse, var, kk, env))
    raise Reject("hook statement outside grammar: " + ast.unparse(s))


def hook_of(func):
    name = func.__name__
    if name == "<lambda>":
        src_line = func.__code__.co_firstlineno
        lam = [n for n in ast.walk(tree) if isinstance(n, ast.Lambda) and n.lineno == src_line]
        if len(lam) != 1:
            raise Reject("cannot locate lambda at line %d" % src_line)
        return "(TRet %s)" % rexpr(lam[0].body, lam[0].args.args[0].arg)
    cands = [n for n in funcs.get(name, []) if n.lineno == func.__code__.co_firstlineno]
    if len(cands) != 1:
        raise Reject("cannot locate hook function %s" % name)
    n = cands[0]
    if len(n.args.args) != 2 or n.decorator_list:
        raise Reject("hook signature " + name)
    return block(n.body, n.args.args[0].arg, "(TRet RNone)", closure_env(func, n))


def value_ast(v, depth=0):
    """AST of a run-time constant a hook closes over (classes of lsp_types, the primitive types, strings / numbers / None, tuples,
    lists and dicts of those); None when the value is anything else (the name then stays as it is)"""
    if depth > 4:
        return None
    if isinstance(v, type):
        if v in (bool, int, str, float, list, dict):
            return ast.Name(id=v.__name__, ctx=ast.Load())
        if getattr(T, v.__name__, None) is v:
            return ast.parse("lsp_types.%s" % v.__name__, mode="eval").body
        return None
    if v is None or isinstance(v, (str, int, float, bool)):
        return ast.Constant(value=v)
    if isinstance(v, (tuple, list)):
        elts = [value_ast(x, depth + 1) for x in v]
        if any(e is None for e in elts):
            return None
        return (ast.Tuple if isinstance(v, tuple) else ast.List)(elts=elts, ctx=ast.Load())
    if isinstance(v, dict) and all(isinstance(k, str) for k in v):
        vals = [value_ast(x, depth + 1) for x in v.values()]
        if any(e is None for e in vals):
            return None
        return ast.Dict(keys=[ast.Constant(value=k) for k in v], values=vals)
    return None


def closure_env(func, node):
    """constants the hook function closes over or reads from module globals, as ASTs to substitute (a hook produced by a factory
    `make(options_type)` is the factory's inner function with `options_type` bound in its closure)"""
    env = {}
    cells = dict(zip(func.__code__.co_freevars, [c.cell_contents for c in (func.__closure__ or ()) if True])) if func.__closure__ else {}
    params = {a.arg for a in node.args.args}
    for n_ in ast.walk(node):
        if isinstance(n_, ast.Name) and isinstance(n_.ctx, ast.Load) and n_.id not in params and n_.id not in env and n_.id not in ("converter", "lsp_types"):
            if n_.id in cells:
                v = cells[n_.id]
            elif n_.id in func.__globals__ and n_.id not in funcs:
                v = func.__globals__[n_.id]
            else:
                continue
            a = value_ast(v)
            if a is not None:
                env[n_.id] = a
    return env


class Rec(cattrs.Converter):
    def __init__(self):
        self.log = []
        self.factories = []
        self.recording = False
        super().__init__()
        self.recording = True

    def register_structure_hook(self, cl, func=None):
        if self.recording:
            self.log.append((cl, func))
        return super().register_structure_hook(cl, func)

    def register_structure_hook_factory(self, predicate, factory=None):
        if self.recording:
            self.factories.append((predicate, factory))
        return super().register_structure_hook_factory(predicate, factory)


def main(out_v, out_json):
    stats = collections.Counter()
    out = ["(* generated by lib/x_pkg.py from the imported lsprotocol package and _hooks.py — do not edit *)",
           "From LSP Require Import Base Sem Catalog.", "Open Scope string_scope."]
    cnames, cls_names = [], []
    for name, obj in sorted(T.ALL_TYPES_MAP.items()):
        if isinstance(obj, type) and attrs.has(obj):
            if obj.__name__ != name:
                raise Reject("registry name %s maps to class %s" % (name, obj.__name__))
            out.append(class_row(name, obj, stats))
            cnames.append("c_" + ident(name))
            cls_names.append(name)
    out.append("Definition classes_ : list (string * list fld) := [%s]." % "; ".join(cnames))

    def pv(v):
        if isinstance(v, str):
            return "(VStr %s)" % q(v)
        if isinstance(v, bool) or not isinstance(v, int):
            raise Reject("enum value outside grammar %r" % (v,))
        return "(VInt (%d))" % v
    erows, enum_names = [], []
    for name, obj in sorted(T.ALL_TYPES_MAP.items()):
        if isinstance(obj, type) and issubclass(obj, enum.Enum):
            erows.append("{| ename := %s; eisstr := %s; evals := [%s] |}" % (q(name), b(issubclass(obj, str)), "; ".join(pv(m.value) for m in obj.__members__.values())))
            enum_names.append(name)
    out.append("Definition enums_ : list enumd := [\n  " + ";\n  ".join(erows) + "].")

    rec = Rec()
    _hooks.register_hooks(rec)
    if len(rec.factories) != 1 or rec.factories[0][0] is not attrs.has:
        raise Reject("structure hook factories outside grammar: %r" % (rec.factories,))
    urows, registered, class_hooks = [], {}, []
    for cl, func in rec.log:
        if get_origin(cl) is Union:
            registered[cl] = func       # later registrations replace earlier ones (dict assignment in cattrs)
        else:
            class_hooks.append((cl, func))
    for cl, func in class_hooks:
        h = hook_of(func)
        if h != "(TRet (RSelf HObj))" or not (cl is type(None) or (isinstance(cl, type) and not attrs.has(cl) and not issubclass(cl, enum.Enum) and cl.__module__ == T.__name__)):
            raise Reject("class-keyed hook outside grammar: %r" % (cl,))
    for cl, func in registered.items():
        urows.append("(%s, %s)" % (ty(cl), hook_of(func)))
        stats["registered_union_hooks"] += 1
    # unions that reach cattrs' own attrs-union disambiguation
    seen = set()

    def walk(t):
        o = get_origin(t)
        if o is Union:
            if t in seen:
                return
            seen.add(t)
            if t in registered:
                return
            for a in get_args(t):
                walk(a)
        elif o in (collections.abc.Sequence, tuple, dict, list):
            for a in get_args(t):
                if a is not Ellipsis:
                    walk(a)
    for name in cls_names:
        for a in attrs.fields(T.ALL_TYPES_MAP[name]):
            walk(a.type)
    for u in sorted(seen, key=ty):
        if u in registered or is_optional(u) or not is_supported_union(u):
            continue
        try:
            h = conv.get_structure_hook(u)
        except Exception:
            # cattrs cannot build a disambiguator (e.g. "has no usable non-default attributes"): structuring at this union raises the
            # same error in the real converter, so the union has no handler in the model either (reported by W_disp as missing)
            stats["cattrs_disambiguator_errors"] = stats.get("cattrs_disambiguator_errors", 0) + 1
            continue
        cells = dict(zip(h.__code__.co_freevars, [c.cell_contents for c in (h.__closure__ or ())]))
        dis = cells.get("dis_fn")
        if dis is None:
            raise Reject("cannot read cattrs disambiguator for %r" % (u,))
        dc = dict(zip(dis.__code__.co_freevars, [c.cell_contents for c in (dis.__closure__ or ())]))
        if "uniq_attrs_dict" not in dc:
            raise Reject("cattrs disambiguator of unknown shape for %r" % (u,))
        fb = dc.get("fallback")
        tree_ = "TRaise" if fb is None else "(TRet (RStruct HObj %s))" % ty(fb)
        for k, cls in reversed(list(dc["uniq_attrs_dict"].items())):
            tree_ = "(TIf (CHasKey %s HObj) (TRet (RStruct HObj %s)) %s)" % (q(k), ty(cls), tree_)
        if type(None) in get_args(u):
            tree_ = "(TIf (CIsNone HObj) (TRet RNone) %s)" % tree_
        urows.append("(%s, %s)" % (ty(u), tree_))
        stats["cattrs_disambiguators"] += 1
    # every distinct union type dispatch can meet (fields, through Seq/Dict/Tuple/Optional) + the registered ones
    utbl = sorted({ty(u) for u in seen} | {ty(u) for u in registered})
    out.append("Definition union_table : list pty := [\n  " + ";\n  ".join(utbl) + "].")
    out.append("Definition uhooks_ : list (pty * hook) := [\n  " + ";\n  ".join(urows) + "].")
    out.append("Definition Sg : sigma := {| classes := classes_; enums := enums_; uhooks := uhooks_; forbid_extra := %s |}." % b(getattr(conv, "forbid_extra_keys", False)))
    # module-level type alias objects
    arows, plain = [], []
    for name, obj in sorted(T.ALL_TYPES_MAP.items()):
        if name == "__builtins__":
            continue        # inserted by attrs.resolve_types (eval) into the map it is given
        if isinstance(obj, type) and obj.__module__ == T.__name__:
            if not attrs.has(obj) and not issubclass(obj, enum.Enum):
                plain.append(name)
            continue
        if True:
            arows.append("(%s, %s)" % (q(name), ty(obj)))
    out.append("Definition alias_objects : list (string * pty) := [\n  " + ";\n  ".join(arows) + "].")
    # ---- method catalogue, directions, exported constants, registry (property C09)
    def opt_ty(x):
        return "None" if x is None else "(Some %s)" % ty(x)

    def opt_name(x):
        if x is None:
            return "None"
        if not isinstance(x, type):
            raise Reject("catalogue class entry is not a class: %.100r" % (x,))
        return "(Some %s)" % q(x.__name__)
    crow = []
    m2t = getattr(T, "METHOD_TO_TYPES", None)
    mdir = getattr(T, "_MESSAGE_DIRECTION", None)
    if not isinstance(m2t, dict) or not isinstance(mdir, dict):
        raise Reject("METHOD_TO_TYPES / _MESSAGE_DIRECTION missing")
    for m in sorted(set(m2t) | set(mdir)):
        tup = m2t.get(m)
        if tup is not None and (not isinstance(tup, tuple) or len(tup) != 4):
            raise Reject("catalogue row shape for %s" % m)
        try:
            d = T.message_direction(m)
        except Exception:
            d = None
        if d != mdir.get(m):
            raise Reject("message_direction(%r) disagrees with _MESSAGE_DIRECTION" % m)
        crow.append("{| cm_method := %s; cm_cls := %s; cm_resp := %s; cm_params := %s; cm_regopts := %s; cm_dir := %s |}"
                    % (q(m), opt_name(tup[0]) if tup else "None", opt_name(tup[1]) if tup else "None", opt_ty(tup[2]) if tup else "None",
                       opt_ty(tup[3]) if tup else "None", ("(Some %s)" % q(d)) if isinstance(d, str) else "None"))
    out.append("Definition catalogue : list catrow := [\n  " + ";\n  ".join(crow) + "].")
    consts = sorted((k, v) for k, v in vars(T).items() if isinstance(v, str) and k.isupper() and not k.startswith("_"))
    out.append("Definition method_constants : list (string * string) := [%s]." % "; ".join("(%s, %s)" % (q(k), q(v)) for k, v in consts))
    reg = sorted(k for k in T.ALL_TYPES_MAP if k != "__builtins__")
    out.append("Definition registry_names : list string := [%s]." % "; ".join(q(k) for k in reg))
    # "every protocol type defined by the package", read from the MODULE NAMESPACE (independently of the registry, and after the first
    # converter was created above): classes and enums defined in the module, and the module-level typing aliases (Union[...] /
    # List[...] / ForwardRef objects) other than re-exports of typing itself and the ALL-CAPS message-group constants
    import typing as _typing

    def _is_alias_obj(k, v):
        if isinstance(v, type) or k.startswith("__") or k.isupper():
            return False
        if getattr(_typing, k, None) is v:
            return False
        return _typing.get_origin(v) is not None or isinstance(v, _typing.ForwardRef)
    defined = sorted(k for k, v in vars(T).items() if (isinstance(v, type) and v.__module__ == T.__name__) or _is_alias_obj(k, v))
    out.append("Definition defined_types : list string := [%s]." % "; ".join(q(k) for k in defined))
    out.append("Definition lsp_version : string := %s." % q(str(getattr(T, "__lsp_version__", ""))))
    stats["catalogue_rows"] = len(crow)
    stats["registry_names"] = len(reg)
    stats["defined_types"] = len(defined)
    out.append("Definition plain_classes : list string := [%s]." % "; ".join(q(x) for x in plain))
    write_if_changed(out_v, "\n".join(out) + "\n")
    stats["classes"] = len(cls_names)
    stats["enums"] = len(enum_names)
    stats["alias_objects"] = len(arows)
    stats["distinct_unions_in_fields"] = len(seen)
    methods = {}
    for m, tup in getattr(T, "METHOD_TO_TYPES", {}).items():
        methods[m] = [getattr(x, "__name__", None) if isinstance(x, type) else None for x in tup[:2]]
    json.dump({"stats": stats, "classes": cls_names, "enums": enum_names, "methods": methods, "unions": utbl, "class_fields": CLASS_WIRES,
               "detailed_validation": bool(getattr(conv, "detailed_validation", True))}, open(out_json, "w"))
    print(json.dumps(stats))


if __name__ == "__main__":
    try:
        main(sys.argv[1], sys.argv[2])
    except Reject as e:
        print("REJECT: %s" % e)
        sys.exit(3)
