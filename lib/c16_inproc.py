"""c16_inproc — several generations inside ONE Python process (property C16: output must not depend on earlier runs of the
process).  Runs with the repository's interpreter, PYTHONPATH = the repository.

stdin : {"steps": [{"plugin": name, "models": [paths] | null, "out": directory}, ...]}
        each step calls generator.__main__.main([...]) — the same entry point as `python -m generator` — in this process,
        in the given order; plugin modules, generator.model and everything they hold at module level stay loaded in between.
stdout: last line = {"steps": [{"ok": bool, "error": str | null}, ...]}
"""
import io
import json
import logging
import sys
import traceback


def main():
    req = json.load(sys.stdin)
    logging.disable(logging.CRITICAL)            # the generator logs every type; nothing of it is output
    from generator.__main__ import main as gen_main
    out = []
    for st in req["steps"]:
        argv = ["--plugin", st["plugin"], "--output-dir", st["out"], "--test-dir", st["out"] + "-tests"]
        if st.get("models"):
            argv += ["--model"] + list(st["models"])
        saved = sys.stdout
        sys.stdout = io.StringIO()
        try:
            gen_main(argv)
            out.append({"ok": True, "error": None})
        except BaseException as e:               # SystemExit from argparse included
            out.append({"ok": False, "error": "".join(traceback.format_exception_only(type(e), e))[-600:]})
        finally:
            sys.stdout = saved
    print(json.dumps({"steps": out}))


if __name__ == "__main__":
    main()
