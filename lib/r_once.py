"""Real-code runner for C19 (one fresh interpreter per invocation).  No source hook: the yield points of
`lsprotocol._hooks._resolve_forward_references` are reached by monkey-patching, BEFORE lsprotocol is imported,
`attrs.has` (called by `_filter` for every class while the dict iteration is running) and `attrs.resolve_types`, and by
wrapping every module-level lock object of `lsprotocol._hooks`.  Wrappers park the calling worker thread on a per-thread
semaphore; the controller (main thread) executes a schedule = list of thread ids, each entry lets that thread run to its
next parking point.

usage:  r_once.py sched    < {"n":2,"moves":[..],"has_pos":[a,b],"skip_first_acquire":bool,"battery":bool}
        r_once.py history  < {"histories":[[cfg,..],..],"hundred":bool}         cfg in fresh|user|dv_on|dv_off|gen|forbid|poshook
        r_once.py stress   < {"threads":16}
labels (same numbering as LSP.Once.label): 0 start, 1 finished, 2 crashed, 3 at lock acquire, 4 at lock release,
        5 / 6 inside the dict iteration (1st / 2nd position), 7 before the first resolve_types, 8 before the last one.
"""
import hashlib
import json
import os
import sys
import threading

import attrs
import cattrs  # noqa: F401  (imported before patching: cattrs keeps its own references to the original functions)

ORIG_HAS = attrs.has
ORIG_RESOLVE = attrs.resolve_types
TL = threading.local()
WAIT = 20.0


class Ctl:
    def __init__(self):
        self.go = {}
        self.arrived = {}
        self.state = {}      # tid -> label
        self.kreal = None
        self.has_pos = (5, 50)
        self.skip_first_acquire = False
        self.resolve_calls = 0
        self.resolve_lock = threading.Lock()

    def add(self, tid):
        self.go[tid] = threading.Semaphore(0)
        self.arrived[tid] = threading.Semaphore(0)
        self.state[tid] = None

    def park(self, label):
        tid = TL.tid
        self.state[tid] = label
        self.arrived[tid].release()
        self.go[tid].acquire()

    def finish(self, label):
        tid = TL.tid
        self.state[tid] = label
        self.arrived[tid].release()

    def move(self, tid):
        if self.state[tid] in (1, 2):
            return self.state[tid]
        self.go[tid].release()
        if not self.arrived[tid].acquire(timeout=WAIT):
            self.state[tid] = 99          # the thread blocked somewhere the harness does not control
            return 99
        return self.state[tid]


CTL = Ctl()


def _from_hooks():
    f = sys._getframe(2)
    return f.f_code.co_filename.replace("\\", "/").endswith("lsprotocol/_hooks.py")


def has_wrapper(cls):
    if getattr(TL, "active", False) and _from_hooks():
        TL.has_n += 1
        if TL.has_n == CTL.has_pos[0]:
            CTL.park(5)
        elif TL.has_n == CTL.has_pos[1]:
            CTL.park(6)
    return ORIG_HAS(cls)


def resolve_wrapper(cls, *a, **kw):
    if getattr(TL, "active", False) and _from_hooks():
        TL.res_n += 1
        if TL.res_n == 1:
            CTL.park(7)
        elif TL.res_n == CTL.kreal:
            CTL.park(8)
        with CTL.resolve_lock:
            CTL.resolve_calls += 1
    elif getattr(TL, "counting", False) and _from_hooks():
        with CTL.resolve_lock:
            CTL.resolve_calls += 1
    return ORIG_RESOLVE(cls, *a, **kw)


class LockWrapper:
    """Stands in for a module-level threading.Lock/RLock of _hooks: parks the worker before acquiring and before releasing;
    a blocked acquire is a no-op move (the worker stays parked at the acquire)."""

    def __init__(self, real):
        self._real = real

    def acquire(self, blocking=True, timeout=-1):
        if not getattr(TL, "active", False):
            return self._real.acquire(blocking, timeout)
        first = not TL.parked_once
        while True:
            if not (first and CTL.skip_first_acquire):
                CTL.park(3)
            first = False
            TL.parked_once = True
            if self._real.acquire(False):
                return True

    def release(self):
        if getattr(TL, "active", False) and sys.exc_info()[0] is None:
            CTL.park(4)
        self._real.release()

    def locked(self):
        return self._real.locked()

    def __enter__(self):
        self.acquire()
        return True

    def __exit__(self, et, ev, tb):
        if getattr(TL, "active", False) and et is None:
            CTL.park(4)
        self._real.release()
        return False


def install():
    attrs.has = has_wrapper
    attrs.resolve_types = resolve_wrapper
    from lsprotocol import _hooks, converters, types
    locks = []
    lock_types = (type(threading.Lock()), type(threading.RLock()))
    for k, v in list(vars(_hooks).items()):
        if isinstance(v, lock_types):
            setattr(_hooks, k, LockWrapper(v))
            locks.append(k)
    CTL.kreal = sum(1 for v in types.ALL_TYPES_MAP.values() if isinstance(v, type) and ORIG_HAS(v))
    return _hooks, converters, types, locks


# ------------------------------------------------------------------------------------------------ battery
def canon(v):
    if isinstance(v, dict):
        return {k: canon(v[k]) for k in sorted(v)}
    if isinstance(v, (list, tuple)):
        return [canon(x) for x in v]
    return v


def battery(T):
    rng = {"start": {"line": 1, "character": 2}, "end": {"line": 3, "character": 4}}
    structure = [
        ("InitializeParams", {"processId": 1, "rootUri": "file:///x", "trace": "verbose",
                              "capabilities": {"textDocument": {"hover": {"contentFormat": ["markdown", "plaintext"]},
                                                                "synchronization": {"didSave": True},
                                                                "completion": {"completionItem": {"snippetSupport": True, "tagSupport": {"valueSet": [1]}}}},
                                               "workspace": {"workspaceFolders": True, "symbol": {"symbolKind": {"valueSet": [1, 2, 26]}}},
                                               "general": {"positionEncodings": ["utf-16", "x-custom"]}},
                              "workspaceFolders": [{"uri": "file:///x", "name": "x"}], "clientInfo": {"name": "c", "version": "1"},
                              "initializationOptions": {"a": [1, {"b": None}], "é": 1.5}}),
        ("InitializeParams", {"processId": None, "rootUri": None, "capabilities": {}}),
        ("InitializeResult", {"capabilities": {"textDocumentSync": 2, "hoverProvider": True, "positionEncoding": "utf-8",
                                               "completionProvider": {"triggerCharacters": ["."], "resolveProvider": False},
                                               "definitionProvider": {"workDoneProgress": True},
                                               "declarationProvider": {"id": "x", "documentSelector": None},
                                               "codeActionProvider": {"codeActionKinds": ["quickfix", "custom.kind"]},
                                               "workspace": {"workspaceFolders": {"supported": True, "changeNotifications": "id1"}},
                                               "experimental": {"x": [1, "two", None]}},
                              "serverInfo": {"name": "s"}}),
        ("InitializeResult", {"capabilities": {"textDocumentSync": {"openClose": True, "change": 1, "save": {"includeText": True}}}}),
        ("CompletionList", {"isIncomplete": False, "items": [
            {"label": "a", "kind": 3, "documentation": {"kind": "markdown", "value": "x"}, "textEdit": {"range": rng, "newText": "b"}, "tags": [1]},
            {"label": "b", "textEdit": {"insert": rng, "replace": rng, "newText": "c"}, "documentation": "plain", "insertTextFormat": 2},
            {"label": "c", "command": {"title": "t", "command": "cmd", "arguments": [1, {"k": "v"}]}}]}),
        ("Hover", {"contents": ["a", {"language": "x", "value": "y"}]}),
        ("Hover", {"contents": {"kind": "plaintext", "value": "v"}, "range": rng}),
        ("Position", {"line": -1, "character": 0}),
        ("Position", {"line": 2147483647, "character": 0}),
        ("Range", {"start": {"line": 1}}),
        ("CompletionRequest", {"jsonrpc": "2.0", "id": "r1", "method": "textDocument/completion",
                                           "params": {"textDocument": {"uri": "file:///x"}, "position": {"line": 0, "character": 0},
                                                      "context": {"triggerKind": 2, "triggerCharacter": "."}}}),
        ("PublishDiagnosticsNotification", {"jsonrpc": "2.0", "method": "textDocument/publishDiagnostics",
                                                        "params": {"uri": "file:///x", "diagnostics": [
                                                            {"range": rng, "message": "m", "severity": 1, "code": 5, "tags": [1, 2]},
                                                            {"range": rng, "message": "n", "code": "E1", "codeDescription": {"href": "http://x"}}]}}),
        ("WorkspaceEdit", {"documentChanges": [
            {"textDocument": {"uri": "file:///x", "version": None}, "edits": [{"range": rng, "newText": "a"}, {"range": rng, "newText": "b", "annotationId": "i"}]},
            {"kind": "create", "uri": "file:///y", "options": {"overwrite": True}},
            {"kind": "rename", "oldUri": "file:///y", "newUri": "file:///z"}, {"kind": "delete", "uri": "file:///z"}]}),
        ("DocumentSymbol", {"name": "n", "kind": 5, "range": rng, "selectionRange": rng,
                            "children": [{"name": "m", "kind": 6, "range": rng, "selectionRange": rng, "tags": [1]}]}),
        ("SemanticTokensRegistrationOptions", {"documentSelector": [{"language": "py"}, {"scheme": "file", "pattern": "*.x"}],
                                               "legend": {"tokenTypes": ["a"], "tokenModifiers": []}, "full": {"delta": True}, "range": False}),
        ("CompletionItemKind", 7), ("CompletionItemKind", 99), ("CodeActionKind", "refactor.custom"), ("TextDocumentSyncKind", 1),
        ("SymbolKind", "x"),
    ]
    p = T.Position(line=1, character=2)
    r = T.Range(start=p, end=T.Position(line=3, character=4))
    unstructure = [
        T.Diagnostic(range=r, message="m", severity=T.DiagnosticSeverity.Error, code=5, tags=[T.DiagnosticTag.Unnecessary]),
        T.TextDocumentEdit(text_document=T.OptionalVersionedTextDocumentIdentifier(uri="u", version=None),
                           edits=[T.TextEdit(range=r, new_text="a"), T.AnnotatedTextEdit(range=r, new_text="b", annotation_id="i")]),
        T.InitializeParams(capabilities=T.ClientCapabilities(), process_id=None, root_uri=None),
        T.CompletionItem(label="l", kind=T.CompletionItemKind.Class, documentation=T.MarkupContent(kind=T.MarkupKind.Markdown, value="v")),
        T.Location(uri="file:///é", range=r),
        T.HoverRequest(id=1, params=T.HoverParams(text_document=T.TextDocumentIdentifier(uri="u"), position=p)),
        T.ResponseErrorMessage(id=None, error=T.ResponseError(code=-32700, message="x", data={"a": [1]})),
        T.CodeActionKind.QuickFix, T.SymbolKind.Class,
    ]
    return structure, unstructure


def exc_kind(e):
    """outcome kind of a failure: the exception type, and for cattrs' validation groups the leaf types as well"""
    name = type(e).__name__
    subs = getattr(e, "exceptions", None)
    if subs:
        return name + "(" + ",".join(sorted({exc_kind(x) for x in subs})) + ")"
    return name


def strict_inputs(T):
    rng = {"start": {"line": 1, "character": 2}, "end": {"line": 3, "character": 4}}
    return [
        ("Location", {"uri": "file:///a.py", "range": rng}),
        ("Diagnostic", {"range": rng, "message": "m", "severity": 1, "code": "E1"}),
        ("Location", {"uri": "file:///a.py", "range": {"start": {"line": 1, "character": 2}, "end": {"line": 3}}}),          # missing required key, nested
        ("Location", {"uri": "file:///a.py", "range": {"start": {"line": 1, "character": 2, "bogus": 1}, "end": {"line": 3, "character": 4}}}),  # unknown key, nested
        ("Diagnostic", {"range": rng}),                                                                                         # missing required key
        ("Position", {"line": 1, "character": 2, "bogus": True}),                                                             # unknown key
        ("TextEdit", {"range": rng, "newText": 5, "extra": {"a": 1}}),
        ("CompletionList", {"items": [{"label": "a", "unknownKey": 1}]}),                                                     # missing isIncomplete + unknown key in an item
    ]


def run_battery(conv, T, strict=False):
    """strict=False: values and ok/raise only (comparable across configurations);
    strict=True: + invalid inputs, failures recorded with their exception kind (comparable within one configuration)"""
    st, un = battery(T)
    if strict:
        st = st + strict_inputs(T)
    out = []
    for name, j in st:
        ty = getattr(T, name)
        try:
            o = conv.structure(j, ty)
            out.append(["ok", repr(o), canon(conv.unstructure(o, ty) if not isinstance(o, (int, str)) else conv.unstructure(o))])
        except Exception as e:
            out.append(["raise", exc_kind(e)] if strict else ["raise"])
    for o in un:
        try:
            out.append(["ok", canon(conv.unstructure(o))])
        except Exception as e:
            out.append(["raise", exc_kind(e)] if strict else ["raise"])
    return out


def digest(x):
    return hashlib.sha1(json.dumps(x, sort_keys=True, default=repr).encode()).hexdigest()[:16]


def ready_state(_hooks, T):
    flag_names = [k for k, v in vars(_hooks).items() if isinstance(v, bool) and "resolv" in k.lower()]
    flag = all(getattr(_hooks, k) for k in flag_names) if flag_names else None
    unresolved = sum(1 for v in T.ALL_TYPES_MAP.values()
                     if isinstance(v, type) and ORIG_HAS(v) and getattr(v, "__attrs_types_resolved__", None) is not v)
    return flag, unresolved


# ------------------------------------------------------------------------------------------------ modes
def mode_sched(spec):
    n = spec["n"]
    CTL.has_pos = tuple(spec.get("has_pos", (5, 50)))
    CTL.skip_first_acquire = bool(spec.get("skip_first_acquire", False))
    _hooks, converters, T, locks = install()
    results = {}

    def worker(tid):
        TL.tid = tid
        TL.has_n = 0
        TL.res_n = 0
        TL.parked_once = False
        TL.active = False
        CTL.park(0)
        res = {}
        try:
            TL.active = True
            try:
                conv = converters.get_converter()
            finally:
                TL.active = False
            flag, unresolved = ready_state(_hooks, T)
            res = {"status": "ok", "flag_at_return": flag, "unresolved_at_return": unresolved}
            if spec.get("battery"):
                try:
                    res["battery"] = digest(run_battery(conv, T))
                except Exception as e:  # pragma: no cover
                    res["battery"] = "raise:" + type(e).__name__
            results[tid] = res
            CTL.finish(1)
        except BaseException as e:
            results[tid] = {"status": "exc", "type": type(e).__name__, "msg": str(e)[:200]}
            CTL.finish(2)

    for t in range(n):
        CTL.add(t)
        threading.Thread(target=worker, args=(t,), daemon=True).start()
    for t in range(n):
        CTL.arrived[t].acquire()
    trace = []
    for t in spec["moves"]:
        if 0 <= t < n:
            trace.append(CTL.move(t))
        else:
            trace.append(-1)
    flag, unresolved = ready_state(_hooks, T)
    out = {"threads": [results.get(t, {"status": "parked", "label": CTL.state[t]}) for t in range(n)], "trace": trace,
           "resolve_calls": CTL.resolve_calls, "kreal": CTL.kreal, "flag": flag, "unresolved": unresolved, "locks": locks,
           "map_size": len(T.ALL_TYPES_MAP)}
    sys.stdout.write(json.dumps(out))
    sys.stdout.flush()
    os._exit(0)


def mode_history(spec):
    from lsprotocol import _hooks, converters
    from lsprotocol import types as T
    import cattrs as C

    def make(cfg):
        if cfg == "fresh":
            return converters.get_converter()
        if cfg == "user":
            return converters.get_converter(C.Converter())
        if cfg == "dv_on":
            return converters.get_converter(C.Converter(detailed_validation=True))
        if cfg == "dv_off":
            return converters.get_converter(C.Converter(detailed_validation=False))
        if cfg == "gen":
            return converters.get_converter(C.GenConverter())
        if cfg == "forbid":
            return converters.get_converter(C.Converter(detailed_validation=False, forbid_extra_keys=True))
        if cfg == "poshook":
            # a user converter that already (un)structures Position its own way (zero-based wire <-> one-based memory)
            u = C.Converter()
            u.register_structure_hook(T.Position, lambda o, _: T.Position(line=o["line"] + 1, character=o["character"] + 1))
            u.register_unstructure_hook(T.Position, lambda p: {"line": p.line - 1, "character": p.character - 1})
            return converters.get_converter(u)
        raise ValueError(cfg)

    def both(cv):
        """"<digest comparable across configurations>:<digest comparable within the configuration>" """
        return digest(run_battery(cv, T)) + ":" + digest(run_battery(cv, T, strict=True))

    out = []
    convs = []
    for h in spec["histories"]:
        row = []
        for cfg in h:
            try:
                cv = make(cfg)
                convs.append((cfg, cv))
                row.append(both(cv))
            except Exception as e:
                row.append("create-raise:" + type(e).__name__ + ":" + str(e)[:100])
        out.append(row)
    # earlier converters re-checked after all later ones were created
    later = [[cfg, both(cv)] for cfg, cv in convs[:spec.get("recheck", 60)]]
    hundred = None
    if spec.get("hundred"):
        cv = None
        for _ in range(100):
            cv = converters.get_converter()
        hundred = both(cv)
    # churn: user-supplied converters created, used and DROPPED one after the other (garbage collected before the next one is
    # made, so object identities are reused): each must behave like its configuration's reference
    churn = []
    if spec.get("churn"):
        import gc
        cfgs = ["user", "dv_on", "gen", "user", "dv_off", "user"]
        for i in range(int(spec["churn"])):
            cfg = cfgs[i % len(cfgs)]
            try:
                cv = make(cfg)
                churn.append([cfg, both(cv), id(cv)])
            except Exception as e:
                churn.append([cfg, "create-raise:" + type(e).__name__ + ":" + str(e)[:100], 0])
            cv = None
            gc.collect()
    detail = run_battery(converters.get_converter(), T, strict=True) if spec.get("detail") else None
    if spec.get("detail_cfg"):
        detail = run_battery(make(spec["detail_cfg"]), T, strict=True)
    n_st, n_un = battery(T)
    json.dump({"histories": out, "later": later, "hundred": hundred, "n_battery": len(n_st) + len(n_un), "n_strict": len(strict_inputs(T)),
               "detail": detail, "churn": [c[:2] for c in churn], "churn_reused_identities": len(churn) - len({c[2] for c in churn}), "distinct_identities": len({id(cv) for _, cv in convs}), "n_convs": len(convs)}, sys.stdout, default=repr)


def registry_signature(cv):
    """what hooks a converter has registered: the exact-union registry keys and the sizes of the predicate / class dispatch tables (cattrs
    24.1 internals, read defensively: an attribute that is not there contributes nothing)"""
    import typing

    def canon(t, d=0):
        # typing.Union compares equal whatever the order of its members, but repr() shows the order of the object that was created
        # first: the signature must not depend on that
        args = typing.get_args(t)
        if d > 6 or not args:
            return repr(t)
        inner = [canon(a, d + 1) for a in args]
        if typing.get_origin(t) is typing.Union:
            inner = sorted(inner)
            return "Union{" + ", ".join(inner) + "}"
        return repr(typing.get_origin(t)) + "[" + ", ".join(inner) + "]"
    sig = {}
    try:
        sig["unions"] = sorted(canon(k) for k in getattr(cv, "_union_struct_registry", {}))
    except Exception:
        pass
    for name in ("_structure_func", "_unstructure_func"):
        d = getattr(cv, name, None)
        try:
            sig[name + ".predicates"] = len(d._function_dispatch._handler_pairs)
        except Exception:
            pass
        try:
            sig[name + ".classes"] = len(d._single_dispatch.registry)
        except Exception:
            pass
    return sig


def mode_stress(spec):
    attrs.resolve_types = resolve_wrapper
    from lsprotocol import _hooks, converters
    from lsprotocol import types as T
    n = spec.get("threads", 16)
    default_interval = sys.getswitchinterval()
    sys.setswitchinterval(1e-6)          # many thread switches inside the first calls
    barrier = threading.Barrier(n)
    created = threading.Barrier(n, action=lambda: sys.setswitchinterval(default_interval))
    res = [None] * n
    cvs = [None] * n

    def worker(i):
        TL.counting = True
        barrier.wait()
        cv = None
        try:
            cv = converters.get_converter()
            cvs[i] = cv
            res[i] = ["ok", ""]
        except BaseException as e:
            res[i] = ["exc", type(e).__name__, str(e)[:200]]
        finally:
            TL.counting = False
        try:
            created.wait(60)
        except threading.BrokenBarrierError:
            pass
        if cv is not None and spec.get("battery") and i < spec.get("battery_threads", 4):
            try:
                res[i] = ["ok", digest(run_battery(cv, T))]      # first use, concurrently
            except BaseException as e:
                res[i] = ["exc", type(e).__name__, str(e)[:200]]

    ylines = set(spec.get("yield_lines") or [])
    if ylines:
        # widen the window at the lines of _hooks.py that write module-level state (found by lib/x_once.py): a thread that reaches one
        # sleeps briefly BEFORE executing it, so that other threads get to run between the check and the write
        import time as _time

        def _local(frame, event, arg):
            if event == "line" and frame.f_lineno in ylines:
                _time.sleep(0.0004)
            return _local

        def _tracer(frame, event, arg):
            if event == "call" and frame.f_code.co_filename.endswith("_hooks.py"):
                return _local
            return None
        threading.settrace(_tracer)
    ths = [threading.Thread(target=worker, args=(i,)) for i in range(n)]
    for t in ths:
        t.start()
    for t in ths:
        t.join(120)
    # every converter created during the race must have registered what a converter created afterwards, alone, registers
    try:
        ref_sig = registry_signature(converters.get_converter())
        for i, cv in enumerate(cvs):
            if cv is not None and res[i] and res[i][0] == "ok":
                sg = registry_signature(cv)
                if sg != ref_sig:
                    missing = sorted(set(ref_sig.get("unions", [])) - set(sg.get("unions", [])))[:3]
                    res[i] = ["exc", "RegistryMismatch", "thread %d: hooks registered differ from a converter created alone: missing unions %s; sizes %s vs %s"
                              % (i, missing, {k: v for k, v in sg.items() if k != "unions"}, {k: v for k, v in ref_sig.items() if k != "unions"})]
    except Exception as e:
        res.append(["exc", "RegistryCheckFailed", str(e)[:200]])
    flag, unresolved = ready_state(_hooks, T)
    json.dump({"results": res, "resolve_calls": CTL.resolve_calls, "flag": flag, "unresolved": unresolved}, sys.stdout)


if __name__ == "__main__":
    spec = json.load(sys.stdin)
    {"sched": mode_sched, "history": mode_history, "stress": mode_stress}[sys.argv[1]](spec)
