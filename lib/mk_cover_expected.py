"""mk_cover_expected — (re)write /verif/cover_expected.json from the CURRENT tree: the classes and hooked union types that the proved
round-trip theorem (coq/props/Cover.v) does not cover.  A maintenance step run by hand after reviewing why each entry is uncovered
(DESIGN.md lists the reasons); checks only READ the file (through lib/x_known.py -> Gen/Known.v)."""
import json
import os
import re
import sys

sys.path.insert(0, os.path.dirname(os.path.abspath(__file__)))
import conv_stream as CS
import vcommon as V

with V.build_lock():
    V.ensure_theory()
    ok, fails = CS.build_conv(None)
    assert ok, fails
    hdr = ("From LSP Require Import Base MM Sem SemThy Denote PtyEq RoundTrip HookFrag Image ImageThy Link.\nFrom Gen Require Import MMData PkgData.\n"
           "Definition nltab := Eval vm_compute in nl_table mm.\n"
           "Definition cov := Eval vm_compute in iter_shrink Sg (NLtab nltab) 16 (cover0 Sg).\nSet Printing Width 100000.\nSet Printing Depth 100000.\n")
    outs = V.coq_eval("MkCover", hdr, [
        "filter (fun c => negb (mem c (fst cov))) (map fst (classes Sg))",
        "filter (fun u => negb (existsb (pty_eqb u) (snd cov))) (map fst (uhooks Sg))",
        "map fst (classes Sg)",
        "map fst (uhooks Sg)"])


def term(o):
    return re.sub(r"\s+", " ", o.rsplit(":", 1)[0]).strip()


def names(o):
    return re.findall(r'"((?:[^"]|"")*)"', term(o))


doc = {"_comment": "expectation for coq/props/Cover.v (cover_not_shrunk); regenerate with lib/mk_cover_expected.py after review",
       "uncovered_classes": names(outs[0]), "uncovered_unions_term": term(outs[1]),
       "base_classes": names(outs[2]), "base_unions_term": term(outs[3])}
json.dump(doc, open(os.path.join(V.VERIF, "cover_expected.json"), "w"), indent=1)
print("uncovered classes:", len(doc["uncovered_classes"]), "of", len(doc["base_classes"]))
