"""pyty — the printer of resolved Python annotations into the pty grammar of coq/Sem.v (shared by x_pkg and the real-code runners)."""
import collections
import collections.abc
import enum
import typing
from typing import Any, Union, get_args, get_origin

import attrs

from vcommon import q


class Reject(Exception):
    pass


def _T():
    from lsprotocol import types as T
    return T


def ty(t):
    o = get_origin(t)
    if isinstance(t, typing.ForwardRef):
        return "(PyFwd %s)" % q(t.__forward_arg__)
    if isinstance(t, str):
        return "(PyFwd %s)" % q(t)
    if t is Any:
        return "PyAny"
    if t is type(None):
        return "PyNone"
    if t is int:
        return "PyInt"
    if t is str:
        return "PyStr"
    if t is bool:
        return "PyBool"
    if t is float:
        return "PyFloat"
    if o is Union:
        return "(PyUnion [%s])" % "; ".join(sorted({ty(a) for a in get_args(t)}))
    if o in (collections.abc.Sequence, list):
        return "(PySeq %s)" % ty(get_args(t)[0])
    if o is dict:
        return "(PyDict %s %s)" % tuple(ty(a) for a in get_args(t))
    if o is tuple:
        args = get_args(t)
        if len(args) == 2 and args[1] is Ellipsis:
            raise Reject("homogeneous tuple type %r" % (t,))
        return "(PyTuple [%s])" % "; ".join(ty(a) for a in args)
    if o is typing.Literal:
        if not all(isinstance(a, str) for a in get_args(t)):
            raise Reject("non-string Literal %r" % (t,))
        return "(PyLit [%s])" % "; ".join(q(a) for a in get_args(t))
    if isinstance(t, type) and issubclass(t, enum.Enum):
        return "(PyEnum %s)" % q(t.__name__)
    if isinstance(t, type) and attrs.has(t):
        return "(PyCls %s)" % q(t.__name__)
    if isinstance(t, type) and t.__module__ == _T().__name__:
        return "(PyOpaque %s)" % q(t.__name__)
    raise Reject("type outside grammar: %.200r" % (t,))


