"""c06_debug — run sub-checks against ONE evolved metamodel family: c06_debug.py <family> <check ids...>   (families: see lib/evolve.py systematic())"""
import sys, json, os, random
sys.path.insert(0,'/verif/lib'); sys.path.insert(0,'/verif/lib/props')
import vcommon as V, evolve, c06
mm=evolve.load()
name=sys.argv[1]; checks=sys.argv[2:]
model=dict(evolve.systematic(mm))[name]
with V.scratch("c06t-") as d:
    tree,crashes=c06.make_copy(name,model,d)
    print('crashes',crashes)
    for c in checks:
        s=c06.run_subcheck(tree,c,0)
        print(c, s['rc'], s['violations'][:2])
        r=s.get('replay') or {}
        print(json.dumps({k:r.get(k) for k in ('kind','broken','input','missing_handlers')})[:3000])
    import shutil; shutil.rmtree(c06.build_dir_of(tree),ignore_errors=True)
