"""c06_debug — run sub-checks against ONE evolved metamodel family: c06_debug.py <family> <check ids...>   (families: see lib/evolve.py systematic())"""
import sys, json, os, random
sys.path.insert(0,'/verif/lib'); sys.path.insert(0,'/verif/lib/props')
import vcommon as V, evolve, c06
mm=evolve.load()
name=sys.argv[1]; checks=sys.argv[2:]
model=dict(evolve.systematic(mm))[name]
base_unions=set()
try:
    base_unions={u.replace(" ","") for u in json.load(open(os.path.join(V.GEN,"pkg.json"))).get("unions",[])}
except Exception as e:
    print("no base unions", e)
with V.scratch("c06t-") as d:
    tree,crashes=c06.make_copy(name,model,d)
    print('crashes',crashes)
    for c in checks:
        s=c06.run_subcheck(tree,c,int(os.environ.get("VERIF_SEED","0")))
        print(c, s['rc'], s['violations'][:2])
        r=s.get('replay') or {}
        print(json.dumps({k:r.get(k) for k in ('kind','broken','input','missing_handlers')})[:3000])
        if s['rc']:
            print('KEYS', c06.finding_keys(s, base_unions))
    import shutil; shutil.rmtree(c06.build_dir_of(tree),ignore_errors=True)
