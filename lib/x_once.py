"""x_once — translate the once-initialiser of lsprotocol/_hooks.py and the write set of register_hooks to Coq (property C19).

Reads (AST only):  packages/python/lsprotocol/_hooks.py, packages/python/lsprotocol/converters.py
Emits:             <out.v>   Gen.OnceData: `once_prog : program` in the IR of LSP.Once, `reg_calls_once`, `reg_writes`
                   <out.json> the same facts + names and line numbers for the harness

Grammar of the once-initialiser (the unique module-level function that calls resolve_types; register_hooks must call it,
without arguments — its state must be module-global):
    stmt ::= docstring | pass | global FLAG | def f(..): <no global writes, no resolve_types>
           | if not FLAG: stmt*                      -> ICheck L ; stmt* ; L:
           | if FLAG: return                         -> ICheck <innermost release, or end>
           | with LOCK: stmt*                        -> IAcquire ; stmt* ; IRelease
           | LOCK.acquire() ; try: stmt* finally: LOCK.release()      -> the same
           | v = list|tuple|sorted|set|frozenset|dict(<expr over M>) | v = [comprehension over M] | v = M.copy()   -> ISnapshot
           | v = filter(..M..) | v = M.items()|values()|keys() | v = (generator over M) | v = map(..)              -> (lazy, no instr)
           | for pat in <v | expr>: [if <pure test>:] resolve_types(x, M, ...)   -> IResolveAll (v materialised; expr materialising => ISnapshot first)
                                                                                   | ILazyResolveAll (lazy)
           | FLAG = True                              -> ISetFlag
           | return                                   (only as the last statement)
    FLAG: a name declared `global` in the function, assigned `False` at module level (nowhere else written)
    LOCK: a name assigned exactly once, at module level, to threading.Lock() / threading.RLock() / Lock() / RLock()
    M:    the expression passed as 2nd argument (globalns) to resolve_types
Anything else: exit 3 with "REJECT: <construct>".

Write set: every syntactic write in register_hooks, the module-level functions it calls (transitively, except the
initialiser) and converters.get_converter, nested functions included: stores through `global`, attribute / subscript stores and
mutating method calls on names that are not local (=> WGlobal), register_* calls and stores on the converter argument
(=> WArg).  exec/eval/globals()/setattr on non-locals are rejected or counted as WGlobal.
usage: x_once.py <out.v> <out.json>
"""
import ast
import json
import os
import sys

from vcommon import REPO, write_if_changed

HOOKS = os.path.join(REPO, "packages", "python", "lsprotocol", "_hooks.py")
CONVS = os.path.join(REPO, "packages", "python", "lsprotocol", "converters.py")

MATERIALISE = {"list", "tuple", "sorted", "set", "frozenset", "dict"}
LAZY_FUNCS = {"filter", "map", "iter", "enumerate", "zip", "reversed"}
LAZY_METHODS = {"items", "values", "keys"}
MUTATORS = {"append", "add", "update", "setdefault", "pop", "popitem", "clear", "extend", "insert", "remove", "discard", "sort",
            "reverse", "__setitem__", "__delitem__", "__setattr__", "appendleft", "register"}


class Reject(Exception):
    pass


def dump(e):
    return ast.dump(e, annotate_fields=False, include_attributes=False)


def is_doc(st):
    return isinstance(st, ast.Expr) and isinstance(st.value, ast.Constant) and isinstance(st.value.value, str)


def call_name(c):
    """dotted name of a call's function, or None"""
    f = c.func
    parts = []
    while isinstance(f, ast.Attribute):
        parts.append(f.attr)
        f = f.value
    if isinstance(f, ast.Name):
        parts.append(f.id)
        return ".".join(reversed(parts))
    return None


def is_resolve_call(c):
    return isinstance(c, ast.Call) and (call_name(c) or "").split(".")[-1] == "resolve_types"


class Label:
    def __init__(self):
        self.idx = None


def inline_snapshot_helpers(mod, fn):
    """A call `h()` of a module-level helper without parameters whose body is one `return <expression>` (after a docstring) is
    replaced by that expression AT THE CALL SITE (same evaluation point, so the position relative to the lock is preserved).
    Helpers that do anything else are left alone and meet the fail-closed grammar."""
    import copy
    helpers = {}
    for st in mod.body:
        if isinstance(st, ast.FunctionDef) and st is not fn and not st.decorator_list and not (st.args.args or st.args.vararg or st.args.kwarg or st.args.kwonlyargs or st.args.posonlyargs):
            body = [b for b in st.body if not (isinstance(b, ast.Expr) and isinstance(b.value, ast.Constant))]
            if len(body) == 1 and isinstance(body[0], ast.Return) and body[0].value is not None \
                    and not any(isinstance(n, (ast.Lambda, ast.Await, ast.Yield, ast.YieldFrom, ast.NamedExpr)) for n in ast.walk(body[0].value)):
                helpers[st.name] = body[0].value

    class Inl(ast.NodeTransformer):
        def visit_Call(self, node):
            self.generic_visit(node)
            if isinstance(node.func, ast.Name) and node.func.id in helpers and not node.args and not node.keywords:
                return ast.copy_location(copy.deepcopy(helpers[node.func.id]), node)
            return node
    if not helpers:
        return fn
    new = Inl().visit(fn)           # in place: fn stays the node of the module tree (identity is used by the other checks)
    ast.fix_missing_locations(new)
    return new


class OnceTranslator:
    def __init__(self, mod, fn):
        fn = inline_snapshot_helpers(mod, fn)
        self.mod, self.fn = mod, fn
        self.code = []          # (opname, Label|None, lineno)
        self.env = {}           # local var -> 'mat' | 'lazy'
        self.flags = []
        self.lock = None
        self.map_expr = None
        self.filter_fns = set()
        for n in ast.walk(fn):
            if is_resolve_call(n):
                if len(n.args) < 2:
                    raise Reject("resolve_types without an explicit globalns argument (line %d)" % n.lineno)
                d = dump(n.args[1])
                if self.map_expr is not None and d != dump(self.map_expr):
                    raise Reject("resolve_types called with two different namespace maps")
                self.map_expr = n.args[1]
        if self.map_expr is None:
            raise Reject("no resolve_types call in the initialiser")
        if fn.args.args or fn.args.vararg or fn.args.kwarg or fn.args.kwonlyargs or fn.args.posonlyargs:
            raise Reject("the once-initialiser %s takes arguments: its state is not module-global" % fn.name)
        if fn.decorator_list:
            raise Reject("decorated once-initialiser")

    # ---- module-level facts
    def module_assignments(self, name):
        res = []
        for st in self.mod.body:
            tg = []
            if isinstance(st, ast.Assign):
                tg = st.targets
                val = st.value
            elif isinstance(st, ast.AnnAssign) and st.value is not None:
                tg = [st.target]
                val = st.value
            for t in tg:
                if isinstance(t, ast.Name) and t.id == name:
                    res.append(val)
        return res

    def written_elsewhere(self, name):
        """functions other than the initialiser that declare `global name`"""
        out = []
        for n in ast.walk(self.mod):
            if isinstance(n, (ast.FunctionDef, ast.AsyncFunctionDef)) and n is not self.fn:
                for g in ast.walk(n):
                    if isinstance(g, ast.Global) and name in g.names and not self._inside(self.fn, n):
                        out.append(n.name)
        return out

    @staticmethod
    def _inside(outer, inner):
        return any(x is inner for x in ast.walk(outer))

    def check_flag(self, name):
        if name not in self.globals_decl:
            raise Reject("flag %s is not declared global in %s: the once-state is not module-global" % (name, self.fn.name))
        vals = self.module_assignments(name)
        if len(vals) != 1 or not (isinstance(vals[0], ast.Constant) and vals[0].value is False):
            raise Reject("flag %s is not initialised to False exactly once at module level" % name)
        w = self.written_elsewhere(name)
        if w:
            raise Reject("flag %s is also written in %s" % (name, w))
        if name not in self.flags:
            self.flags.append(name)
        if len(self.flags) > 1:
            raise Reject("more than one once-flag: %s" % self.flags)

    def lock_ref(self, e):
        if not isinstance(e, ast.Name):
            return None
        vals = self.module_assignments(e.id)
        if len(vals) != 1 or not isinstance(vals[0], ast.Call) or vals[0].args or vals[0].keywords:
            return None
        cn = call_name(vals[0]) or ""
        if cn.split(".")[-1] not in ("Lock", "RLock"):
            return None
        # a lock that is re-created or assigned inside a function gives no mutual exclusion
        for n in ast.walk(self.mod):
            if isinstance(n, ast.Global) and e.id in n.names:
                raise Reject("lock %s is rebound inside a function" % e.id)
        for n in ast.walk(self.fn):
            if isinstance(n, ast.Name) and n.id == e.id and isinstance(n.ctx, ast.Store):
                raise Reject("lock %s is a local of %s (one lock per call = no mutual exclusion)" % (e.id, self.fn.name))
        if self.lock not in (None, e.id):
            raise Reject("two different locks: %s, %s" % (self.lock, e.id))
        self.lock = e.id
        return e.id

    # ---- expressions
    def over_map(self, e):
        d = dump(self.map_expr)
        return any(dump(x) == d for x in ast.walk(e))

    def iter_kind(self, e):
        """'mat' | 'lazy' for an expression that iterates over M; Reject otherwise"""
        if isinstance(e, ast.Name) and e.id in self.env:
            return self.env[e.id] + "-var"
        if not self.over_map(e):
            raise Reject("iteration source %s does not mention the resolve_types namespace %s" % (ast.unparse(e), ast.unparse(self.map_expr)))
        if isinstance(e, (ast.ListComp, ast.SetComp, ast.DictComp)):
            return "mat"
        if isinstance(e, ast.GeneratorExp):
            return "lazy"
        if dump(e) == dump(self.map_expr):
            return "lazy"
        if isinstance(e, ast.Call):
            cn = call_name(e)
            if isinstance(e.func, ast.Name) and cn in MATERIALISE:
                return "mat"
            if isinstance(e.func, ast.Name) and cn in LAZY_FUNCS:
                return "lazy"
            if isinstance(e.func, ast.Attribute) and e.func.attr in LAZY_METHODS and dump(e.func.value) == dump(self.map_expr) and not e.args:
                return "lazy"
            if isinstance(e.func, ast.Attribute) and e.func.attr == "copy" and dump(e.func.value) == dump(self.map_expr):
                return "mat"
        raise Reject("iteration expression outside grammar: " + ast.unparse(e))

    def pure_test(self, e):
        for n in ast.walk(e):
            if isinstance(n, (ast.NamedExpr, ast.Await, ast.Yield, ast.YieldFrom)):
                raise Reject("test with side effect: " + ast.unparse(e))
            if isinstance(n, ast.Call) and (call_name(n) or "").split(".")[-1] not in ("isinstance", "issubclass", "has", "hasattr", "callable", "is_dataclass"):
                raise Reject("call in a loop guard outside grammar: " + ast.unparse(n))

    def flag_test(self, e):
        """('set'|'unset', name) when e tests the flag, else None"""
        if isinstance(e, ast.Name):
            return ("set", e.id) if e.id in self.globals_decl else None
        if isinstance(e, ast.UnaryOp) and isinstance(e.op, ast.Not) and isinstance(e.operand, ast.Name):
            return ("unset", e.operand.id) if e.operand.id in self.globals_decl else None
        if isinstance(e, ast.Compare) and len(e.ops) == 1 and isinstance(e.left, ast.Name) and e.left.id in self.globals_decl \
                and isinstance(e.comparators[0], ast.Constant) and isinstance(e.comparators[0].value, bool):
            v = e.comparators[0].value
            if isinstance(e.ops[0], (ast.Is, ast.Eq)):
                return ("set" if v else "unset", e.left.id)
            if isinstance(e.ops[0], (ast.IsNot, ast.NotEq)):
                return ("unset" if v else "set", e.left.id)
        return None

    # ---- statements
    def emit(self, op, arg=None, line=0):
        self.code.append([op, arg, line])

    def loop_body(self, body):
        body = [s for s in body if not is_doc(s) and not isinstance(s, ast.Pass)]
        if len(body) == 1 and isinstance(body[0], ast.If) and not body[0].orelse:
            self.pure_test(body[0].test)
            return self.loop_body(body[0].body)
        if len(body) == 1 and isinstance(body[0], ast.Expr) and is_resolve_call(body[0].value):
            return True
        raise Reject("loop body outside grammar (expected a single resolve_types call): " + "; ".join(ast.unparse(s) for s in body)[:200])

    def block(self, stmts, ret, tail):
        stmts = [s for s in stmts if not is_doc(s) and not isinstance(s, ast.Pass)]
        i = 0
        while i < len(stmts):
            st = stmts[i]
            last = tail and i == len(stmts) - 1
            i += 1
            if isinstance(st, ast.Global):
                continue
            if isinstance(st, ast.FunctionDef):
                for n in ast.walk(st):
                    if isinstance(n, (ast.Global, ast.Nonlocal)) or is_resolve_call(n):
                        raise Reject("nested function %s writes outer state or resolves types" % st.name)
                self.filter_fns.add(st.name)
                continue
            if isinstance(st, ast.If):
                ft = self.flag_test(st.test)
                if ft is None:
                    raise Reject("if-test outside grammar: " + ast.unparse(st.test))
                self.check_flag(ft[1])
                if st.orelse:
                    raise Reject("else-branch on a flag test (line %d)" % st.lineno)
                if ft[0] == "unset":
                    lab = Label()
                    self.emit("ICheck", lab, st.lineno)
                    self.block(st.body, ret, last)
                    lab.idx = len(self.code)
                    continue
                body = [s for s in st.body if not is_doc(s) and not isinstance(s, ast.Pass)]
                if len(body) == 1 and isinstance(body[0], ast.Return) and body[0].value is None:
                    if ret["in_lock"] and not ret["tail"]:
                        raise Reject("return inside a lock block that is followed by more statements (line %d)" % st.lineno)
                    self.emit("ICheck", ret["label"], st.lineno)
                    continue
                raise Reject("`if %s:` with a body other than `return`" % ast.unparse(st.test))
            if isinstance(st, ast.With):
                if len(st.items) != 1 or st.items[0].optional_vars is not None or self.lock_ref(st.items[0].context_expr) is None:
                    raise Reject("with-statement whose context is not a module-level threading lock: " + ast.unparse(st.items[0].context_expr))
                if ret["in_lock"]:
                    raise Reject("nested lock blocks")
                self.emit("IAcquire", None, st.lineno)
                rl = Label()
                self.block(st.body, {"label": rl, "in_lock": True, "tail": last}, False)
                rl.idx = len(self.code)
                self.emit("IRelease", None, st.end_lineno)
                continue
            if isinstance(st, ast.Expr) and isinstance(st.value, ast.Call) and isinstance(st.value.func, ast.Attribute) \
                    and st.value.func.attr == "acquire" and not st.value.args and not st.value.keywords \
                    and self.lock_ref(st.value.func.value) is not None:
                nxt = stmts[i] if i < len(stmts) else None
                ok = (isinstance(nxt, ast.Try) and not nxt.handlers and not nxt.orelse and len(nxt.finalbody) == 1
                      and isinstance(nxt.finalbody[0], ast.Expr) and isinstance(nxt.finalbody[0].value, ast.Call)
                      and isinstance(nxt.finalbody[0].value.func, ast.Attribute) and nxt.finalbody[0].value.func.attr == "release"
                      and dump(nxt.finalbody[0].value.func.value) == dump(st.value.func.value))
                if not ok:
                    raise Reject("lock.acquire() not followed by try/finally: lock.release() (line %d)" % st.lineno)
                if ret["in_lock"]:
                    raise Reject("nested lock blocks")
                last = tail and i == len(stmts) - 1
                i += 1
                self.emit("IAcquire", None, st.lineno)
                rl = Label()
                self.block(nxt.body, {"label": rl, "in_lock": True, "tail": last}, False)
                rl.idx = len(self.code)
                self.emit("IRelease", None, nxt.finalbody[0].lineno)
                continue
            if isinstance(st, (ast.Assign, ast.AnnAssign)):
                tgs = st.targets if isinstance(st, ast.Assign) else [st.target]
                if len(tgs) != 1 or not isinstance(tgs[0], ast.Name) or st.value is None:
                    raise Reject("assignment outside grammar: " + ast.unparse(st))
                name = tgs[0].id
                if name in self.globals_decl:
                    if not (isinstance(st.value, ast.Constant) and st.value.value is True):
                        raise Reject("flag assigned something other than True: " + ast.unparse(st))
                    self.check_flag(name)
                    self.emit("ISetFlag", None, st.lineno)
                    continue
                if isinstance(st.value, ast.Call) and (call_name(st.value) or "").split(".")[-1] in ("Lock", "RLock", "Semaphore", "Condition"):
                    raise Reject("lock %s is created inside %s (one lock per call = no mutual exclusion)" % (name, self.fn.name))
                k = self.iter_kind(st.value)
                if k == "mat":
                    self.emit("ISnapshot", None, st.lineno)
                    self.env[name] = "mat"
                elif k == "lazy":
                    self.env[name] = "lazy"
                else:
                    self.env[name] = k[:-4]
                continue
            if isinstance(st, ast.For):
                if st.orelse:
                    raise Reject("for-else")
                self.loop_body(st.body)
                k = self.iter_kind(st.iter)
                if k == "mat":
                    self.emit("ISnapshot", None, st.lineno)
                    self.emit("IResolveAll", None, st.lineno)
                elif k == "mat-var":
                    self.emit("IResolveAll", None, st.lineno)
                else:
                    self.emit("ILazyResolveAll", None, st.lineno)
                continue
            if isinstance(st, ast.Return) and st.value is None and last and not ret["in_lock"]:
                continue
            if isinstance(st, ast.Return) and st.value is None and ret["in_lock"] and ret["tail"] and i == len(stmts):
                continue
            raise Reject("statement outside grammar (line %d): %s" % (st.lineno, ast.unparse(st)[:160]))

    def run(self):
        self.globals_decl = set()
        for n in ast.walk(self.fn):
            if isinstance(n, ast.Global):
                self.globals_decl |= set(n.names)
        end = Label()
        self.block(self.fn.body, {"label": end, "in_lock": False, "tail": True}, True)
        end.idx = len(self.code)
        if not self.flags:
            raise Reject("no once-flag found in %s" % self.fn.name)
        prog = []
        for op, arg, line in self.code:
            prog.append([op, arg.idx if isinstance(arg, Label) else None, line])
        return prog


# ------------------------------------------------------------------------------------------------ write set
def local_names(fn, inherited=()):
    names = set(inherited)
    a = fn.args
    for x in a.args + a.kwonlyargs + a.posonlyargs + ([a.vararg] if a.vararg else []) + ([a.kwarg] if a.kwarg else []):
        names.add(x.arg)
    glob = set()
    for n in ast.walk(fn):
        if isinstance(n, ast.Global):
            glob |= set(n.names)

    def visit(node):
        for ch in ast.iter_child_nodes(node):
            if isinstance(ch, (ast.FunctionDef, ast.AsyncFunctionDef, ast.ClassDef)):
                names.add(ch.name)
                continue
            if isinstance(ch, ast.Lambda):
                continue
            if isinstance(ch, ast.Name) and isinstance(ch.ctx, (ast.Store, ast.Del)):
                names.add(ch.id)
            visit(ch)
    visit(fn)
    return names - glob, glob


def root_name(e):
    while isinstance(e, (ast.Attribute, ast.Subscript)):
        e = e.value
    return e.id if isinstance(e, ast.Name) else None


def scan_writes(fn, conv_names, inherited=(), where=None, out=None, calls=None):
    """append {kind, what, line, fn} for every syntactic write in fn (nested functions included)"""
    where = where or fn.name
    locs, glob = local_names(fn, inherited)
    if isinstance(fn, ast.Lambda):
        body_nodes = [fn.body]
    else:
        body_nodes = fn.body

    # locals that ALIAS non-local state: `x = G`, `x = G.attr`, `x = G[k]` (also annotated / walrus-free forms) with G not local.  A write
    # THROUGH such a local (x += ..., x.append(..), x[k] = .., x.a = ..) is a write to the non-local object (lists / dicts / sets are
    # updated in place by the augmented operators).  Conservative: the local counts as an alias wherever it was bound that way once.
    aliases = set()
    for n_ in ast.walk(fn):
        tgt, val = None, None
        if isinstance(n_, ast.Assign) and len(n_.targets) == 1 and isinstance(n_.targets[0], ast.Name):
            tgt, val = n_.targets[0].id, n_.value
        elif isinstance(n_, ast.AnnAssign) and isinstance(n_.target, ast.Name) and n_.value is not None:
            tgt, val = n_.target.id, n_.value
        if tgt is not None and isinstance(val, (ast.Name, ast.Attribute, ast.Subscript)):
            r_ = root_name(val)
            if r_ is not None and r_ not in locs and r_ not in conv_names and tgt in locs:
                aliases.add(tgt)

    def rec(node):
        for ch in ast.iter_child_nodes(node):
            handle(ch)

    def handle(n):
        if isinstance(n, (ast.FunctionDef, ast.AsyncFunctionDef)):
            scan_writes(n, conv_names, locs, where + "." + n.name, out, calls)
            return
        if isinstance(n, ast.AugAssign) and isinstance(n.target, ast.Name) and n.target.id in aliases:
            out.append({"kind": "WGlobal", "what": "in-place update through the alias %s of non-local state: %s" % (n.target.id, ast.unparse(n)[:60]), "line": n.lineno, "fn": where})
        if isinstance(n, (ast.Attribute, ast.Subscript)) and isinstance(n.ctx, (ast.Store, ast.Del)) and root_name(n) in aliases:
            out.append({"kind": "WGlobal", "what": "store through the alias %s of non-local state: %s" % (root_name(n), ast.unparse(n)[:60]), "line": n.lineno, "fn": where})
        if isinstance(n, ast.Call) and isinstance(n.func, ast.Attribute) and root_name(n.func) in aliases and n.func.attr in MUTATORS:
            out.append({"kind": "WGlobal", "what": "mutating call through the alias %s of non-local state: %s" % (root_name(n.func), ast.unparse(n)[:60]), "line": n.lineno, "fn": where})
        if isinstance(n, ast.Lambda):
            largs = {a.arg for a in n.args.args + n.args.kwonlyargs + n.args.posonlyargs}
            sub = ast.FunctionDef(name="<lambda>", args=n.args, body=[ast.Expr(n.body)], decorator_list=[], lineno=n.lineno)
            scan_writes(sub, conv_names, locs | largs, where + ".<lambda>", out, calls)
            return
        if isinstance(n, ast.Name) and isinstance(n.ctx, (ast.Store, ast.Del)) and n.id in glob:
            out.append({"kind": "WGlobal", "what": "global " + n.id, "line": n.lineno, "fn": where})
        if isinstance(n, (ast.Attribute, ast.Subscript)) and isinstance(n.ctx, (ast.Store, ast.Del)):
            r = root_name(n)
            if r in conv_names and r in locs:
                out.append({"kind": "WArg", "what": ast.unparse(n), "line": n.lineno, "fn": where})
            elif r is None or r not in locs:
                out.append({"kind": "WGlobal", "what": "store " + ast.unparse(n), "line": n.lineno, "fn": where})
        if isinstance(n, ast.Call):
            cn = call_name(n) or ""
            base = cn.split(".")[0] if cn else None
            meth = cn.split(".")[-1] if cn else None
            if cn in ("exec", "eval", "globals", "vars", "locals", "__import__"):
                raise Reject("%s() in %s (line %d)" % (cn, where, n.lineno))
            if cn in ("setattr", "delattr") and n.args:
                r = root_name(n.args[0])
                if r in conv_names and r in locs:
                    out.append({"kind": "WArg", "what": ast.unparse(n)[:80], "line": n.lineno, "fn": where})
                elif r is None or r not in locs:
                    out.append({"kind": "WGlobal", "what": ast.unparse(n)[:80], "line": n.lineno, "fn": where})
            elif isinstance(n.func, ast.Attribute):
                r = root_name(n.func)
                if r in conv_names and r in locs:
                    if meth.startswith("register"):
                        out.append({"kind": "WArg", "what": "%s.%s(...)" % (r, meth), "line": n.lineno, "fn": where})
                elif (r is None or r not in locs) and meth in MUTATORS:
                    out.append({"kind": "WGlobal", "what": "mutating call " + cn, "line": n.lineno, "fn": where})
                elif (r is None or r not in locs) and meth == "resolve_types":
                    out.append({"kind": "WGlobal", "what": "resolve_types outside the initialiser", "line": n.lineno, "fn": where})
                elif r is not None and r not in locs:
                    calls.add(cn)
            elif isinstance(n.func, ast.Name) and n.func.id not in locs:
                calls.add(cn)
        rec(n)

    for b in body_nodes:
        handle(b)


def main(out_v, out_json):
    src = open(HOOKS).read()
    mod = ast.parse(src)
    funcs = {n.name: n for n in mod.body if isinstance(n, ast.FunctionDef)}
    onces = [f for f in funcs.values() if any(is_resolve_call(n) for n in ast.walk(f))]
    if len(onces) != 1:
        raise Reject("expected exactly one module-level function calling resolve_types, found %s" % [f.name for f in onces])
    once = onces[0]
    if "register_hooks" not in funcs:
        raise Reject("register_hooks not found")
    reg = funcs["register_hooks"]
    tr = OnceTranslator(mod, once)
    prog = tr.run()

    # register_hooks must run the initialiser, unconditionally, before it touches the converter
    calls_once = False
    for st in reg.body:
        if is_doc(st):
            continue
        if isinstance(st, ast.Expr) and isinstance(st.value, ast.Call) and isinstance(st.value.func, ast.Name) and st.value.func.id == once.name:
            if st.value.args or st.value.keywords:
                raise Reject("the initialiser is called with arguments")
            calls_once = True
        break
    conv_param = reg.args.args[0].arg if reg.args.args else None
    if conv_param is None:
        raise Reject("register_hooks has no converter parameter")

    # transitive module-level callees of register_hooks
    todo, seen = [reg], []
    while todo:
        f = todo.pop()
        if any(f is g for g in seen):
            continue
        seen.append(f)
        for n in ast.walk(f):
            if isinstance(n, ast.Call) and isinstance(n.func, ast.Name) and n.func.id in funcs and funcs[n.func.id] is not once:
                todo.append(funcs[n.func.id])
    writes, calls = [], set()
    for f in seen:
        cp = f.args.args[0].arg if f.args.args else conv_param
        scan_writes(f, {cp, conv_param}, (), None, writes, calls)
    cmod = ast.parse(open(CONVS).read())
    gc = [n for n in cmod.body if isinstance(n, ast.FunctionDef) and n.name == "get_converter"]
    if len(gc) != 1:
        raise Reject("get_converter not found in converters.py")
    gcp = gc[0].args.args[0].arg if gc[0].args.args else "converter"
    scan_writes(gc[0], {gcp}, (), "converters.get_converter", writes, calls)
    # module-level statements of _hooks.py other than imports / defs / simple constants could also hold shared state;
    # they run once at import and are not part of any creation history.
    kinds = [w["kind"] for w in writes]

    def cinstr(op, arg):
        return "ICheck %d" % arg if op == "ICheck" else op
    v = ["(* generated by lib/x_once.py from %s — do not edit *)" % os.path.relpath(HOOKS, REPO),
         "From Coq Require Import List. Import ListNotations.", "From LSP Require Import Once.", "",
         "(* %s, flag %s, lock %s, namespace %s *)" % (once.name, tr.flags[0], tr.lock, ast.unparse(tr.map_expr)),
         "Definition once_prog : program := [%s]." % "; ".join(cinstr(op, arg) for op, arg, _ in prog),
         "Definition reg_calls_once : bool := %s." % ("true" if calls_once else "false"),
         "(* writes of register_hooks and its callees: %d on the converter argument, %d on module-level state%s *)"
         % (kinds.count("WArg"), kinds.count("WGlobal"), "".join("; " + w["what"] for w in writes if w["kind"] == "WGlobal")),
         "Definition reg_writes : list wtarget := [%s]." % "; ".join(kinds), ""]
    write_if_changed(out_v, "\n".join(v))
    info = {"program": [[op, arg] for op, arg, _ in prog], "lines": [l for _, _, l in prog], "once_fn": once.name, "flag": tr.flags[0],
            "lock": tr.lock, "map": ast.unparse(tr.map_expr), "calls_once": calls_once, "writes": writes,
            "library_calls": sorted(calls), "first_is_acquire": bool(prog) and prog[0][0] == "IAcquire"}
    write_if_changed(out_json, json.dumps(info, indent=1, sort_keys=True) + "\n")
    print("x_once: %s -> [%s]; %d WArg, %d WGlobal" % (once.name, "; ".join(cinstr(op, arg) for op, arg, _ in prog), kinds.count("WArg"), kinds.count("WGlobal")))


if __name__ == "__main__":
    try:
        main(sys.argv[1], sys.argv[2])
    except Reject as e:
        print("REJECT: %s" % e)
        sys.exit(3)
    except SyntaxError as e:
        print("REJECT: syntax error in source: %s" % e)
        sys.exit(3)
