"""x_pos — translate the comparison / repr methods of Position, Range, Location (lsprotocol/types.py) to Coq.

Fail-closed: anything outside the small grammar aborts with the construct named (exit 3).
Cross-checks the AST against the imported module: every comparison method found in the class __dict__ must be
either the function of the class body we translated or one that functools.total_ordering installed.
usage: x_pos.py <out.v>
"""
import ast
import functools
import json
import os
import sys

from vcommon import REPO, q

CLASSES = ["Position", "Range", "Location"]
OPS = {"__lt__": "Lt", "__le__": "Le", "__gt__": "Gt", "__ge__": "Ge", "__eq__": "Eq", "__ne__": "Ne"}
CMP = {ast.Lt: "Lt", ast.LtE: "Le", ast.Gt: "Gt", ast.GtE: "Ge", ast.Eq: "Eq", ast.NotEq: "Ne"}


class Reject(Exception):
    pass


def expr(e, self_, oth):
    if isinstance(e, ast.Attribute) and isinstance(e.value, ast.Name):
        if e.value.id == self_:
            return "(EAttr Self %s)" % q(e.attr)
        if e.value.id == oth:
            return "(EAttr Oth %s)" % q(e.attr)
    if isinstance(e, ast.Tuple):
        return "(ETup [%s])" % "; ".join(expr(x, self_, oth) for x in e.elts)
    if isinstance(e, ast.Compare) and len(e.ops) == 1 and type(e.ops[0]) in CMP:
        return "(ECmp %s %s %s)" % (CMP[type(e.ops[0])], expr(e.left, self_, oth), expr(e.comparators[0], self_, oth))
    if isinstance(e, ast.BoolOp):
        op = "EAnd" if isinstance(e.op, ast.And) else "EOr"
        vals = [expr(v, self_, oth) for v in e.values]
        r = vals[-1]
        for v in reversed(vals[:-1]):
            r = "(%s %s %s)" % (op, v, r)
        return r
    if isinstance(e, ast.UnaryOp) and isinstance(e.op, ast.Not):
        return "(ENot %s)" % expr(e.operand, self_, oth)
    if isinstance(e, ast.Constant) and isinstance(e.value, bool):
        return "(EBool %s)" % str(e.value).lower()
    if isinstance(e, ast.IfExp):
        return "(EIf %s %s %s)" % (expr(e.test, self_, oth), expr(e.body, self_, oth), expr(e.orelse, self_, oth))
    raise Reject("expression outside grammar: " + ast.unparse(e))


def method(fn):
    args = [a.arg for a in fn.args.args]
    if len(args) != 2 or fn.args.vararg or fn.args.kwarg or fn.args.kwonlyargs or fn.decorator_list:
        raise Reject("method signature: " + fn.name)
    self_, oth = args
    body = [s for s in fn.body if not (isinstance(s, ast.Expr) and isinstance(s.value, ast.Constant))]
    guard = None
    def is_guard_shape(g):
        return (isinstance(g, ast.If) and len(g.body) == 1 and isinstance(g.body[0], ast.Return)
                and isinstance(g.body[0].value, ast.Name) and g.body[0].value.id == "NotImplemented")
    if len(body) >= 2 and is_guard_shape(body[0]):
        g = body[0]
        ok = (isinstance(g, ast.If) and not g.orelse and len(g.body) == 1 and isinstance(g.body[0], ast.Return)
              and isinstance(g.body[0].value, ast.Name) and g.body[0].value.id == "NotImplemented"
              and isinstance(g.test, ast.UnaryOp) and isinstance(g.test.op, ast.Not)
              and isinstance(g.test.operand, ast.Call) and isinstance(g.test.operand.func, ast.Name)
              and g.test.operand.func.id == "isinstance" and len(g.test.operand.args) == 2
              and isinstance(g.test.operand.args[0], ast.Name) and g.test.operand.args[0].id == oth
              and isinstance(g.test.operand.args[1], ast.Name))
        if not ok:
            raise Reject("guard outside grammar in %s: %s" % (fn.name, ast.unparse(g)))
        guard = g.test.operand.args[1].id
        body = body[1:]
    return "{| m_guard := %s; m_body := %s |}" % ("Some %s" % q(guard) if guard else "None", block(body, fn.name, self_, oth))


def block(body, name, self_, oth):
    """a statement list in which every path ends in 'return <expr>':  [return e]  |  [if c: <block> (else: <block>)?] ++ <block>.
    'if c: B1' followed by the rest R is EIf c B1 R because B1 always returns (checked by translating it as a block);
    the condition's truth value is taken by bool_of (a non-bool result is Unsupported in the model: fail-closed)."""
    if not body:
        raise Reject("a path without return in " + name)
    s = body[0]
    if isinstance(s, ast.Return) and s.value is not None:
        return expr(s.value, self_, oth)        # statements after a return are dead code
    if isinstance(s, ast.If):
        then = block(s.body, name, self_, oth)
        rest = block(list(s.orelse) + body[1:], name, self_, oth) if not _always_returns(s.orelse) or not body[1:] else block(s.orelse, name, self_, oth)
        return "(EIf %s %s %s)" % (expr(s.test, self_, oth), then, rest)
    raise Reject("body outside grammar in %s: %s" % (name, ast.unparse(s)[:80]))


def _always_returns(stmts):
    if not stmts:
        return False
    s = stmts[0]
    if isinstance(s, ast.Return):
        return True
    if isinstance(s, ast.If):
        return (_always_returns(s.body) and _always_returns(s.orelse)) or _always_returns(stmts[1:])
    return False


def repr_parts(fn):
    args = [a.arg for a in fn.args.args]
    body = [s for s in fn.body if not (isinstance(s, ast.Expr) and isinstance(s.value, ast.Constant))]
    if len(args) != 1 or len(body) != 1 or not isinstance(body[0], ast.Return):
        raise Reject("__repr__ outside grammar")
    v = body[0].value
    if isinstance(v, ast.Constant) and isinstance(v.value, str):
        return "[RLit %s]" % q(v.value)
    if not isinstance(v, ast.JoinedStr):
        raise Reject("__repr__ is not an f-string: " + ast.unparse(v))
    parts = []
    for p in v.values:
        if isinstance(p, ast.Constant) and isinstance(p.value, str):
            parts.append("RLit %s" % q(p.value))
        elif (isinstance(p, ast.FormattedValue) and p.format_spec is None and isinstance(p.value, ast.Attribute)
              and isinstance(p.value.value, ast.Name) and p.value.value.id == args[0] and p.conversion in (-1, 114, 115)):
            parts.append("RAttr %s %s" % (q(p.value.attr), "ConvRepr" if p.conversion == 114 else "ConvStr"))
        else:
            raise Reject("f-string part outside grammar: " + ast.unparse(p))
    return "[%s]" % "; ".join(parts)


def main(out):
    path = os.path.join(REPO, "packages", "python", "lsprotocol", "types.py")
    tree = ast.parse(open(path).read())
    import lsprotocol.types as T  # noqa
    rows, info = [], {}
    for cn in CLASSES:
        nodes = [n for n in tree.body if isinstance(n, ast.ClassDef) and n.name == cn]
        if len(nodes) != 1:
            raise Reject("class %s not found exactly once" % cn)
        node = nodes[0]
        if node.bases or node.keywords:
            raise Reject("class %s has bases" % cn)
        decos = [ast.unparse(d) for d in node.decorator_list]
        total = False
        for d in decos:
            if d in ("functools.total_ordering", "total_ordering"):
                total = True
            elif d != "attrs.define":
                raise Reject("decorator outside grammar on %s: %s" % (cn, d))
        meths, rp, lines = [], "None", {}
        for s in node.body:
            if isinstance(s, ast.FunctionDef):
                if s.name in OPS:
                    meths.append("(%s, %s)" % (OPS[s.name], method(s)))
                    lines[s.name] = s.lineno
                elif s.name == "__repr__":
                    rp = "Some %s" % repr_parts(s)
                    lines[s.name] = s.lineno
                elif s.name.startswith("__") and s.name not in ("__init__",):
                    raise Reject("unmodelled special method %s.%s" % (cn, s.name))
        # runtime cross-check: where do the class's comparison methods really come from?
        cls = getattr(T, cn)
        for name in list(OPS) + ["__repr__"]:
            f = cls.__dict__.get(name)
            if f is None:
                if name in lines:
                    raise Reject("%s.%s is in the source but not in the class" % (cn, name))
                continue
            code = getattr(f, "__code__", None)
            if name in lines:
                if code is None or code.co_firstlineno != lines[name] or not code.co_filename.endswith("types.py"):
                    raise Reject("%s.%s was replaced at run time (origin %r)" % (cn, name, getattr(f, "__module__", None)))
            else:
                if not (total and getattr(f, "__module__", None) == "functools" and f.__name__.startswith("_")):
                    raise Reject("%s.%s present at run time with unmodelled origin %r" % (cn, name, getattr(f, "__qualname__", f)))
        if total:
            have = {OPS[k] for k in lines if k in OPS} & {"Lt", "Le", "Gt", "Ge"}
            if not have:
                raise Reject("total_ordering without an ordering method on " + cn)
        rows.append("{| c_name := %s; c_total := %s; c_meths := [%s]; c_repr := %s |}" % (q(cn), str(total).lower(), "; ".join(meths), rp))
        info[cn] = {"total_ordering": total, "methods": sorted(lines)}
    txt = ("(* generated by lib/x_pos.py from packages/python/lsprotocol/types.py — do not edit *)\n"
           "From Coq Require Import String List ZArith. Import ListNotations. Open Scope string_scope.\n"
           "From LSP Require Import Order.\n"
           "Definition classes : list clsd := [\n  %s]." % ";\n  ".join(rows)) + "\n"
    from vcommon import write_if_changed
    write_if_changed(out, txt)
    print(json.dumps(info))


if __name__ == "__main__":
    try:
        main(sys.argv[1])
    except Reject as e:
        print("REJECT: %s" % e)
        sys.exit(3)
