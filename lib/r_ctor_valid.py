"""strict validity (Python reference) exposed for the harness side: valid(mmv, t, j)"""
import strictpy

_B = {}


def valid(mmv, t, j):
    b = _B.get(id(mmv))
    if b is None:
        b = _B[id(mmv)] = strictpy.Strict(mmv)
    return b.valid(t, j)
