"""conv_props — shared machinery of the converter-behaviour properties C01 (round trip), C03 (typing), C14 (every union
alternative parses), C15 (extras ignored): the systematic per-site stream, the property oracles applied to the REAL
converter's results, and the attribution of a failing input to a (union type, leaf) site via the model's dispatch trace,
which is what known-findings entries are keyed by.
"""
import hashlib
import json
import os

import conv_stream as CS
import mmlib
import vcommon as V

OPAQUE = ("LSPAny", "LSPObject", "LSPArray")


def alts(mmv, t):
    """flatten nested or / alias-to-or into non-or alternatives"""
    if t["kind"] == "or":
        return [a for i in t["items"] for a in alts(mmv, i)]
    if t["kind"] == "reference" and t["name"] in mmv.A and t["name"] not in OPAQUE and mmv.A[t["name"]]["type"]["kind"] == "or":
        return alts(mmv, mmv.A[t["name"]]["type"])
    return [t]


def is_or(mmv, t):
    return t["kind"] == "or" or (t["kind"] == "reference" and t["name"] in mmv.A and t["name"] not in OPAQUE and mmv.A[t["name"]]["type"]["kind"] == "or")


def occurrences(mmv):
    """(structure, property, or-type, kind) for every place a structure property uses an `or` (directly, as array element, as map value)"""
    for sn in mmv.S:
        if sn == "LSPObject":
            continue
        for pn, p in mmv.flat(sn).items():
            t = p["type"]
            if is_or(mmv, t):
                yield sn, pn, t, "prop"
            if t["kind"] == "array" and is_or(mmv, t["element"]):
                yield sn, pn, t["element"], "elem"
            if t["kind"] == "map" and is_or(mmv, t["value"]):
                yield sn, pn, t["value"], "mapval"
            if t["kind"] == "or":
                for i in t["items"]:
                    if i["kind"] == "array" and is_or(mmv, i["element"]):
                        yield sn, pn, i["element"], "elem-in-or"


def short(t):
    k = t["kind"]
    if k in ("base", "reference"):
        return t["name"]
    if k == "array":
        return short(t["element"]) + "[]"
    if k == "stringLiteral":
        return repr(t["value"])
    return k


def site_stream(mmv, pkg, shapes=((0, 0), (1, 3))):
    """every union occurrence x every alternative x {minimal, near-maximal} value of that alternative in a minimal enclosing value;
    arrays get a heterogeneous element list when several alternatives exist; plus every request's result alternatives."""
    cases = []
    for sn, pn, t, kind in occurrences(mmv):
        if sn not in pkg["classes"]:
            continue
        base = mmv.value(mmlib.ref(sn), 0, 0, 0)
        al = alts(mmv, t)
        vals_by_alt = []
        for ai, a in enumerate(al):
            if a["kind"] == "base" and a["name"] == "null":
                vals = [None] if kind == "prop" else []
            else:
                vals = []
                for alt, depth in shapes:
                    v = mmv.value(a, 1, alt, depth)
                    if v not in vals:
                        vals.append(v)
            vals_by_alt.append(vals)
            for v in vals:
                j = dict(base)
                if kind == "prop":
                    j[pn] = v
                elif kind in ("elem", "elem-in-or"):
                    j[pn] = [v, v]
                else:
                    j[pn] = {"k": v}
                cases.append({"target": sn, "input": j, "kind": "site", "mmty": "(TRef %s)" % V.q(sn),
                              "site": "%s.%s:%s:alt%d=%s" % (sn, pn, kind, ai, short(a))})
        if kind in ("elem", "elem-in-or"):
            het = [vs[0] for vs in vals_by_alt if vs]
            if len(het) > 1:
                for order in (het, het[::-1]):
                    j = dict(base)
                    j[pn] = list(order)
                    cases.append({"target": sn, "input": j, "kind": "site-hetero", "mmty": "(TRef %s)" % V.q(sn),
                                  "site": "%s.%s:%s:heterogeneous" % (sn, pn, kind)})
    for r in mmv.doc["requests"]:
        names = pkg["methods"].get(r["method"])
        if not names or not names[1]:
            continue
        for ai, a in enumerate(alts(mmv, r["result"])):
            vals = [None] if (a["kind"] == "base" and a["name"] == "null") else [mmv.value(a, 1, 0, 0), mmv.value(a, 1, 1, 3)]
            for v in vals:
                cases.append({"target": names[1], "input": {"jsonrpc": "2.0", "id": 1, "result": v}, "kind": "site-result",
                              "mmty": "(resp_ty %s)" % V.q(r["method"]), "site": "%s.result:alt%d=%s" % (names[1], ai, short(a))})
        # heterogeneous result arrays (an `or` of arrays or an array of `or`)
        arrs = [a for a in alts(mmv, r["result"]) if a["kind"] == "array"]
        if len(arrs) > 1:
            pass  # different element types in one array are not valid for an `or` of arrays
        for a in arrs:
            if is_or(mmv, a["element"]):
                el = [mmv.value(x, 2, 0, 0) for x in alts(mmv, a["element"])]
                if len(el) > 1:
                    for order in (el, el[::-1]):
                        cases.append({"target": names[1], "input": {"jsonrpc": "2.0", "id": 1, "result": list(order)}, "kind": "site-hetero",
                                      "mmty": "(resp_ty %s)" % V.q(r["method"]), "site": "%s.result:heterogeneous" % names[1]})
    return cases


def alias_cases(mmv, pkg):
    """every type alias of the metamodel as a top-level target"""
    cases = []
    for an, a in mmv.A.items():
        if an == "LSPObject":
            continue
        for alt, depth in ((0, 0), (1, 2)):
            v = mmv.value(mmlib.ref(an), 0, alt, depth)
            cases.append({"target": an, "input": v, "kind": "alias-target", "mmty": "(TRef %s)" % V.q(an), "site": "alias:%s" % an})
    return cases


def unfl(j):
    if isinstance(j, dict):
        if set(j) == {"$f"}:
            return j["$f"][0] / j["$f"][1]
        return {k: unfl(v) for k, v in j.items()}
    if isinstance(j, list):
        return [unfl(x) for x in j]
    return j


def mod_null_eq(a, b):
    """b is a with, at most, explicit nulls added for absent object keys; nothing else may differ"""
    if isinstance(a, dict) and isinstance(b, dict):
        return all(k in b and mod_null_eq(a[k], b[k]) for k in a) and all(b[k] is None for k in b if k not in a)
    if isinstance(a, (list, tuple)) and isinstance(b, (list, tuple)):
        return len(a) == len(b) and all(mod_null_eq(x, y) for x, y in zip(a, b))
    if isinstance(a, bool) or isinstance(b, bool):
        return a is b
    if isinstance(a, (int, float)) and isinstance(b, (int, float)):
        return a == b
    return type(a) is type(b) and a == b


def judge(case, r):
    """which of C14 / C03 / C01 the REAL converter's result violates on a valid input: list of (property, detail)"""
    if not r["ok"]:
        return [("C14", "structuring raises %s: %s" % (r.get("err"), r.get("msg", ""))), ("C01", "structuring raises %s" % r.get("err"))]
    out = []
    if not r.get("typed", True):
        out.append(("C03", "ill-typed result: %s" % json.dumps(r.get("type_errors"))[:300]))
    if not r.get("unstr_ok"):
        out.append(("C01", "unstructuring raises %s" % r.get("err")))
    elif not mod_null_eq(case["input"], unfl(r["unstr"])):
        out.append(("C01", "re-serialised JSON differs from the input"))
        if case["kind"].startswith("site") or case["kind"] == "alias-target":
            out.append(("C14", "parsed as an alternative for which the value is not valid (content lost or changed)"))
    return out


def finding_keys(trace):
    return ["union=%s|leaf=%s" % (u.replace(" ", ""), p) for u, p in trace]


def run_stream(chk, cases, tag):
    """model/real correspondence + oracle verdicts + traces for failing cases. Returns (verdict codes, real results, failures)
    where failures = list of dict(case, props=[(prop, detail)], keys=[finding keys])."""
    verdict, real = CS.run_cases(cases, tag)
    failing = []
    for i, (c, r) in enumerate(zip(cases, real)):
        v = judge(c, r)
        if v:
            failing.append({"index": i, "case": c, "props": v})
    traces = CS.run_traces([f["case"] for f in failing], tag) if failing else []
    for f, t in zip(failing, traces):
        f["keys"] = finding_keys(t)
        if f["case"].get("kind") == "alias-target" and not f["keys"]:
            f["keys"] = ["alias-target=%s" % f["case"]["target"]]
    return verdict, real, failing
