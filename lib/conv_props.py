"""conv_props — shared machinery of the converter-behaviour properties C01 (round trip), C03 (typing), C14 (every union
alternative parses), C15 (extras ignored): the systematic per-site stream, the property oracles applied to the REAL
converter's results, and the attribution of a failing input to a (union type, leaf) site via the model's dispatch trace,
which is what known-findings entries are keyed by.
"""
import hashlib
import json
import os

import conv_stream as CS
import mmlib
import vcommon as V

OPAQUE = ("LSPAny", "LSPObject", "LSPArray")


def alts(mmv, t):
    """flatten nested or / alias-to-or into non-or alternatives"""
    if t["kind"] == "or":
        return [a for i in t["items"] for a in alts(mmv, i)]
    if t["kind"] == "reference" and t["name"] in mmv.A and t["name"] not in OPAQUE and mmv.A[t["name"]]["type"]["kind"] == "or":
        return alts(mmv, mmv.A[t["name"]]["type"])
    return [t]


def is_or(mmv, t):
    return t["kind"] == "or" or (t["kind"] == "reference" and t["name"] in mmv.A and t["name"] not in OPAQUE and mmv.A[t["name"]]["type"]["kind"] == "or")


def occurrences(mmv):
    """(structure, property, or-type, kind) for every place a structure property uses an `or` (directly, as array element, as map value)"""
    for sn in mmv.S:
        if sn == "LSPObject":
            continue
        for pn, p in mmv.flat(sn).items():
            t = p["type"]
            if is_or(mmv, t):
                yield sn, pn, t, "prop"
            if t["kind"] == "array" and is_or(mmv, t["element"]):
                yield sn, pn, t["element"], "elem"
            if t["kind"] == "map" and is_or(mmv, t["value"]):
                yield sn, pn, t["value"], "mapval"
            if t["kind"] == "or":
                for i in t["items"]:
                    if i["kind"] == "array" and is_or(mmv, i["element"]):
                        yield sn, pn, i["element"], "elem-in-or"


def short(t):
    k = t["kind"]
    if k in ("base", "reference"):
        return t["name"]
    if k == "array":
        return short(t["element"]) + "[]"
    if k == "stringLiteral":
        return repr(t["value"])
    return k


def single_optional_variants(mmv, a, limit=12):
    """for a structure-typed alternative: the minimal value plus exactly ONE optional property (each in turn, for every alternative of
    that property's own type) — key-presence dispatch in union hooks is sensitive to which optional members are there"""
    a = mmv.resolve_alias(a)
    if a["kind"] == "array":          # look through arrays and nested alternatives: [v] for every variant v of every element alternative
        out = []
        for x in alts(mmv, a["element"]):
            for v in single_optional_variants(mmv, x, limit):
                if [v] not in out:
                    out.append([v])
        return out[:limit * 4]
    if a["kind"] == "or":
        out = []
        for x in alts(mmv, a):
            out += [v for v in single_optional_variants(mmv, x, limit) if v not in out]
        return out[:limit * 4]
    if not (a["kind"] == "reference" and a["name"] in mmv.S):
        return []
    base = mmv.value(a, 1, 0, 0)
    if not isinstance(base, dict):
        return []
    out = []
    for pn, p in mmv.flat(a["name"]).items():
        if not p.get("optional") or pn in base:
            continue
        for alt in (0, 1, 2):
            try:
                v = dict(base)
                v[pn] = mmv.value(p["type"], 2, alt, 2)
            except Exception:
                continue
            if v not in out:
                out.append(v)
        if len(out) >= limit * 3:
            break
    return out


def site_stream(mmv, pkg, shapes=((0, 0), (1, 3), (2, 1), (3, 0), (3, 3), (4, 2), (5, 1)), single_optional=False):
    """every union occurrence x every alternative x {minimal, near-maximal} value of that alternative in a minimal enclosing value;
    arrays get a heterogeneous element list when several alternatives exist; plus every request's result alternatives."""
    cases = []
    for sn, pn, t, kind in occurrences(mmv):
        if sn not in pkg["classes"]:
            continue
        base = mmv.value(mmlib.ref(sn), 0, 0, 0)
        al = alts(mmv, t)
        vals_by_alt = []
        for ai, a in enumerate(al):
            if a["kind"] == "base" and a["name"] == "null":
                vals = [None] if kind == "prop" else []
            else:
                vals = []
                for alt, depth in shapes:
                    v = mmv.value(a, 1, alt, depth)
                    if v not in vals:
                        vals.append(v)
                if single_optional and len(al) > 1:
                    vals += [v for v in single_optional_variants(mmv, a) if v not in vals]
            vals_by_alt.append(vals)
            for v in vals:
                j = dict(base)
                if kind == "prop":
                    j[pn] = v
                elif kind in ("elem", "elem-in-or"):
                    j[pn] = [v, v]
                else:
                    j[pn] = {"k": v}
                cases.append({"target": sn, "input": j, "kind": "site", "mmty": "(TRef %s)" % V.q(sn),
                              "site": "%s.%s:%s:alt%d=%s" % (sn, pn, kind, ai, short(a))})
        if kind == "prop":
            for ai, a in enumerate(al):
                if a["kind"] == "array":
                    lo, hi = mmv.value(a["element"], 2, 0, 0), mmv.value(a["element"], 2, 1, 4)
                    if lo != hi:
                        for order in ([lo, hi], [hi, lo]):
                            j = dict(base)
                            j[pn] = order
                            cases.append({"target": sn, "input": j, "kind": "site-mixed", "mmty": "(TRef %s)" % V.q(sn),
                                          "site": "%s.%s:prop:alt%d=%s:mixed-shapes" % (sn, pn, ai, short(a))})
        if kind in ("elem", "elem-in-or"):
            het = [vs[0] for vs in vals_by_alt if vs]
            if len(het) > 1:
                for order in (het, het[::-1]):
                    j = dict(base)
                    j[pn] = list(order)
                    cases.append({"target": sn, "input": j, "kind": "site-hetero", "mmty": "(TRef %s)" % V.q(sn),
                                  "site": "%s.%s:%s:heterogeneous" % (sn, pn, kind)})
    # open enumerations are unions on the Python side (Union[Enum, base]): the base alternative carries CUSTOM values
    open_enums = {e["name"]: e for e in mmv.doc["enumerations"] if e.get("supportsCustomValues")}
    for sn in mmv.S:
        if sn == "LSPObject" or sn not in pkg["classes"]:
            continue
        for pn, p in mmv.flat(sn).items():
            t, wrap = p["type"], (lambda v: v)
            if t["kind"] == "array":
                t, wrap = t["element"], (lambda v: [v, v])
            elif t["kind"] == "map":
                t, wrap = t["value"], (lambda v: {"k": v})
            if not (t["kind"] == "reference" and t["name"] in open_enums):
                continue
            e = open_enums[t["name"]]
            vals = [v["value"] for v in e["values"]]
            if e["type"]["name"] == "string":
                customs = ["zz/custom.value", ""] if "" not in vals else ["zz/custom.value"]
                customs += [x for x in dict.fromkeys([v.upper() for v in vals[:2] if isinstance(v, str)] + [v.capitalize() for v in vals[:1] if isinstance(v, str)]) if x not in vals]
            else:
                ints = sorted(v for v in vals if isinstance(v, int))
                customs = [c for c in {max(ints) + 1, ints[0] + ints[-1] if len(ints) > 1 else ints[0] + 7, sum(ints), 2**31 - 1} if c not in vals and 0 <= c < 2**31]
            base = mmv.value(mmlib.ref(sn), 0, 0, 0)
            for cv in customs:
                j = dict(base)
                j[pn] = wrap(cv)
                cases.append({"target": sn, "input": j, "kind": "site", "mmty": "(TRef %s)" % V.q(sn),
                              "site": "%s.%s:open-enum-custom=%r" % (sn, pn, cv)})
    for r in mmv.doc["requests"]:
        names = pkg["methods"].get(r["method"])
        if not names or not names[1]:
            continue
        for ai, a in enumerate(alts(mmv, r["result"])):
            if a["kind"] == "base" and a["name"] == "null":
                vals = [None]
            else:
                vals = []
                for alt, depth in shapes:
                    v = mmv.value(a, 1, alt, depth)
                    if v not in vals:
                        vals.append(v)
                if single_optional:
                    if a["kind"] == "array":
                        vals += [[v] for v in single_optional_variants(mmv, a["element"]) if [v] not in vals]
                        if is_or(mmv, a["element"]):
                            for x in alts(mmv, a["element"]):
                                vals += [[v] for v in single_optional_variants(mmv, x) if [v] not in vals]
                    else:
                        vals += [v for v in single_optional_variants(mmv, a) if v not in vals]
            for v in vals:
                cases.append({"target": names[1], "input": {"jsonrpc": "2.0", "id": 1, "result": v}, "kind": "site-result",
                              "mmty": "(resp_ty %s)" % V.q(r["method"]), "site": "%s.result:alt%d=%s" % (names[1], ai, short(a))})
        # arrays whose elements are valid for the SAME alternative but look different (minimal next to near-maximal)
        for ai, a in enumerate(alts(mmv, r["result"])):
            if a["kind"] == "array":
                lo, hi = mmv.value(a["element"], 2, 0, 0), mmv.value(a["element"], 2, 1, 4)
                if lo != hi:
                    for order in ([lo, hi], [hi, lo]):
                        cases.append({"target": names[1], "input": {"jsonrpc": "2.0", "id": 1, "result": order}, "kind": "site-mixed",
                                      "mmty": "(resp_ty %s)" % V.q(r["method"]), "site": "%s.result:alt%d=%s:mixed-shapes" % (names[1], ai, short(a))})
        # heterogeneous result arrays (an `or` of arrays or an array of `or`)
        arrs = [a for a in alts(mmv, r["result"]) if a["kind"] == "array"]
        if len(arrs) > 1:
            pass  # different element types in one array are not valid for an `or` of arrays
        for a in arrs:
            if is_or(mmv, a["element"]):
                el = [mmv.value(x, 2, 0, 0) for x in alts(mmv, a["element"])]
                if len(el) > 1:
                    for order in (el, el[::-1]):
                        cases.append({"target": names[1], "input": {"jsonrpc": "2.0", "id": 1, "result": list(order)}, "kind": "site-hetero",
                                      "mmty": "(resp_ty %s)" % V.q(r["method"]), "site": "%s.result:heterogeneous" % names[1]})
    return cases


def probed_keys():
    """every key and literal any hook of the current package probes (from the translated hook table)"""
    import re as _re
    try:
        txt = open(os.path.join(V.GEN, "PkgData.v")).read()
        hooks_txt = txt[txt.index("Definition uhooks_"):txt.index("Definition Sg")]
    except Exception:
        return [], []
    keys = sorted(set(_re.findall(r'CHasKey "((?:[^"]|"")*)"', hooks_txt)) | set(_re.findall(r'HKey [^"]*"((?:[^"]|"")*)"', hooks_txt)))
    return keys, hooks_txt


def probe_subset_cases(mmv, pkg, cap=32):
    """The enumeration the adequacy proof of the hooks performs (HookFrag.cls_member_ok), as concrete VALID inputs: at every union
    occurrence, for every structure alternative, the minimal value plus EVERY subset of its optional members that some hook probes
    (so each (member class, probed key set) case of every hook has an input that reaches it on the real converter)."""
    import itertools
    keys, _ = probed_keys()
    keys = set(keys)
    cases = []

    def variants(a):
        a = mmv.resolve_alias(a)
        if a["kind"] == "array":
            return [[v] for x in alts(mmv, a["element"]) for v in variants(x)]
        if a["kind"] == "or":
            return [v for x in alts(mmv, a) for v in variants(x)]
        if not (a["kind"] == "reference" and a["name"] in mmv.S):
            return []
        base = mmv.value(a, 1, 0, 0)
        if not isinstance(base, dict):
            return []
        opt = [pn for pn, p in mmv.flat(a["name"]).items() if p.get("optional") and pn not in base and pn in keys]
        out = []
        for r in range(2, len(opt) + 1):          # sizes 0 and 1 are in the site stream already
            for sub in itertools.combinations(opt, r):
                v = dict(base)
                for pn in sub:
                    v[pn] = mmv.value(mmv.flat(a["name"])[pn]["type"], 2, 0, 2)
                out.append(v)
                if len(out) >= cap:
                    return out
        return out
    for sn, pn, t, kind in occurrences(mmv):
        if sn not in pkg["classes"]:
            continue
        base = mmv.value(mmlib.ref(sn), 0, 0, 0)
        for ai, a in enumerate(alts(mmv, t)):
            for v in variants(a):
                j = dict(base)
                j[pn] = v if kind == "prop" else ([v] if kind in ("elem", "elem-in-or") else {"k": v})
                cases.append({"target": sn, "input": j, "kind": "site", "mmty": "(TRef %s)" % V.q(sn),
                              "site": "%s.%s:%s:alt%d=%s:probed-subset" % (sn, pn, kind, ai, short(a))})
    for r in mmv.doc["requests"]:
        names = pkg["methods"].get(r["method"])
        if not names or not names[1]:
            continue
        for ai, a in enumerate(alts(mmv, r["result"])):
            for v in variants(a):
                cases.append({"target": names[1], "input": {"jsonrpc": "2.0", "id": 1, "result": v}, "kind": "site-result",
                              "mmty": "(resp_ty %s)" % V.q(r["method"]), "site": "%s.result:alt%d=%s:probed-subset" % (names[1], ai, short(a))})
    return cases


def hook_fuzz_cases(mmv, pkg, rng, per_union=16):
    """Differential fuzz of every union type the package dispatches on (registered hooks, cattrs' own disambiguators, Optional[...]):
    the union itself is the target; inputs are built from valid values of its member classes by dropping / adding / re-kinding the
    keys and literals that ANY hook probes, by wrapping into (mixed) arrays, plus primitives.  Most inputs are NOT valid for the union:
    the point is that model and real converter agree on every path of every hook (ok/raise, object graph, re-serialisation)."""
    import re as _re
    try:
        txt = open(os.path.join(V.GEN, "PkgData.v")).read()
        hooks_txt = txt[txt.index("Definition uhooks_"):txt.index("Definition Sg")]
    except Exception:
        hooks_txt = ""
    keys = sorted(set(_re.findall(r'CHasKey "((?:[^"]|"")*)"', hooks_txt)) | set(_re.findall(r'HKey [^"]*"((?:[^"]|"")*)"', hooks_txt)))
    lits = sorted(set(_re.findall(r'CEqStr \([^"]*"(?:[^"]|"")*"\) "((?:[^"]|"")*)"', hooks_txt)) | {"create", "x"})
    prims = [None, True, 0, 7, 1.5, "s", "", "create", [], {}, [1], ["a", "b"], [None], {"k": 1}]
    cases = []
    hooked = set(_re.findall(r'^  \(\((\(PyUnion \[.*?\]\))\), ', hooks_txt, _re.M))
    for u in pkg.get("unions", []):
        if per_union <= 16 and hooked and u not in hooked:
            continue            # quick tier: the unions with a registered hook or a cattrs disambiguator; thorough: every union type
        members = _re.findall(r'\(PyCls "((?:[^"]|"")*)"\)', u)
        vals = list(prims)
        objs = []
        for c in members:
            if c in mmv.S:
                for alt, depth in ((0, 0), (1, 3)):
                    try:
                        objs.append(mmv.value(mmlib.ref(c), 0, alt, depth))
                    except Exception:
                        pass
        objs = [o for o in objs if isinstance(o, dict)]
        for o in objs:
            vals.append(o)
            vals.append([o])
        for _ in range(per_union):
            if objs:
                o = dict(rng.choice(objs))
                for _e in range(rng.choice([1, 1, 2, 3])):
                    k = rng.choice(keys) if keys else "x"
                    r = rng.random()
                    if r < 0.3:
                        o.pop(k, None)
                    elif r < 0.55:
                        o[k] = rng.choice(prims + lits)
                    elif r < 0.75:
                        o[k] = rng.choice(objs)
                    elif r < 0.9 and isinstance(o.get(k), dict):
                        inner = dict(o[k])
                        k2 = rng.choice(keys)
                        if k2 in inner:
                            inner.pop(k2)
                        else:
                            inner[k2] = rng.choice(prims)
                        o[k] = inner
                    else:
                        o[k] = rng.choice(lits)
                shape = rng.random()
                vals.append(o if shape < 0.5 else ([o, rng.choice(objs)] if shape < 0.75 else [rng.choice(objs), o]))
            else:
                vals.append(rng.choice(prims))
        seen = set()
        for v in vals:
            kk = json.dumps(v, sort_keys=True)
            if kk in seen:
                continue
            seen.add(kk)
            cases.append({"target": u, "input": v, "kind": "hook-fuzz", "site": "hook-fuzz:" + u[:60]})
    return cases


def alias_cases(mmv, pkg):
    """every type alias of the metamodel as a top-level target"""
    cases = []
    for an, a in mmv.A.items():
        if an == "LSPObject":
            continue
        for alt, depth in ((0, 0), (1, 2)):
            v = mmv.value(mmlib.ref(an), 0, alt, depth)
            cases.append({"target": an, "input": v, "kind": "alias-target", "mmty": "(TRef %s)" % V.q(an), "site": "alias:%s" % an})
    return cases


def unfl(j):
    if isinstance(j, dict):
        if set(j) == {"$f"}:
            return j["$f"][0] / j["$f"][1]
        return {k: unfl(v) for k, v in j.items()}
    if isinstance(j, list):
        return [unfl(x) for x in j]
    return j


def mod_null_eq(a, b):
    """b is a up to the null rule: explicit nulls may be ADDED for absent object keys, and a key whose input value is an
    explicit null may be absent (Python's None cannot tell `"data": null` at an optional LSPAny property from an unset one —
    pinned reading, DESIGN.md C01); nothing else may differ.  Which keys must be written is decided by C10."""
    if isinstance(a, dict) and isinstance(b, dict):
        return all((k in b and mod_null_eq(a[k], b[k])) or (k not in b and a[k] is None) for k in a) and all(b[k] is None for k in b if k not in a)
    if isinstance(a, (list, tuple)) and isinstance(b, (list, tuple)):
        return len(a) == len(b) and all(mod_null_eq(x, y) for x, y in zip(a, b))
    if isinstance(a, bool) or isinstance(b, bool):
        return a is b
    if isinstance(a, (int, float)) and isinstance(b, (int, float)):
        return a == b
    return type(a) is type(b) and a == b


_STRICT = {}


def typed_eq(mmv, t, a, b, depth=0):
    """the re-serialised JSON b equals the input a up to the documented null rule, read against the metamodel type t:
    an absent null-admitting property may (must: C10) come back as null; an explicit null at an OPTIONAL property whose type does
    not admit null in the or/null sense (LSPAny) may be absent (pinned reading); nothing else may differ; at an `or` some
    alternative valid for a must relate a and b."""
    import strictpy
    st = _STRICT.setdefault(id(mmv), strictpy.Strict(mmv))
    k = t["kind"]

    def props_eq(ps):
        if not isinstance(a, dict) or not isinstance(b, dict):
            return False
        if not ps:
            return mod_null_eq(a, b)
        for pn, p in ps.items():
            na = mmv.null_adm(p["type"])
            if pn in a:
                if pn in b:
                    if not typed_eq(mmv, p["type"], a[pn], b[pn], depth + 1):
                        return False
                elif not (a[pn] is None and p.get("optional") and not na):
                    return False
            elif pn in b and not (na and b[pn] is None):
                return False
        return all(x in ps for x in b)
    if k == "reference":
        n = t["name"]
        if n in ("LSPAny", "LSPObject", "LSPArray"):
            return mod_null_eq(a, b) and mod_null_eq(b, a)
        if n in mmv.S:
            return props_eq(mmv.flat(n))
        if n in mmv.A:
            return typed_eq(mmv, mmv.A[n]["type"], a, b, depth)
        return mod_null_eq(a, b)
    if k == "array":
        return isinstance(a, list) and isinstance(b, list) and len(a) == len(b) and all(typed_eq(mmv, t["element"], x, y, depth + 1) for x, y in zip(a, b))
    if k == "map":
        return isinstance(a, dict) and isinstance(b, dict) and set(a) == set(b) and all(typed_eq(mmv, t["value"], a[x], b[x], depth + 1) for x in a)
    if k == "tuple":
        return isinstance(a, list) and isinstance(b, list) and len(a) == len(b) and all(typed_eq(mmv, x, y, z, depth + 1) for x, y, z in zip(t["items"], a, b))
    if k == "or":
        return any(st.valid(i, a) and typed_eq(mmv, i, a, b, depth) for i in t["items"])
    if k == "literal":
        return props_eq({p["name"]: p for p in t["value"]["properties"]})
    if k == "and":
        ps = {}
        for i in t["items"]:
            for kk, vv in mmv.flat(i["name"]).items():
                ps.setdefault(kk, vv)
        return props_eq(ps)
    return mod_null_eq(a, b) and mod_null_eq(b, a)


def envelope_type(kind, entry):
    """the JSON-RPC envelope of a message as a literal type (all envelope properties required: they are always written)"""
    ID = {"kind": "or", "items": [{"kind": "base", "name": "integer"}, {"kind": "base", "name": "string"}]}
    ps = [{"name": "jsonrpc", "type": {"kind": "stringLiteral", "value": "2.0"}}]
    if kind in ("request", "response"):
        ps.append({"name": "id", "type": ID})
    if kind != "response":
        ps.append({"name": "method", "type": {"kind": "stringLiteral", "value": entry["method"]}})
        if "params" in entry:
            ps.append({"name": "params", "type": entry["params"]})
    else:
        ps.append({"name": "result", "type": entry["result"]})
    return {"kind": "literal", "value": {"properties": ps}}


def _snake(n):
    import re
    return re.sub(r"([a-z0-9])([A-Z])", r"\1_\2", re.sub(r"(.)([A-Z][a-z]+)", r"\1_\2", n)).lower()


def alt_errors(mmv, strict, t, j, d, path, errs):
    """C03, second half: wherever the real result holds an INSTANCE of a structure class at a union position, the JSON value at that
    position must be valid for that structure (an instance of an alternative the input is not valid for is a violation even when
    the object graph is well-typed).  Walks metamodel type / input JSON / dumped object graph in parallel."""
    if len(errs) > 3:
        return
    k = t["kind"]
    if k == "reference" and t["name"] in mmv.A and t["name"] not in OPAQUE:
        return alt_errors(mmv, strict, mmv.A[t["name"]]["type"], j, d, path, errs)
    if k == "or":
        al = alts(mmv, t)
        if isinstance(d, dict) and "$c" in d:
            cn = d["$c"]
            named = [a for a in al if a["kind"] == "reference" and a["name"] == cn]
            if named:
                if not strict.valid(named[0], j):
                    errs.append("%s: result is an instance of %s but the input value is not a valid %s" % (path, cn, cn))
                    return
                return alt_errors(mmv, strict, named[0], j, d, path, errs)
            return          # class generated for an anonymous literal / and-type: its name is not specified
        if isinstance(d, list) and isinstance(j, list):
            for a in al:
                if a["kind"] == "array" and strict.valid(a, j):
                    return alt_errors(mmv, strict, a, j, d, path, errs)
        return
    if k == "reference" and t["name"] in mmv.S and isinstance(j, dict) and isinstance(d, dict) and d.get("$c") == t["name"]:
        fs = d.get("f") or {}
        for pn, p in mmv.flat(t["name"]).items():
            if pn in j:
                an = _snake(pn)
                an = an if an in fs else (an + "_" if an + "_" in fs else None)
                if an is not None and fs[an] is not None:
                    alt_errors(mmv, strict, p["type"], j[pn], fs[an], path + "." + pn, errs)
        return
    if k == "array" and isinstance(j, list) and isinstance(d, list) and len(j) == len(d):
        for i, (x, y) in enumerate(zip(j, d)):
            alt_errors(mmv, strict, t["element"], x, y, "%s[%d]" % (path, i), errs)
        return
    if k == "map" and isinstance(j, dict) and isinstance(d, dict) and "$d" in d:
        dd = {kk if isinstance(kk, str) else json.dumps(kk): vv for kk, vv in d["$d"]}
        for kk, vv in j.items():
            if kk in dd:
                alt_errors(mmv, strict, t["value"], vv, dd[kk], "%s{%s}" % (path, kk), errs)
        return
    if k == "literal" and isinstance(j, dict) and isinstance(d, dict) and "$c" in d:
        fs = d.get("f") or {}
        for p in t["value"]["properties"]:
            pn = p["name"]
            if pn in j:
                an = _snake(pn)
                an = an if an in fs else (an + "_" if an + "_" in fs else None)
                if an is not None and fs[an] is not None:
                    alt_errors(mmv, strict, p["type"], j[pn], fs[an], path + "." + pn, errs)


_STRICT = {}


def judge(case, r):
    """which of C14 / C03 / C01 the REAL converter's result violates on a valid input: list of (property, detail)"""
    if not r["ok"]:
        return [("C14", "structuring raises %s: %s" % (r.get("err"), r.get("msg", ""))), ("C01", "structuring raises %s" % r.get("err"))]
    out = []
    if not r.get("typed", True):
        out.append(("C03", "ill-typed result: %s" % json.dumps(r.get("type_errors"))[:300]))
    elif case.get("pytype") is not None and case.get("_mmv") is not None:
        import strictpy
        mmv = case["_mmv"]
        st = _STRICT.setdefault(id(mmv), strictpy.Strict(mmv))
        errs = []
        try:
            alt_errors(mmv, st, case["pytype"], case["input"], r.get("dump"), case["target"], errs)
        except Exception as e:  # the oracle must never take the check down
            errs = []
        if errs:
            out.append(("C03", "well-typed but wrong alternative: " + "; ".join(errs)[:300]))
    if not r.get("unstr_ok"):
        out.append(("C01", "unstructuring raises %s" % r.get("err")))
    elif not (typed_eq(case["_mmv"], case["pytype"], case["input"], unfl(r["unstr"])) if case.get("pytype") is not None and case.get("_mmv") is not None
              else mod_null_eq(case["input"], unfl(r["unstr"]))):
        out.append(("C01", "re-serialised JSON differs from the input"))
        if case["kind"].startswith("site") or case["kind"] == "alias-target":
            out.append(("C14", "parsed as an alternative for which the value is not valid (content lost or changed)"))
    return out


def finding_keys(trace):
    return ["union=%s|leaf=%s" % (u.replace(" ", ""), p) for u, p in trace]


def attach_types(mmv, cases):
    """metamodel type of each case's target (from its mmty tag), for the type-directed round-trip oracle"""
    import re
    byreq = {r["method"]: r for r in mmv.doc["requests"]}
    byntf = {r["method"]: r for r in mmv.doc["notifications"]}
    for c in cases:
        m = re.match(r'\((TRef|resp_ty|req_ty|notif_ty) "((?:[^"]|"")*)"\)$', c.get("mmty") or "")
        if not m:
            continue
        kind, name = m.group(1), m.group(2).replace('""', '"')
        c["_mmv"] = mmv
        if kind == "TRef":
            c["pytype"] = mmlib.ref(name)
        elif kind == "resp_ty" and name in byreq:
            c["pytype"] = envelope_type("response", byreq[name])
        elif kind == "req_ty" and name in byreq:
            c["pytype"] = envelope_type("request", byreq[name])
        elif kind == "notif_ty" and name in byntf:
            c["pytype"] = envelope_type("notification", byntf[name])


def run_stream(chk, cases, tag, model=True):
    """model/real correspondence + oracle verdicts + traces for failing cases. Returns (verdict codes, real results, failures)
    where failures = list of dict(case, props=[(prop, detail)], keys=[finding keys])."""
    verdict, real = CS.run_cases(cases, tag, model=model)
    failing = []
    for i, (c, r) in enumerate(zip(cases, real)):
        if c.get("kind") == "hook-fuzz":
            continue            # not valid inputs: only model = real is demanded of them (the correspondence verdict)
        v = judge(c, r)
        if v:
            failing.append({"index": i, "case": c, "props": v})
    traces = CS.run_traces([f["case"] for f in failing], tag) if (failing and model) else [[] for _ in failing]
    for f, t in zip(failing, traces):
        f["keys"] = finding_keys(t)
        # the real converter names the union type it has no handler for: attribute the failure to it even without a model trace
        for u in (real[f["index"]].get("no_handler") or []):
            k = "union=%s|leaf=no-handler" % u.replace(" ", "")
            if k not in f["keys"]:
                f["keys"].append(k)
        if f["case"].get("kind") == "alias-target" and not f["keys"]:
            f["keys"] = ["alias-target=%s" % f["case"]["target"]]
    return verdict, real, failing


def rand_cases(mmv, pkg, rng, n_struct=1, n_msg=1):
    """seeded random valid values: every structure, every request / response / notification"""
    cases = []
    for sn in mmv.S:
        if sn == "LSPObject" or sn not in pkg["classes"]:
            continue
        for _ in range(n_struct):
            cases.append({"target": sn, "input": mmv.rand(mmlib.ref(sn), rng, 0, rng.choice([1, 2, 3])), "kind": "valid-rand",
                          "mmty": "(TRef %s)" % V.q(sn), "site": "random:%s" % sn})
    for kind, r in mmv.messages():
        names = pkg["methods"].get(r["method"])
        if not names:
            continue
        m = r["method"]
        for _ in range(n_msg):
            if kind == "request":
                j = {"jsonrpc": "2.0", "id": rng.choice([1, "x", 2**31 - 1, -2**31]), "method": m}
                if "params" in r:
                    j["params"] = mmv.rand(r["params"], rng, 1, 3)
                cases.append({"target": names[0], "input": j, "kind": "valid-msg", "mmty": "(req_ty %s)" % V.q(m), "site": "random:%s" % names[0]})
                if names[1]:
                    cases.append({"target": names[1], "input": {"jsonrpc": "2.0", "id": rng.choice([1, "id"]), "result": mmv.rand(r["result"], rng, 1, 3)},
                                  "kind": "valid-msg", "mmty": "(resp_ty %s)" % V.q(m), "site": "random:%s" % names[1]})
            else:
                j = {"jsonrpc": "2.0", "method": m}
                if "params" in r:
                    j["params"] = mmv.rand(r["params"], rng, 1, 3)
                cases.append({"target": names[0], "input": j, "kind": "valid-msg", "mmty": "(notif_ty %s)" % V.q(m), "site": "random:%s" % names[0]})
    return cases


def sys_cases(mmv, pkg):
    cases = []
    for sn in mmv.S:
        if sn == "LSPObject" or sn not in pkg["classes"]:
            continue
        for alt, depth in ((0, 0), (1, 3), (2, 2)):
            cases.append({"target": sn, "input": mmv.value(mmlib.ref(sn), 0, alt, depth), "kind": "valid-sys", "mmty": "(TRef %s)" % V.q(sn),
                          "site": "systematic:%s:alt%d" % (sn, alt)})
    return cases


def check_property(chk, prop, streams, extra_gen=()):
    """Common body of the C01 / C03 / C14 checks.  streams: subset of {'site','alias','sys','rand'}."""
    import random
    rng = random.Random(chk.seed)
    chk.trusted = V.STD_TRUSTED + ["translators x_mm, x_pkg, x_known (known_findings.txt -> Gen/Known.v)",
                                   "hand-written converter model LSP.Sem (cattrs dispatch, make_dict_(un)structure_fn, attrs __init__/validators, Enum call, hook DSL), validated by the correspondence stream — not verified",
                                   "the oracle applied to the real converter's results: valid inputs come from an independent metamodel-driven generator and are certified by MM.valid_b inside Coq"]
    mmv = mmlib.MMView()
    opens, _fixed = V.known_findings(prop)
    known_keys = {o["key"].replace("~", ""): o for o in opens}
    with V.build_lock():
        ok, fails = CS.build_conv(chk)
        kn = os.path.join(V.GEN, "Known.v")
        p = V.run_py("x_known.py", [kn])
        chk.obligation("translate:x_known", p.returncode == 0, (p.stdout + p.stderr)[-200:])
        if ok and p.returncode == 0:
            proved, f2 = V.prove(chk, prop, [kn] + [os.path.join(V.GEN, g) for g in extra_gen], extra_props=("Cover",))
            for n in V.theorems_in(os.path.join(V.PROPS_OUT, "Cover.v")):
                if not any(x[0] == "proof" and x[1].startswith("Cover.") for x in f2):
                    chk.obligation("Cover." + n, True)
            try:
                ce = json.load(open(os.path.join(V.VERIF, "cover_expected.json")))
                chk.extra["proved_roundtrip_coverage"] = {
                    "theorem": "Cover.covered_parse_roundtrip (LSP.HookFrag.covered_roundtrip): for every covered annotation P and every Python-valid JSON value j: structure parses j into a value of type P that unstructures to j up to null-valued members",
                    "classes_covered_expected": len(ce["base_classes"]) - len(ce["uncovered_classes"]), "classes_total": len(ce["base_classes"]),
                    "uncovered_classes_expected": ce["uncovered_classes"],
                    "pinned_by": "Cover.cover_not_shrunk (a base class / hooked union that leaves the covered set breaks the proof)"}
            except Exception:
                pass
            fails += f2
            if not proved:
                try:
                    chk.extra["missing_handlers"] = [{"class": c, "attribute": f, "unions": us} for c, f, us in disp_explain()][:40]
                except Exception as e:  # best effort
                    chk.extra["missing_handlers_explain_failed"] = str(e)[-300:]
        elif p.returncode != 0:
            fails.append(("translator", "x_known", (p.stdout + p.stderr)[-800:]))
        pkg = CS.load_pkg(mmv) if ok else dict(CS.load_pkg(mmv), fallback=True)
        cases = []
        if "site" in streams:
            cases += site_stream(mmv, pkg, single_optional=True)
            if ok:
                cases += probe_subset_cases(mmv, pkg)
        if "alias" in streams:
            cases += alias_cases(mmv, pkg)
        if "sys" in streams:
            cases += sys_cases(mmv, pkg)
        if "rand" in streams:
            n = 1 if chk.tier == "quick" else 12
            cases += rand_cases(mmv, pkg, rng, n, n)
        if "hookfuzz" in streams and ok:
            cases += hook_fuzz_cases(mmv, pkg, rng, 8 if chk.tier == "quick" else 60)
        attach_types(mmv, cases)
        verdict, real, failing = run_stream(chk, cases, prop, model=ok)
    dist = {}
    for c in cases:
        dist[c["kind"]] = dist.get(c["kind"], 0) + 1
        chk.count((c["target"], json.dumps(c["input"], sort_keys=True)))
    chk.extra["input_distribution"] = dist
    chk.extra["traces_validated_against_impl"] = len(cases)
    nbad = sum(1 for v in verdict if v)
    chk.obligation("correspondence:Sem-vs-real-converter", nbad == 0, "%d cases, %d disagreements (codes: %s)" % (len(cases), nbad, sorted({v for v in verdict if v})))
    if nbad:
        i = [k for k, v in enumerate(verdict) if v][0]
        fails.append(("correspondence", "LSP.Sem vs converter", json.dumps({"case": {k: v for k, v in cases[i].items() if k in ("target", "input", "kind", "site")}, "code": verdict[i], "impl_ok": real[i]["ok"]})[:1500]))
    if cases:
        chk.sample({"target": cases[0]["target"], "site": cases[0].get("site"), "input": cases[0]["input"]})
        chk.sample({"target": cases[-1]["target"], "site": cases[-1].get("site"), "input": cases[-1]["input"]})
    # attribute failures of THIS property
    unknown, hit = [], {}
    for f in failing:
        mine = [d for p_, d in f["props"] if p_ == prop]
        if not mine:
            continue
        keys = [k.replace("~", "") for k in f.get("keys", [])]
        if f["case"].get("kind") == "alias-target":
            keys.append("alias-target=%s" % f["case"]["target"])
        k = next((k for k in keys if k in known_keys), None)
        if k is None and not ok:
            # model unavailable (translator rejected): no dispatch trace.  A failure that passes through the union of a recorded
            # finding is attributed to it (the broken translation is reported by itself, so nothing is hidden by this)
            for u in (real[f["index"]].get("fail_unions") or []):
                pre = "union=%s|" % u.replace(" ", "")
                k = next((kk for kk in known_keys if kk.startswith(pre)), None)
                if k:
                    break
        if k:
            hit.setdefault(k, f)
        else:
            unknown.append((f, mine, keys))
    # known findings: re-confirm each witness on the real code, print it once
    for k, o in known_keys.items():
        if k in hit:
            chk.known("%s [%s]" % (o["text"][:160], o["key"]))
        else:
            w = confirm_witness(prop, o)
            if w:
                chk.known("%s [%s]" % (o["text"][:160], o["key"]))
            else:
                chk.extra.setdefault("stale_known_findings", []).append(o["key"])
    chk.extra["failing_inputs_attributed_to_known_findings"] = len(hit)
    # inputs that already fail in stream order were judged (and attributed) above: the order passes look at the others only
    stream_failures = {f["index"] for f in failing if any(p_ == prop for p_, _ in f["props"])}
    if unknown:
        f, mine, keys = unknown[0]
        chk.violation({"property": prop, "kind": "real converter violates the property on a metamodel-valid input",
                       "input": {"target": f["case"]["target"], "json": f["case"]["input"], "site": f["case"].get("site")}, "what": mine,
                       "missing_handlers": chk.extra.get("missing_handlers"),
                       "dispatch_trace_keys": keys, "others": [{"site": u[0]["case"].get("site"), "what": u[1][0][:120]} for u in unknown[1:15]],
                       "all_unlisted": [{"site": u[0]["case"].get("site"), "target": u[0]["case"]["target"], "keys": u[2]} for u in unknown[:400]],
                       "broken": [x[:2] for x in fails]})
    elif (fails or prop == "C01") and (hist := history_search(prop, [c for i, c in enumerate(cases) if i not in stream_failures])) is not None:
        # no single input fails in the order of the stream, but the converter's answers depend on what it handled BEFORE
        chk.violation({"property": prop, "kind": "real converter violates the property on a metamodel-valid input after a history of other inputs",
                       "input": {"target": hist["case"]["target"], "json": hist["case"]["input"], "site": hist["case"].get("site"),
                                 "history": [{"target": h["target"], "json": h["input"]} for h in hist["history"]]},
                       "what": hist["what"], "broken": [x[:2] for x in fails],
                       "note": "one converter: structure + unstructure the history entries in order, then the input"})
    elif fails:
        chk.violation({"property": prop, "kind": "obligation no longer checks", "broken": [{"what": a, "name": b, "detail": c} for a, b, c in fails],
                       "missing_handlers": chk.extra.get("missing_handlers"),
                       "searched": "%d metamodel-valid inputs (distribution %s) on the real converter: no unlisted failure" % (len(cases), dist)}, no_input=True)


def disp_explain():
    """fields whose type meets a union without handler: [(class, attribute, [union strings])] (model side, vm_compute)"""
    import re
    pkg = json.load(open(os.path.join(V.GEN, "pkg.json")))
    outs = V.coq_eval("ExplainDisp", "From LSP Require Import Base Sem Disp Trace.\nFrom Gen Require Import PkgData.\n",
                      ["map (fun x => (fst (fst x), snd (fst x), map (fun t => index_of t union_table) (snd x))) (fields_missing Sg)"])
    res = []
    for c, f, idx in re.findall(r'\(\s*"([^"]*)"\s*,\s*"([^"]*)"\s*,\s*\[([^\]]*)\]\s*\)', outs[0]):
        us = [pkg["unions"][int(i)] if int(i) < len(pkg["unions"]) else "<not in table>" for i in re.findall(r"\d+", idx)]
        res.append((c, f, us))
    return res


def confirm_witness(prop, o):
    """does the recorded witness of an open finding still fail on the real code?"""
    try:
        w = json.load(open(os.path.join(V.VERIF, o["witness"])))
    except Exception:
        return False
    key = o["key"]
    ent = None
    if key.startswith("alias-target=") and isinstance(w, dict):
        ent = w.get(key[len("alias-target="):])
    elif isinstance(w, dict) and "target" in w:
        ent = w
    elif isinstance(w, dict):
        ent = w.get(key)
    if not ent:
        return False
    c = {"target": ent["target"], "input": ent["input"], "kind": "witness"}
    r = CS.real_run([{"target": c["target"], "input": c["input"]}])["results"][0]
    return any(p_ == prop for p_, _ in judge(dict(c, kind="site"), r))


def history_search(prop, cases, budget=14):
    """When obligations broke but no input fails in stream order: run the real converter on the same valid inputs in other orders
    (reversed, rotated) — every case is a fresh judgement, so a failure here means the result depends on the converter's history.
    The failing order is then cut down to a short history (prefix bisection, then greedy removal)."""
    import copy as _copy
    valid_cases = [c for c in cases if c.get("kind") != "hook-fuzz"]
    if not valid_cases:
        return None

    def fails_in(order):
        try:
            real = CS.real_run(order)["results"]
        except Exception:
            return None
        for i, (c, r) in enumerate(zip(order, real)):
            mine = [d for p_, d in judge(c, r) if p_ == prop]
            if mine:
                return i, mine
        return None
    n = len(valid_cases)
    for order in (list(reversed(valid_cases)), valid_cases[n // 2:] + valid_cases[:n // 2], valid_cases[n // 3:] + valid_cases[:n // 3]):
        hit = fails_in(order)
        if hit is None:
            continue
        i, mine = hit
        target = order[i]
        hist = order[:i]
        # the target alone must pass (otherwise it would have failed in stream order too)
        if fails_in([target]) is not None:
            return {"case": target, "history": [], "what": mine}
        # shrink the history: keep halves while the failure persists
        runs = 0
        while len(hist) > 1 and runs < budget:
            runs += 1
            half = len(hist) // 2
            a, b = hist[:half], hist[half:]
            if (h := fails_in(b + [target])) is not None and h[0] == len(b):
                hist = b
            elif (h := fails_in(a + [target])) is not None and h[0] == len(a):
                hist = a
            else:
                break
        # greedy single removals on what is left (bounded)
        j = 0
        while j < len(hist) and len(hist) <= 40 and runs < budget + 40:
            runs += 1
            cand = hist[:j] + hist[j + 1:]
            h = fails_in(cand + [target])
            if h is not None and h[0] == len(cand):
                hist = cand
            else:
                j += 1
        return {"case": target, "history": hist[-60:], "what": mine}
    return None


def replay_property(prop, path):
    r = json.load(open(path))
    inp = r.get("input")
    if not inp:
        print("no concrete input recorded")
        return 1
    c = {"target": inp["target"], "input": inp["json"], "kind": "site"}
    if inp.get("history"):
        order = [{"target": h["target"], "input": h["json"], "kind": "site"} for h in inp["history"]] + [c]
        for x in order:
            attach_types(mmlib.MMView(), [x]) if False else None
        res = CS.real_run(order)["results"][-1]
        mmv = mmlib.MMView()
        c["mmty"] = "(TRef %s)" % V.q(c["target"]) if c["target"] in mmv.S else None
        attach_types(mmv, [c])
        v = [d for p_, d in judge(c, res) if p_ == prop]
        print("still violates after the recorded history:" if v else "no longer violates", v[:2])
        return 1 if v else 0
    res = CS.real_run([c])["results"][0]
    v = [d for p_, d in judge(c, res) if p_ == prop]
    print("still violates:" if v else "no longer violates", v[:2])
    return 1 if v else 0
