"""c18_history — the PROCESS-HISTORY stream of property C18 (the schema gate): generator.__main__.main called SEVERAL times in ONE
process while the model files change on disk between the calls.

C18 says "invalid models write nothing": whatever ran before in the process, a call of the generator command on a model file
that violates the metamodel schema raises before any plugin output is written, and a call on valid files hands the plugin the
model of the documents that are on disk NOW.  The gate stream of the check starts a fresh `python -m generator` per input and
therefore cannot see state kept between calls (a cache keyed on the path, a module-level list of already validated files, a
schema object mutated by a run).  A history is a list of steps; a step rewrites some files of a scratch directory and then
calls main(["--model", <files>, "--plugin", P, "--output-dir", <fresh dir>, "--test-dir", <fresh dir>]).  All steps of a
history run in one interpreter (a fresh one per history, so histories do not disturb each other); nothing of the repository is
patched or mocked.  Recorded per step: the exception (if any), how often the recording plugin lib/c18_hplugin.py was called
and with which model (read back), and the files found in the two fresh directories.
Histories (plans): valid then invalid at the SAME path (one per invalid edit); invalid, valid, invalid again; valid, another
valid document, the first again (the plugin must see the document of the step); two paths P and Q whose roles are swapped; two
files in one call, the second / first rewritten, the order swapped; valid then invalid with the real python plugin.
Oracle (the property's, not the code's): a step whose documents are all valid under the real jsonschema with root MetaModel
(and load on their own) must run the plugin once, on a model that reads back as the concatenation of the documents on disk;
a step with a schema-violating document must raise, must not call the plugin and must leave both directories empty.
usage as the in-process driver (run by run_history under the repository's interpreter): c18_history.py < history.json
"""
import concurrent.futures
import copy
import json
import os
import sys

STUB = "c18_hplugin"
LISTS = ["requests", "notifications", "structures", "enumerations", "typeAliases"]


# ------------------------------------------------------------------------------------------------ plans
def plans(quick=True, committed=None):
    """[{"label", "plugin", "steps": [{"write": {file name: document}, "models": [file name, ...]}, ...]}]"""
    import c18_docs as D
    fd = dict(D.feature_docs())
    v0 = D.invalid_base()                      # the (valid) base document of the single schema-violating edits
    inv = {k: d for k, d in D.invalid_edits() if isinstance(d, dict)}
    ext = dict(D.invalid_extensions())
    first = ["missing-result", "wrong-type-sinceTags-items", "type-is-string", "unknown-property-root"]
    pick = first if quick else first + [k for k in inv if k not in first]
    out = []

    def h(label, steps, plugin=STUB):
        out.append({"label": label, "plugin": plugin, "steps": copy.deepcopy(steps)})

    def st(models, **write):
        return {"write": {k + ".json": v for k, v in write.items()}, "models": [m + ".json" for m in models]}
    for k in pick:
        h("valid-then-invalid:" + k, [st(["P"], P=v0), st(["P"], P=inv[k])])
    for k in (pick[:2] if quick else pick):
        h("invalid-valid-invalid:" + k, [st(["P"], P=inv[k]), st(["P"], P=v0), st(["P"], P=inv[k])])
    h("valid-then-other-valid", [st(["P"], P=v0), st(["P"], P=fd["or"]), st(["P"], P=v0)])
    h("two-paths", [st(["P"], P=v0, Q=inv["missing-result"]), st(["Q"]), st(["P"], P=inv["missing-result"], Q=v0), st(["Q"])])
    h("two-files-one-call", [st(["P", "Q"], P=fd["enumerations"], Q=fd["base"]), st(["P", "Q"], Q=ext["ext-metaData-version-number"]),
                             st(["Q", "P"], Q=fd["base"]), st(["Q", "P"], P=inv["missing-result"]), st(["Q", "P"], P=fd["or"])])
    if committed is not None:      # the real python plugin needs the whole model (LSPObject, LSPAny, ...): the committed document, then one required key removed
        big = copy.deepcopy(committed)
        del big["requests"][0]["result"]
        h("python-plugin:valid-then-invalid", [st(["P"], P=committed), st(["P"], P=big)], plugin="python")
    return out


# ------------------------------------------------------------------------------------------------ running (outer side)
def run_history(h):
    import vcommon as V
    p = V.run_py("c18_history.py", input_=json.dumps({"plugin": h["plugin"], "steps": h["steps"]}), timeout=1800)
    if p.returncode != 0:
        raise RuntimeError("c18_history driver failed on %s: %s" % (h["label"], (p.stdout + p.stderr)[-2000:]))
    return json.loads(p.stdout.strip().split("\n")[-1])["steps"]


def run_all(hs, workers=8):
    with concurrent.futures.ThreadPoolExecutor(workers) as ex:
        return list(ex.map(run_history, hs))


def key(d):
    return json.dumps(d, sort_keys=True)


def oracle(hs, real):
    """document -> {"valid": real jsonschema under root MetaModel, "loads": LSPModel(**d) succeeds and reads back as d}"""
    import c18_docs as D
    docs = {}
    for h in hs:
        for s in h["steps"]:
            for d in s["write"].values():
                docs[key(d)] = d
    ks = list(docs)
    val = real("jsv", docs=[docs[k] for k in ks], roots=["MetaModel"], main_schema=None)["MetaModel"]
    lds = real("load", docs=[docs[k] for k in ks])
    return {k: {"valid": bool(v), "loads": bool(l["ok"] and D.sim(l["readback"], docs[k]))} for k, v, l in zip(ks, val, lds)}


def concat(docs):
    r = copy.deepcopy(docs[0])
    for d in docs[1:]:
        for k in LISTS:
            r[k] = r[k] + copy.deepcopy(d[k])
    return r


def judge(h, obs, orc):
    """per step: {"step", "documents" (as on disk, in argv order), "valid", "expected", "observed", "reached", "bad": None | (aspect, text)}"""
    import c18_docs as D
    disk, out = {}, []
    for i, (s, o) in enumerate(zip(h["steps"], obs)):
        disk.update(s["write"])
        docs = [disk[m] for m in s["models"]]
        valid = all(orc[key(d)]["valid"] for d in docs)
        calls = o["plugin_calls"] or 0
        observed = "%s; plugin called %s; %d files written %s" % ("raises " + o["raised"] if o["raised"] else "returns", "%d time(s)" % calls if o["plugin_calls"] is not None
                                                                  else "(not recorded)", o["n_written"], o["written"][:3])
        bad = None
        if not valid:
            expected = "raises; the plugin is not called; output and test directory stay empty"
            if o["raised"] is None or calls or o["n_written"]:
                bad = ("invalid-model-accepted", "step %d: the file on disk violates the schema, but main %s" % (i, observed))
        elif h["plugin"] == STUB and all(orc[key(d)]["loads"] for d in docs):
            expected = "returns; the plugin is called once with the model of the documents on disk"
            if o["raised"] is not None:
                bad = ("valid-model-rejected", "step %d: every file on disk is schema-valid, but main %s" % (i, observed))
            elif calls != 1 or not D.sim(o["model"], concat(docs)):
                bad = ("model-is-not-the-documents", "step %d: the plugin was handed a model that does not read back as the documents on disk (%s)" % (i, observed))
        else:
            expected = "not judged (another plugin / a valid document the loader does not accept)"
        out.append({"step": i, "documents": docs, "valid": valid, "expected": expected, "observed": observed,
                    "reached": bool(calls) if h["plugin"] == STUB else None, "bad": bad})
    return out


# ------------------------------------------------------------------------------------------------ the in-process driver
def driver():
    import tempfile
    import importlib
    req = json.load(sys.stdin)
    import generator.__main__ as G
    plugin = req["plugin"]
    rec = importlib.import_module(STUB) if plugin == STUB else None
    obs = []
    with tempfile.TemporaryDirectory(prefix="verif-c18h-", dir=os.environ.get("VERIF_SCRATCH", "/var/tmp")) as d:
        os.chdir(d)
        for i, s in enumerate(req["steps"]):
            for name, doc in s["write"].items():
                with open(os.path.join(d, name), "w") as f:
                    json.dump(doc, f)
            out, tst = os.path.join(d, "out%d" % i), os.path.join(d, "tests%d" % i)
            os.makedirs(out)
            os.makedirs(tst)
            argv = ["--model", *[os.path.join(d, m) for m in s["models"]], "--plugin", plugin, "--output-dir", out, "--test-dir", tst]
            if rec:
                del rec.CALLS[:]
            raised = None
            try:
                G.main(argv)
            except BaseException as e:      # noqa: BLE001 - SystemExit (argparse) included
                if not (isinstance(e, SystemExit) and e.code in (0, None)):
                    raised = "%s: %s" % (type(e).__name__, str(e).split("\n")[0][:160])
            written = sorted(os.path.relpath(os.path.join(dp, f), d) for root in (out, tst) for dp, _, fs in os.walk(root) for f in fs)
            obs.append({"raised": raised, "plugin_calls": len(rec.CALLS) if rec else None, "model": copy.deepcopy(rec.CALLS[-1]) if rec and rec.CALLS else None,
                        "written": written[:8], "n_written": len(written)})
        os.chdir("/")
    sys.stdout.write("\n" + json.dumps({"steps": obs}) + "\n")


if __name__ == "__main__":
    driver()
