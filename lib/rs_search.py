"""rs_search — independent search for a concrete C07 violation on the REAL Rust source text (no Coq, not x_rs's tokeniser).

A regex reading of lib.rs (comments stripped; struct/enum bodies are brace-free in the emitted subset) is compared with the
metamodel wire schema computed directly from generator/lsp.json: flattened property names, the mapped Rust type as a string,
Option iff optional or null-admitting, enum discriminants (serde rename / serialize_i32 + deserialize arms), untagged or-aliases
with one variant per alternative, message structs, method enums, cfg(feature = "proposed") gates.

search(text, doc) -> list of issues {item, field, what, expected, observed}; an empty list means the text satisfies the property.
This is a port of the round-0 probe /root/proto/py/c07_rust.py (0 issues on the unchanged tree), made layout-independent.
"""
import re

from mmlib import MMView

BASE = {"string": "String", "RegExp": "String", "DocumentUri": "Url", "URI": "Url", "decimal": "Decimal", "integer": "i32",
        "uinteger": "u32", "boolean": "bool"}
GATE = re.compile(r'cfg\s*\(\s*feature\s*=\s*"proposed"\s*\)')
ATTR = r'(?:#\[(?:[^\]"]|"(?:[^"\\]|\\.)*")*\]\s*)*'


def strip_comments(text):
    out, i, n = [], 0, len(text)
    while i < n:
        c = text[i]
        if c == '"':
            j = i + 1
            while j < n and text[j] != '"':
                j += 2 if text[j] == "\\" else 1
            out.append(text[i:j + 1])
            i = j + 1
        elif text.startswith("//", i):
            j = text.find("\n", i)
            i = n if j < 0 else j
        elif text.startswith("/*", i):
            j = text.find("*/", i + 2)
            i = n if j < 0 else j + 2
        else:
            out.append(c)
            i += 1
    return "".join(out)


def split_top(body):
    parts, depth, cur, instr = [], 0, [], False
    i = 0
    while i < len(body):
        c = body[i]
        if instr:
            cur.append(c)
            if c == "\\":
                cur.append(body[i + 1]); i += 1
            elif c == '"':
                instr = False
        elif c == '"':
            instr = True; cur.append(c)
        elif c in "<([":
            depth += 1; cur.append(c)
        elif c in ">)]":
            depth -= 1; cur.append(c)
        elif c == "," and depth == 0:
            parts.append("".join(cur)); cur = []
        else:
            cur.append(c)
        i += 1
    if "".join(cur).strip():
        parts.append("".join(cur))
    return [p.strip() for p in parts if p.strip()]


def norm(ty):
    return re.sub(r"\s+", "", ty).replace(",>", ">").replace(",)", ")")


def unbox(ty):
    prev = None
    while prev != ty:
        prev = ty
        ty = re.sub(r"Box<([\w:]+)>", r"\1", ty)
    return ty


class Crate:
    def __init__(self, text):
        self.raw = text
        t = strip_comments(text)
        self.items = {}
        self.dups = []
        for m in re.finditer(r"(?P<attrs>%s)(?:pub(?:\([^)]*\))?\s+)?(?P<kind>struct|enum)\s+(?P<name>\w+)\s*(?:<[^>{]*>)?\s*\{(?P<body>[^{}]*)\}" % ATTR, t):
            self._add(m.group("name"), {"kind": m.group("kind"), "attrs": m.group("attrs"), "body": m.group("body"), "text": m.group(0)})
        for m in re.finditer(r"(?P<attrs>%s)(?:pub(?:\([^)]*\))?\s+)?type\s+(?P<name>\w+)\s*=\s*(?P<ty>[^;]+);" % ATTR, t):
            self._add(m.group("name"), {"kind": "type", "attrs": m.group("attrs"), "target": norm(m.group("ty")), "text": m.group(0)})
        self.ser, self.de = {}, {}
        for m in re.finditer(r"(\w+)\s*::\s*(\w+)\s*=>\s*serializer\s*\.\s*serialize_i32\s*\(\s*(-?\s*\d+)\s*\)", t):
            self.ser.setdefault(m.group(1), []).append((m.group(2), int(m.group(3).replace(" ", ""))))
        for m in re.finditer(r"(-?\s*\d+)\s*=>\s*Ok\s*\(\s*(\w+)\s*::\s*(\w+)\s*\)", t):
            self.de.setdefault(m.group(2), []).append((int(m.group(1).replace(" ", "")), m.group(3)))

    def _add(self, name, it):
        if name in self.items:
            self.dups.append(name)
        else:
            self.items[name] = it

    @staticmethod
    def members(body):
        """[(attrs_text, rest)] for fields / variants"""
        out = []
        for part in split_top(body):
            m = re.match(r"(%s)(.*)$" % ATTR, part, re.S)
            out.append((m.group(1), m.group(2).strip()))
        return out

    def fields(self, name):
        it = self.items[name]
        camel = bool(re.search(r'rename_all\s*=\s*"camelCase"', it["attrs"]))
        res = {}
        order = []
        for attrs, rest in self.members(it["body"]):
            m = re.match(r"(?:pub(?:\([^)]*\))?\s+)?(\w+)\s*:\s*(.*)$", rest, re.S)
            if not m:
                raise ValueError("field syntax: " + rest[:80])
            rn = re.search(r'\brename\s*=\s*"((?:[^"\\]|\\.)*)"', attrs)
            ident = m.group(1)
            sname = rn.group(1) if rn else (serde_camel(ident) if camel else ident)
            order.append(sname)
            res[sname] = {"ident": ident, "type": norm(m.group(2)), "gated": bool(GATE.search(attrs)), "attrs": attrs}
        return res, order

    def variants(self, name):
        res = []
        for attrs, rest in self.members(self.items[name]["body"]):
            m = re.match(r"(\w+)\s*(?:\((.*)\))?\s*(?:=\s*(-?\s*\d+))?$", rest, re.S)
            if not m:
                raise ValueError("variant syntax: " + rest[:80])
            rn = re.search(r'\brename\s*=\s*"((?:[^"\\]|\\.)*)"', attrs)
            res.append({"ident": m.group(1), "payload": norm(m.group(2)) if m.group(2) else None, "rename": rn.group(1) if rn else None,
                        "gated": bool(GATE.search(attrs))})
        return res

    def gated(self, name):
        return bool(GATE.search(self.items[name]["attrs"]))

    def derives_serde(self, name):
        d = re.search(r"derive\s*\(([^)]*)\)", self.items[name]["attrs"])
        names = {x.strip().split("::")[-1] for x in d.group(1).split(",")} if d else set()
        return {"Serialize", "Deserialize"} <= names


def serde_camel(ident):
    out, cap = [], True
    for ch in ident:
        if ch == "_":
            cap = True
        elif cap:
            out.append(ch.upper() if "a" <= ch <= "z" else ch)
            cap = False
        else:
            out.append(ch)
    s = "".join(out)
    return (s[:1].lower() if "A" <= s[:1] <= "Z" else s[:1]) + s[1:]


def is_null(t):
    return t["kind"] == "base" and t["name"] == "null"


def null_adm(t):
    return (t["kind"] == "or" and any(is_null(i) for i in t["items"])) or is_null(t)


class Spec:
    def __init__(self, doc):
        self.mm = MMView(doc)
        self.doc = doc
        self.lits = []

    def core(self, t):
        k = t["kind"]
        if k == "base":
            return BASE.get(t["name"])
        if k == "reference":
            e = self.mm.E.get(t["name"])
            if e and e.get("supportsCustomValues"):
                if all(isinstance(v["value"], str) for v in e["values"]):
                    return "CustomStringEnum<%s>" % t["name"]
                if all(isinstance(v["value"], int) for v in e["values"]):
                    return "CustomIntEnum<%s>" % t["name"]
                return None
            return t["name"]
        if k == "array":
            x = self.full(t["element"])
            return x and "Vec<%s>" % x
        if k == "map":
            a, b = self.full(t["key"]), self.full(t["value"])
            return a and b and "HashMap<%s,%s>" % (a, b)
        if k == "or":
            its = [i for i in t["items"] if not is_null(i)]
            if not its:
                return None
            if len(its) == 1:
                return None if null_adm(its[0]) else self.core(its[0])
            sub = [self.full(i) for i in its]
            return None if None in sub else "OR%d<%s>" % (len(sub), ",".join(sub))
        if k == "tuple":
            if len(t["items"]) < 2:
                return None
            sub = [self.full(i) for i in t["items"]]
            return None if None in sub else "(%s)" % ",".join(sub)
        if k == "stringLiteral":
            return "String"
        if k == "literal":
            if not t["value"]["properties"]:
                return "LSPObject"
            self.lits.append(t)
            return "@LIT%d@" % (len(self.lits) - 1)
        return None

    def full(self, t, opt=False):
        c = self.core(t)
        if c is None:
            return None
        return "Option<%s>" % c if (opt or null_adm(t)) else c


def type_matches(spec, crate, expected, actual):
    if expected is None:
        return False
    actual = unbox(actual)
    if "@LIT" not in expected:
        return actual == expected
    rx = re.escape(expected)
    ks = [int(x) for x in re.findall(r"@LIT(\d+)@", expected)]
    rx = re.sub(r"@LIT\d+@", r"(\\w+)", rx)
    m = re.fullmatch(rx, actual)
    if not m:
        return False
    for k, nm in zip(ks, m.groups()):
        lit = spec.lits[k]
        if nm in spec.mm.S or nm in spec.mm.E or nm in spec.mm.A or nm not in crate.items or crate.items[nm]["kind"] != "struct":
            return False
        if crate.gated(nm) or not crate.derives_serde(nm):
            return False
        fs, order = crate.fields(nm)
        ps = {p["name"]: p for p in lit["value"]["properties"]}
        if len(order) != len(set(order)) or set(fs) != set(ps):
            return False
        for n, p in ps.items():
            if fs[n]["gated"] or not type_matches(spec, crate, spec.full(p["type"], bool(p.get("optional"))), fs[n]["type"]):
                return False
    return True


RUST_KEYWORDS = set("""as async await break const continue crate dyn else enum extern false fn for if impl in let loop match mod move mut
pub ref return self Self static struct super trait true type unsafe use where while abstract become box do final macro override priv try
typeof unsized virtual yield""".split())


def msg_name(m, suffix):
    """the struct name of a request/notification: its typeName when present (optional in lsp.schema.json), otherwise the name
    derived from the method: "$/" stripped, split on "/", "_" and lower->Upper boundaries, parts capitalised and joined,
    suffix appended unless already there.  (Regex formulation; lib/x_rs.py has its own loop-based one for the Coq hints.)"""
    if m.get("typeName"):
        return m["typeName"]
    name = m["method"]
    if name.startswith("$/"):
        name = name[2:]
    parts = re.sub(r"(?<=[a-z0-9])(?=[A-Z])", " ", re.sub(r"[/_]", " ", name)).split()
    s = "".join(p[:1].upper() + p[1:].lower() for p in parts)
    return s if s.endswith(suffix) else s + suffix


def resp_name(tn):
    return (tn[:-7] if tn.endswith("Request") else tn) + "Response"


def search(text, doc, limit=200):
    issues = []

    def add(item, field, what, expected=None, observed=None):
        if len(issues) < limit:
            issues.append({"item": item, "field": field, "what": what, "expected": expected, "observed": observed})

    crate = Crate(text)
    spec = Spec(doc)
    mm = spec.mm
    for d in crate.dups:
        add(d, "", "two items with this name")
    # ---- serde attributes that change the wire form and are outside the modelled subset (flatten, alias, tag, default, ...)
    for name, it in crate.items.items():
        for m in re.finditer(r'serde\s*\(((?:[^)"]|"(?:[^"\\]|\\.)*")*)\)', it["text"]):
            for arg in split_top(m.group(1)):
                key = arg.split("=")[0].strip()
                if key not in ("rename", "rename_all", "deny_unknown_fields", "untagged", "skip_serializing_if") or \
                        (key == "rename_all" and not re.search(r'=\s*"camelCase"', arg)):
                    after = it["text"][m.end():]
                    fm = re.match(r'\s*\]\s*(?:#\[[^\]]*\]\s*)*(?:pub(?:\([^)]*\))?\s+)?(\w+)\s*[:(,=]', after)
                    fld = fm.group(1) if fm and fm.group(1) not in ("pub", "struct", "enum") else ""
                    add(name, fld, "serde attribute outside the modelled subset changes how this item is (de)serialized", None, "serde(%s)" % arg)
    # ---- identifiers that are Rust keywords: the file is not valid Rust (rustc/rustfmt reject it), nothing is declared
    for name, it in crate.items.items():
        try:
            if it["kind"] == "struct":
                fs, _ = crate.fields(name)
                for k, f in fs.items():
                    if f["ident"] in RUST_KEYWORDS:
                        add(name, k, "field identifier is a Rust keyword: the emitted file is not valid Rust",
                            "an escaped or renamed identifier (e.g. `%s_` with #[serde(rename = \"%s\")])" % (f["ident"], k), "pub %s: %s" % (f["ident"], f["type"]))
            elif it["kind"] == "enum":
                for v in crate.variants(name):
                    if v["ident"] in RUST_KEYWORDS:
                        add(name, v["ident"], "variant identifier is a Rust keyword: the emitted file is not valid Rust", None, v["ident"])
        except ValueError:
            pass
        if name in RUST_KEYWORDS:
            add(name, "", "item name is a Rust keyword: the emitted file is not valid Rust", None, name)
    # ---- structures
    for sn, st in mm.S.items():
        it = crate.items.get(sn)
        if it is None or it["kind"] != "struct":
            add(sn, "", "no struct for this structure", "pub struct " + sn, it and it["kind"])
            continue
        if not crate.derives_serde(sn):
            add(sn, "", "struct does not derive Serialize and Deserialize")
        if crate.gated(sn) != bool(st.get("proposed")):
            add(sn, "", "proposed gate", bool(st.get("proposed")), crate.gated(sn))
        fs, order = crate.fields(sn)
        ps = mm.flat(sn)
        if len(order) != len(set(order)):
            add(sn, "", "duplicate serde names", None, order)
        if set(fs) != set(ps):
            add(sn, "", "serde field names differ from the flattened property names", sorted(ps), sorted(fs))
        for pn, p in ps.items():
            if pn not in fs:
                add(sn, pn, "no field with this serde name", pn, None)
                continue
            exp = spec.full(p["type"], bool(p.get("optional")))
            if not type_matches(spec, crate, exp, fs[pn]["type"]):
                add(sn, pn, "field type / Option wrapping", exp, fs[pn]["type"])
            if fs[pn]["gated"] != bool(p.get("proposed")):
                add(sn, pn, "field proposed gate", bool(p.get("proposed")), fs[pn]["gated"])
    # ---- enumerations
    for en, e in mm.E.items():
        it = crate.items.get(en)
        if it is None or it["kind"] != "enum":
            add(en, "", "no enum for this enumeration")
            continue
        if crate.gated(en) != bool(e.get("proposed")):
            add(en, "", "proposed gate", bool(e.get("proposed")), crate.gated(en))
        if re.search(r"\buntagged\b", it["attrs"]):
            add(en, "", "enumeration is untagged")
        vs = crate.variants(en)
        discs = enum_discs(crate, en, vs)
        for v in e["values"]:
            hit = [x for x, d in zip(vs, discs) if d == v["value"] and type(d) is type(v["value"]) and x["gated"] == bool(v.get("proposed"))]
            if not hit:
                add(en, v["name"], "no variant with this serde discriminant and the value's gate", v["value"], discs)
        want = [v["value"] for v in e["values"]]
        for x, d in zip(vs, discs):
            if not any(d == w and type(d) is type(w) for w in want):
                add(en, x["ident"], "variant discriminant is not a metamodel value", want, d)
        ser = dict(crate.ser.get(en, []))
        for zv, vn in crate.de.get(en, []):
            if not crate.derives_serde(en) and ser.get(vn) != zv:
                add(en, vn, "deserialize arm does not invert the serialize arm", ser.get(vn), zv)
    # ---- aliases
    for an, a in mm.A.items():
        it = crate.items.get(an)
        if it is None:
            add(an, "", "no item for this alias")
            continue
        if crate.gated(an) != bool(a.get("proposed")):
            add(an, "", "proposed gate", bool(a.get("proposed")), crate.gated(an))
        if a["type"]["kind"] == "or":
            if it["kind"] != "enum" or not re.search(r"\buntagged\b", it["attrs"]) or not crate.derives_serde(an):
                add(an, "", "or-alias is not an untagged serde enum", None, it["kind"])
                continue
            vs = crate.variants(an)
            rest = list(vs)
            bad = len(vs) != len(a["type"]["items"])
            for alt in a["type"]["items"]:
                exp = None if is_null(alt) else spec.full(alt)
                k = next((i for i, v in enumerate(rest) if not v["gated"] and
                          ((v["payload"] is None) if is_null(alt) else (v["payload"] is not None and type_matches(spec, crate, exp, v["payload"])))), None)
                if k is None:
                    bad = True
                else:
                    rest.pop(k)
            if bad or rest:
                add(an, "", "variants do not correspond one-to-one to the alternatives",
                    [None if is_null(x) else spec.full(x) for x in a["type"]["items"]], [v["payload"] for v in vs])
        elif an not in ("LSPAny", "LSPObject", "LSPArray"):
            exp = spec.full(a["type"])
            if it["kind"] != "type" or not type_matches(spec, crate, exp, it["target"]):
                add(an, "", "alias target", exp, it.get("target", it["kind"]))
    # ---- messages
    def method_enum(name, msgs):
        it = crate.items.get(name)
        if it is None or it["kind"] != "enum":
            add(name, "", "no method enum")
            return
        if crate.gated(name):
            add(name, "", "method enum is gated")
        vs = crate.variants(name)
        discs = enum_discs(crate, name, vs)
        methods = {m["method"]: m for m in msgs}
        for m in msgs:
            if not any(d == m["method"] and (not v["gated"] or m.get("proposed")) for v, d in zip(vs, discs)):
                add(name, m["method"], "no variant renamed to exactly this method", m["method"], None)
        for v, d in zip(vs, discs):
            if d not in methods:
                add(name, v["ident"], "variant is not a method of the metamodel", None, d)

    def has_props(t):
        return t is not None and t["kind"] == "reference" and t["name"] in mm.S and bool(mm.flat(t["name"]))

    def msg_struct(m, enum):
        tn = msg_name(m, "Request" if enum == "LSPRequestMethods" else "Notification")
        it = crate.items.get(tn)
        if it is None or it["kind"] != "struct":
            add(tn, m["method"], "no struct for this message")
            return tn
        if not crate.derives_serde(tn):
            add(tn, "", "message struct does not derive Serialize and Deserialize")
        if crate.gated(tn) != bool(m.get("proposed")):
            add(tn, "", "proposed gate", bool(m.get("proposed")), crate.gated(tn))
        fs, _ = crate.fields(tn)
        if "method" not in fs or unbox(fs["method"]["type"]) != enum:
            add(tn, "method", "no method field typed by the method enum", enum, fs.get("method", {}).get("type"))
        p = m.get("params")
        if has_props(p):
            exp = spec.full(p)
            if "params" not in fs or not type_matches(spec, crate, exp, fs["params"]["type"]):
                add(tn, "params", "params field type", exp, fs.get("params", {}).get("type"))
        return tn

    for r in doc["requests"]:
        tn = msg_struct(r, "LSPRequestMethods")
        if tn:
            rn = resp_name(tn)
            it = crate.items.get(rn)
            if it is None or it["kind"] != "struct":
                add(rn, r["method"], "no response struct")
            else:
                if not crate.derives_serde(rn):
                    add(rn, "", "response struct does not derive Serialize and Deserialize")
                if not is_null(r["result"]):
                    fs, _ = crate.fields(rn)
                    exp = spec.full(r["result"])
                    if "result" not in fs or not type_matches(spec, crate, exp, fs["result"]["type"]):
                        add(rn, "result", "result field type", exp, fs.get("result", {}).get("type"))
    for n in doc["notifications"]:
        msg_struct(n, "LSPNotificationMethods")
    method_enum("LSPRequestMethods", doc["requests"])
    method_enum("LSPNotificationMethods", doc["notifications"])
    # ---- only proposed items are gated
    req_t = {msg_name(r, "Request"): r for r in doc["requests"]}
    not_t = {msg_name(n, "Notification"): n for n in doc["notifications"]}
    resp_of = {resp_name(t): r for t, r in req_t.items()}
    # ---- no two messages share a struct
    names = [msg_name(r, "Request") for r in doc["requests"]]
    names = names + [resp_name(t) for t in names] + [msg_name(n, "Notification") for n in doc["notifications"]]
    for t in sorted({t for t in names if names.count(t) > 1}):
        add(t, "", "two messages (request / response / notification) have this struct name", 1, names.count(t))
    for name, it in crate.items.items():
        known = name in mm.S or name in mm.E or name in mm.A or name in req_t or name in not_t
        if not known:
            if crate.gated(name) and not (name in resp_of and resp_of[name].get("proposed")):
                add(name, "", "item is gated but is not a proposed metamodel item", False, True)
        if it["kind"] == "struct" and name not in mm.S:
            fs, _ = crate.fields(name)
            for k, f in fs.items():
                if f["gated"]:
                    add(name, f["ident"], "field is gated but is not a proposed property", False, True)
        if it["kind"] == "enum" and name not in mm.E and name not in ("LSPRequestMethods", "LSPNotificationMethods"):
            for v in crate.variants(name):
                if v["gated"]:
                    add(name, v["ident"], "variant is gated but is not a proposed value", False, True)
    return issues


def enum_discs(crate, en, vs):
    if crate.derives_serde(en):
        return [(v["rename"] if v["rename"] is not None else v["ident"]) if v["payload"] is None else None for v in vs]
    ser = dict(crate.ser.get(en, []))
    de = set(crate.de.get(en, []))
    return [ser[v["ident"]] if v["ident"] in ser and (ser[v["ident"]], v["ident"]) in de else None for v in vs]


def item_text(text, name):
    """the Rust text of an item (for replays)"""
    c = Crate(text)
    it = c.items.get(name)
    return it["text"] if it else None
