"""x_main — translate generator/__main__.py:main to Coq data for LSP.Loader (property C18): Gen/MainData.v.

Extracts (1) the order of the three effects that matter — schema validation of every model file, create_lsp_model, the
plugin's generate — and (2) the object handed to jsonschema.validate as the schema (the schema file, possibly overlaid
with constant keys such as {"$ref": "#/definitions/MetaModel", **schema}), read as a schema by x_schema.
Calls of module-level helper functions of __main__.py are FOLLOWED: the helper's body is spliced in at the call (parameters
replaced by the argument expressions, its locals renamed apart, `return e` at its end bound to the call's target), so the
order of side effects is that of the program; a list comprehension bound to a name is read as the loop it abbreviates.
`with P.open(..) as F: X = json.load(F)` is read as `X = json.load(P.open(..))` (see open_with_to_load for the conditions and why
closing the stream earlier or later does not matter to what is extracted here); in a followed helper the same holds for
`with P.open(..) as F: return json.load(F)` (with_return_to_load).  A helper whose `return`s all stand in TAIL position (the last
statement of the body, or of a branch of an if/else that is itself in tail position) is spliced in with each return turned into the
binding of the call's target (tail_returns).  An `except` handler must END in a `raise` statement: `raise e` and the bare `raise`
both leave the handler by raising (the bare form always re-raises the exception being handled), so neither swallows a failed validation;
LOGGER.<level>(...) calls - f-string or lazy %-style arguments alike - are judged by name and have no effect on the three effects.
Fail-closed: an unknown call in main, a conditional / swallowed validation, another way of validating, a helper with a
return that is not in tail position / nested function / star-arguments / DECORATOR (functools.lru_cache on a loading helper is not transparent: a later
call in the same process would skip reading and validating the file - the process-history stream of the check exhibits it) /
recursion, any other `with` -> exit 3.
usage: x_main.py <out.v> [<info.json>]
"""
import ast
import json
import os
import sys

import x_schema
from vcommon import REPO, write_if_changed


class Reject(Exception):
    pass


U = ast.unparse
HARMLESS = {"get_parser", "parser.parse_args", "ir.files", "os.fspath", "json.load", "pathlib.Path", "str", "len", "list", "sorted",
            "LOGGER.info", "LOGGER.debug", "LOGGER.warning", "LOGGER.error", "LOGGER.exception", "custom_plugin", "setup_logging"}


def schema_expr(e, env, file_obj):
    """evaluate the schema expression to a JSON object (dict); env: name -> expression"""
    if e is None:
        raise Reject("the schema argument is bound more than once / under a condition in main")
    if isinstance(e, ast.Name):
        if e.id not in env:
            raise Reject("schema argument %s is not bound in main" % e.id)
        return schema_expr(env[e.id], env, file_obj)
    if isinstance(e, ast.Call) and U(e.func) == "json.load" and len(e.args) == 1:
        src = e.args[0]
        # json.load(schema_file.open("rb")) with schema_file = ir.files("generator") / "lsp.schema.json"
        if isinstance(src, ast.Call) and isinstance(src.func, ast.Attribute) and src.func.attr == "open" and isinstance(src.func.value, ast.Name):
            f = env.get(src.func.value.id)
            if f is not None and U(f).replace("'", '"') in ('ir.files("generator") / "lsp.schema.json"', 'pathlib.Path(__file__).parent / "lsp.schema.json"'):
                return dict(file_obj)
        raise Reject("schema is loaded from somewhere else: " + U(e))
    if isinstance(e, ast.Dict):
        r = {}
        for k, v in zip(e.keys, e.values):
            if k is None:
                r.update(schema_expr(v, env, file_obj))
            elif isinstance(k, ast.Constant) and isinstance(k.value, str):
                r[k.value] = ast.literal_eval(v)
            else:
                raise Reject("schema dict key outside grammar: " + U(k))
        return r
    if isinstance(e, ast.Call) and U(e.func) == "dict" and len(e.args) == 1:
        r = dict(schema_expr(e.args[0], env, file_obj))
        for kw in e.keywords:
            if kw.arg is None:
                r.update(schema_expr(kw.value, env, file_obj))
            else:
                r[kw.arg] = ast.literal_eval(kw.value)
        return r
    raise Reject("schema argument outside grammar: " + U(e))


# ------------------------------------------------------------------------------------------------ following helper calls
class _Subst(ast.NodeTransformer):
    def __init__(self, mapping):
        self.mapping = mapping

    def visit_Name(self, node):
        if node.id in self.mapping:
            r = self.mapping[node.id]
            if isinstance(r, str):
                return ast.copy_location(ast.Name(id=r, ctx=node.ctx), node)
            if isinstance(node.ctx, ast.Load):
                return ast.parse(U(r), mode="eval").body
            raise Reject("a helper assigns to a parameter that was passed an expression: " + node.id)
        return node


def _assigned_names(stmts):
    out = set()
    for st in stmts:
        for n in ast.walk(st):
            if isinstance(n, ast.Name) and isinstance(n.ctx, (ast.Store, ast.Del)):
                out.add(n.id)
            elif isinstance(n, (ast.FunctionDef, ast.AsyncFunctionDef, ast.ClassDef, ast.Lambda, ast.Global, ast.Nonlocal, ast.Yield, ast.YieldFrom, ast.Await)):
                raise Reject("helper function with a nested function / class / lambda / generator / global")
            elif isinstance(n, (ast.Import, ast.ImportFrom)):
                raise Reject("helper function with an import")
    return out



# ------------------------------------------------------------------------------------------------ returns in followed helpers
# (1) with P.open(<constants>) as F:  [LOGGER.<level>(...)]*  return json.load(F)          inside a followed helper
#     is read as                      [LOGGER.<level>(...)]*  return json.load(P.open(<constants>))
#     Conditions: one `with` item, P and F different names, the `return` is the LAST statement of the `with` body and the only non-logging one,
#     F occurs exactly twice in the whole helper (the `as` binding and the argument of json.load).
#     Soundness: the argument of open_with_to_load below, word for word - for the streams `open` returns, __enter__ returns the stream itself and
#     __exit__ closes it and returns None (never swallows an exception).  `return e` inside a `with` evaluates e, runs __exit__, then returns the
#     value; if json.load raises, __exit__ runs and the exception propagates.  So the helper returns the same parsed value or raises the same
#     exception at the same point as the rewritten one; they differ only in WHEN the stream is closed, which none of the three effects nor the
#     schema object depends on.  A single read of F matters (a second read would see EOF); any other context manager is left alone and the
#     helper is then REJECTED (return outside tail position).
# (2) tail returns: the statement list of a helper is in "tail form" when every `return` is the last statement of the body or the last
#     statement of a branch of an `if` / `else` that is itself the last statement of a block in tail form.  Calling such a helper and binding
#     its result to X is the body with every `return e` replaced by `X = e` (by the expression statement `e` when the result is discarded) and
#     every block end without a return by `X = None`: nothing of the helper runs after a return in tail position, so control reaches the
#     caller's next statement in both programs, having performed the same evaluations in the same order; X is written exactly once, as the last
#     action (reads of a caller variable that was passed as an argument - even X itself - precede it).  A `return` anywhere else (inside a loop,
#     a `try`, a `with` other than (1), or followed by further statements) is REJECTED as before - except the guard form `if c: ...; return e`
#     followed by REST, which is first written as `if c: ...; return e  else: REST` (the same program: REST runs iff the branch was not taken).  The `if` that results is then judged by the
#     rules for main itself (validation / create / plugin under a condition are rejected).
def with_return_to_load(stmts, uses):
    out = []
    for st in stmts:
        if isinstance(st, ast.With) and len(st.items) == 1 and isinstance(st.items[0].optional_vars, ast.Name) and st.body:
            ce, f, last = st.items[0].context_expr, st.items[0].optional_vars.id, st.body[-1]
            if (isinstance(ce, ast.Call) and isinstance(ce.func, ast.Attribute) and ce.func.attr == "open" and isinstance(ce.func.value, ast.Name)
                    and ce.func.value.id != f and _const_args(ce) and all(_is_logger(b) for b in st.body[:-1])
                    and isinstance(last, ast.Return) and isinstance(last.value, ast.Call) and U(last.value.func) == "json.load"
                    and len(last.value.args) == 1 and not last.value.keywords and isinstance(last.value.args[0], ast.Name) and last.value.args[0].id == f
                    and sum(1 for n in ast.walk(st) if isinstance(n, ast.Name) and n.id == f) == 2 and uses.get(f) == 2):
                out += st.body[:-1]
                out.append(ast.copy_location(ast.parse("return json.load(%s)" % U(ce)).body[0], st))
                continue
        if isinstance(st, ast.If):
            st.body, st.orelse = with_return_to_load(st.body, uses), with_return_to_load(st.orelse, uses)
        out.append(st)
    return out


def tail_returns(stmts, conv):
    """the block with each `return e` in tail position replaced by conv(e), and each tail end without a return by conv(None)"""
    for i, st in enumerate(stmts[:-1]):
        # `if c: <...; return e>` followed by REST  ==  `if c: <...; return e> else: REST`  (the branch leaves the function, so REST runs iff c is false)
        if isinstance(st, ast.If) and not st.orelse and st.body and isinstance(st.body[-1], ast.Return):
            stmts = stmts[:i] + [ast.copy_location(ast.If(test=st.test, body=st.body, orelse=stmts[i + 1:]), st)]
            break
    if not stmts:
        return conv(None)
    last = stmts[-1]
    if isinstance(last, ast.Return):
        return stmts[:-1] + conv(last.value)
    if isinstance(last, ast.If) and any(isinstance(n, ast.Return) for n in ast.walk(last)):
        new = ast.If(test=last.test, body=tail_returns(last.body, conv) or [ast.Pass()], orelse=tail_returns(last.orelse, conv))
        return stmts[:-1] + [ast.copy_location(new, last)]
    return stmts + conv(None)


class Inliner:
    """splices the bodies of module-level helper functions into the statement list of main"""

    def __init__(self, tree, skip):
        self.helpers = {n.name: n for n in tree.body if isinstance(n, ast.FunctionDef) and n.name not in skip}
        self.count = 0
        self.followed = []

    def helper_call(self, e):
        return isinstance(e, ast.Call) and isinstance(e.func, ast.Name) and e.func.id in self.helpers

    def expand(self, call, target, stack):
        """statements equivalent to `target = call(...)` (target: a Name id or None)"""
        fn = self.helpers[call.func.id]
        if fn.name in stack or len(stack) > 6:
            raise Reject("recursive helper function " + fn.name)
        a = fn.args
        if a.vararg or a.kwarg or a.posonlyargs or fn.decorator_list or any(isinstance(x, ast.Starred) for x in call.args) or any(k.arg is None for k in call.keywords):
            raise Reject("helper %s: star-arguments / decorators are outside the grammar" % fn.name)
        params = [x.arg for x in a.args] + [x.arg for x in a.kwonlyargs]
        bound = {}
        if len(call.args) > len(a.args):
            raise Reject("helper %s called with too many arguments" % fn.name)
        for prm, arg in zip(a.args, call.args):
            bound[prm.arg] = arg
        for k in call.keywords:
            if k.arg not in params or k.arg in bound:
                raise Reject("helper %s: keyword %s" % (fn.name, k.arg))
            bound[k.arg] = k.value
        dflt = dict(zip([x.arg for x in a.args][len(a.args) - len(a.defaults):], a.defaults))
        dflt.update({x.arg: d for x, d in zip(a.kwonlyargs, a.kw_defaults) if d is not None})
        pre = []
        self.count += 1
        tag = "%s__%d__" % (fn.name, self.count)
        body = [st for st in ast.parse(U(fn)).body[0].body if not (isinstance(st, ast.Expr) and isinstance(st.value, ast.Constant))]      # a private copy
        uses = {}
        for n in ast.walk(fn):
            if isinstance(n, ast.Name):
                uses[n.id] = uses.get(n.id, 0) + 1
        body = with_return_to_load(body, uses)
        ret, branchy = None, False
        if body and any(isinstance(st, ast.If) and any(isinstance(n, ast.Return) for n in ast.walk(st)) for st in body):
            # returns in tail position of if / else branches: each becomes the binding of the call's target (see tail_returns)
            branchy = True
            rname = "__result__"
            if rname in uses or rname in params:
                raise Reject("helper %s uses the name %s" % (fn.name, rname))

            def conv(value):
                if target is not None:
                    return [ast.Assign(targets=[ast.Name(id=rname, ctx=ast.Store())], value=value if value is not None else ast.Constant(value=None), lineno=call.lineno)]
                return [ast.Expr(value=value, lineno=call.lineno)] if value is not None else []
            body = tail_returns(body, conv)
        elif body and isinstance(body[-1], ast.Return):
            ret, body = body[-1].value, body[:-1]
        if any(isinstance(n, ast.Return) for st in body for n in ast.walk(st)):
            raise Reject("helper %s returns before its last statement (a return outside tail position)" % fn.name)
        local = _assigned_names(body)
        mapping = {}
        for prm in params:
            if prm not in bound:
                if prm not in dflt:
                    raise Reject("helper %s: parameter %s not supplied" % (fn.name, prm))
                bound[prm] = dflt[prm]
            arg = bound[prm]
            if isinstance(arg, ast.Name) and prm not in local:
                mapping[prm] = arg.id                      # the parameter is another name for the caller's variable
            elif isinstance(arg, ast.Constant) and prm not in local:
                mapping[prm] = arg
            else:                                          # evaluated once, at the call, in argument order
                pre.append(ast.Assign(targets=[ast.Name(id=tag + prm, ctx=ast.Store())], value=arg, lineno=call.lineno))
                mapping[prm] = tag + prm
        for n in local:
            if n not in mapping:
                mapping[n] = tag + n
        if branchy and target is not None:
            mapping["__result__"] = target                 # the tail bindings write the caller's variable
        if branchy:
            tail = []                                      # every tail of the body binds the target already
        elif target is not None and isinstance(ret, ast.Name) and ret.id in local and ret.id not in params:
            mapping[ret.id] = target                       # the returned local IS the caller's variable
            tail = []
        elif ret is not None and target is not None:
            tail = [ast.Assign(targets=[ast.Name(id=target, ctx=ast.Store())], value=ret, lineno=call.lineno)]
        elif ret is not None:
            tail = [ast.Expr(value=ret, lineno=call.lineno)]
        elif target is not None:
            tail = [ast.Assign(targets=[ast.Name(id=target, ctx=ast.Store())], value=ast.Constant(value=None), lineno=call.lineno)]
        else:
            tail = []
        sub = _Subst(mapping)
        new = [ast.fix_missing_locations(sub.visit(ast.parse(U(st)).body[0])) for st in body + tail]
        self.followed.append(fn.name)
        return [ast.fix_missing_locations(x) for x in pre] + self.block(new, stack + [fn.name])

    def block(self, stmts, stack=()):
        stack = list(stack)
        out = []
        for st in stmts:
            # name = [elt for x in it]   ==   name = []; for x in it: name.append(elt)
            if (isinstance(st, (ast.Assign, ast.AnnAssign)) and isinstance(st.value, ast.ListComp) and len(st.value.generators) == 1
                    and not st.value.generators[0].ifs and not st.value.generators[0].is_async
                    and any(self.helper_call(c) or U(c.func) == "jsonschema.validate" for c in ast.walk(st.value) if isinstance(c, ast.Call))):
                tgt = st.targets[0] if isinstance(st, ast.Assign) and len(st.targets) == 1 else getattr(st, "target", None)
                if not isinstance(tgt, ast.Name):
                    raise Reject("comprehension bound to something else than a name: " + U(st)[:80])
                g = st.value.generators[0]
                loop = ast.parse("%s = []\nfor %s in %s:\n    %s.append(%s)" % (tgt.id, U(g.target), U(g.iter), tgt.id, U(st.value.elt))).body
                out += self.block(loop, stack)
                continue
            if isinstance(st, (ast.Assign, ast.AnnAssign)) and self.helper_call(st.value):
                tgt = st.targets[0] if isinstance(st, ast.Assign) and len(st.targets) == 1 else getattr(st, "target", None)
                if not isinstance(tgt, ast.Name):
                    raise Reject("helper result bound to something else than a name: " + U(st)[:80])
                out += self.expand(st.value, tgt.id, stack)
                continue
            if isinstance(st, ast.Expr) and self.helper_call(st.value):
                out += self.expand(st.value, None, stack)
                continue
            # xs.append(helper(...))   ==   t = helper(...); xs.append(t)
            if (isinstance(st, ast.Expr) and isinstance(st.value, ast.Call) and isinstance(st.value.func, ast.Attribute) and st.value.func.attr == "append"
                    and isinstance(st.value.func.value, ast.Name) and len(st.value.args) == 1 and not st.value.keywords and self.helper_call(st.value.args[0])):
                self.count += 1
                t = "appended__%d__" % self.count
                out += self.expand(st.value.args[0], t, stack)
                out.append(ast.parse("%s.append(%s)" % (st.value.func.value.id, t)).body[0])
                continue
            for fld in ("body", "orelse", "finalbody"):
                if isinstance(getattr(st, fld, None), list) and not isinstance(st, (ast.FunctionDef, ast.ClassDef)):
                    setattr(st, fld, self.block(getattr(st, fld), stack))
            if isinstance(st, ast.Try):
                for h in st.handlers:
                    h.body = self.block(h.body, stack)
            for c in ast.walk(st):        # the bodies were expanded above: what is left sits inside an expression
                if self.helper_call(c):
                    raise Reject("call of helper %s inside an expression (only `x = f(..)`, `f(..)`, `xs.append(f(..))`, `x = [f(..) for ..]` are followed): %s"
                                 % (c.func.id, U(st)[:100]))
            out.append(st)
        return out


# ------------------------------------------------------------------------------------------------ with P.open(..) as F: X = json.load(F)
# Grammar extension: the statement
#       with P.open(<constants>) as F:
#           [LOGGER.<level>(...)]  X = json.load(F)  [LOGGER.<level>(...)]
# (P, F, X names; exactly one json.load(F); F mentioned nowhere else in main after inlining) is read as
#       [LOGGER...]  X = json.load(P.open(<constants>))  [LOGGER...]
# which is the form the grammar below already understands (schema_expr for the schema file, the validation loop for a model file).
# Soundness: for the stream objects `open` returns (pathlib.Path / importlib Traversable, the same trust as for the bare
# `json.load(P.open(..))` form) __enter__ returns the stream itself and __exit__ closes it and returns None, i.e. it never swallows
# an exception.  So both forms bind X to the same parsed value or raise the same exception at the same point of main; they differ
# only in WHEN the stream is closed, which none of the three effects (validate, create, plugin) nor the schema object depends on.
# Requiring a single json.load(F) matters (a second read of the same stream would see EOF, a second P.open() would not); requiring
# that F is not used elsewhere matters (after the rewrite F is not bound).  Any other `with` is left alone and REJECTED below
# (another context manager may swallow exceptions - contextlib.suppress around the validation would open the gate).
def _const_args(call):
    return all(isinstance(a, ast.Constant) for a in call.args) and all(k.arg is not None and isinstance(k.value, ast.Constant) for k in call.keywords)


def _is_logger(st):
    return isinstance(st, ast.Expr) and isinstance(st.value, ast.Call) and U(st.value.func).startswith("LOGGER.")


def open_with_to_load(stmts, root=None):
    """rewrite the `with` form above wherever it occurs in the statement list (recursively)"""
    root = stmts if root is None else root
    uses = {}
    for st in root:
        for n in ast.walk(st):
            if isinstance(n, ast.Name):
                uses[n.id] = uses.get(n.id, 0) + 1
    out = []
    for st in stmts:
        if isinstance(st, ast.With) and len(st.items) == 1 and isinstance(st.items[0].optional_vars, ast.Name):
            ce, f = st.items[0].context_expr, st.items[0].optional_vars.id
            if (isinstance(ce, ast.Call) and isinstance(ce.func, ast.Attribute) and ce.func.attr == "open" and isinstance(ce.func.value, ast.Name)
                    and ce.func.value.id != f and _const_args(ce)):
                loads = [b for b in st.body if isinstance(b, ast.Assign) and len(b.targets) == 1 and isinstance(b.targets[0], ast.Name)
                         and b.targets[0].id not in (f, ce.func.value.id) and isinstance(b.value, ast.Call) and U(b.value.func) == "json.load"
                         and len(b.value.args) == 1 and not b.value.keywords and isinstance(b.value.args[0], ast.Name) and b.value.args[0].id == f]
                others = [b for b in st.body if b not in loads]
                inside = sum(1 for n in ast.walk(st) if isinstance(n, ast.Name) and n.id == f)
                if len(loads) == 1 and all(_is_logger(b) for b in others) and inside == 2 and uses.get(f) == 2:
                    for b in st.body:
                        if b is loads[0]:
                            b = ast.parse("%s = json.load(%s)" % (b.targets[0].id, U(ce))).body[0]
                        out.append(ast.copy_location(b, st))
                    continue
        for fld in ("body", "orelse", "finalbody"):
            if isinstance(getattr(st, fld, None), list) and not isinstance(st, (ast.FunctionDef, ast.ClassDef)):
                setattr(st, fld, open_with_to_load(getattr(st, fld), root))
        if isinstance(st, ast.Try):
            for h in st.handlers:
                h.body = open_with_to_load(h.body, root)
        out.append(st)
    return [ast.fix_missing_locations(x) for x in out]


NOT_FOLLOWED = {"main", "get_parser", "setup_logging", "custom_plugin"}       # their calls are judged by name (HARMLESS)


def translate():
    path = os.path.join(REPO, "generator", "__main__.py")
    tree = ast.parse(open(path).read())
    mains = [n for n in tree.body if isinstance(n, ast.FunctionDef) and n.name == "main"]
    if len(mains) != 1:
        raise Reject("main not found exactly once")
    fn = mains[0]
    inl = Inliner(tree, NOT_FOLLOWED)
    main_body = open_with_to_load(inl.block([s for s in fn.body if not (isinstance(s, ast.Expr) and isinstance(s.value, ast.Constant))]))
    translate.followed = inl.followed
    env, effects, state = {}, [], {"models_list": None, "spec": None, "validated_from": None, "unvalidated_appends": set()}

    def calls_in(node):
        return [c for c in ast.walk(node) if isinstance(c, ast.Call)]

    def check_calls(node, allowed_extra=(), in_validation_loop=False):
        for c in calls_in(node):
            name = U(c.func)
            if name in HARMLESS or name in allowed_extra:
                continue
            if isinstance(c.func, ast.Attribute) and c.func.attr in ("open", "append") and isinstance(c.func.value, ast.Name):
                if c.func.attr == "append" and not in_validation_loop:
                    state["unvalidated_appends"].add(c.func.value.id)      # must not be the list handed to create_lsp_model
                continue
            raise Reject("unmodelled call in main: " + U(c)[:100])
        for n in ast.walk(node):
            if isinstance(n, ast.AugAssign) and isinstance(n.target, ast.Name):
                state["unvalidated_appends"].add(n.target.id)

    def bind(st):
        if isinstance(st, ast.Assign) and len(st.targets) == 1 and isinstance(st.targets[0], ast.Name):
            if st.targets[0].id in env and st.targets[0].id not in ("model_files",):
                env[st.targets[0].id] = None      # re-bound: no longer a known expression
            else:
                env[st.targets[0].id] = st.value
        elif isinstance(st, ast.AnnAssign) and isinstance(st.target, ast.Name) and st.value is not None:
            env[st.target.id] = st.value

    def walk(stmts, in_loop=None, conditional=False):
        for st in stmts:
            if isinstance(st, ast.Try):
                if st.finalbody or st.orelse:
                    raise Reject("try with else/finally in main")
                for h in st.handlers:
                    if not (h.body and isinstance(h.body[-1], ast.Raise)):
                        raise Reject("an except handler in main does not re-raise")
                    for b in h.body:
                        check_calls(b)
                walk(st.body, in_loop, conditional)
                continue
            if isinstance(st, ast.If):
                check_calls(st.test)
                walk(st.body, in_loop, True)
                walk(st.orelse, in_loop, True)
                continue
            cs = [U(c.func) for c in calls_in(st)]
            if "jsonschema.validate" in cs:
                if not isinstance(st, ast.For):
                    raise Reject("jsonschema.validate outside a loop over the model files: " + U(st)[:100])
                if conditional:
                    raise Reject("validation under a condition")
                if st.orelse or any(isinstance(x, (ast.Break, ast.Continue, ast.If, ast.Try, ast.While, ast.Return)) for b in st.body for x in ast.walk(b)):
                    raise Reject("validation loop with control flow")
                if not isinstance(st.target, ast.Name):
                    raise Reject("validation loop target")
                loopvar, it = st.target.id, U(st.iter)
                if not isinstance(st.iter, ast.Name):
                    raise Reject("validation loop iterates over " + it)
                loaded = {loopvar} if it == state["models_list"] else set()
                vcall = None

                def load_stmt(b, src):
                    """X = json.load(<src>)  ->  X"""
                    if (isinstance(b, ast.Assign) and len(b.targets) == 1 and isinstance(b.targets[0], ast.Name) and isinstance(b.value, ast.Call)
                            and U(b.value.func) == "json.load" and len(b.value.args) == 1 and not b.value.keywords and src(b.value.args[0])):
                        return b.targets[0].id
                    return None

                def opens_loopvar(e):
                    return (isinstance(e, ast.Call) and isinstance(e.func, ast.Attribute) and e.func.attr == "open" and isinstance(e.func.value, ast.Name)
                            and e.func.value.id == loopvar)
                for b in st.body:
                    check_calls(b, ("jsonschema.validate",), in_validation_loop=True)
                    if load_stmt(b, opens_loopvar):
                        loaded.add(load_stmt(b, opens_loopvar))
                    elif (isinstance(b, ast.With) and len(b.items) == 1 and opens_loopvar(b.items[0].context_expr) and isinstance(b.items[0].optional_vars, ast.Name)
                          and all(load_stmt(x, lambda e: isinstance(e, ast.Name) and e.id == b.items[0].optional_vars.id)
                                  or (isinstance(x, ast.Expr) and isinstance(x.value, ast.Call) and U(x.value.func).startswith("LOGGER.")) for x in b.body)):
                        # with model_file.open("rb") as stream: X = json.load(stream)
                        for x in b.body:
                            n = load_stmt(x, lambda e: isinstance(e, ast.Name) and e.id == b.items[0].optional_vars.id)
                            if n:
                                loaded.add(n)
                    elif isinstance(b, ast.Expr) and isinstance(b.value, ast.Call) and U(b.value.func) == "jsonschema.validate":
                        vcall = b.value
                        if not (len(vcall.args) == 2 and not vcall.keywords and isinstance(vcall.args[0], ast.Name) and vcall.args[0].id in loaded):
                            raise Reject("jsonschema.validate arguments outside grammar: " + U(vcall))
                        validated = vcall.args[0].id
                    elif (isinstance(b, ast.Expr) and isinstance(b.value, ast.Call) and isinstance(b.value.func, ast.Attribute) and b.value.func.attr == "append"
                          and len(b.value.args) == 1 and isinstance(b.value.args[0], ast.Name) and b.value.args[0].id in loaded):
                        if state["models_list"] not in (None, U(b.value.func.value)):
                            raise Reject("two model lists")
                        if vcall is None or b.value.args[0].id != validated:
                            raise Reject("a model is appended before / without being validated: " + U(b))
                        state["models_list"] = U(b.value.func.value)
                    elif isinstance(b, ast.Expr) and isinstance(b.value, ast.Call) and U(b.value.func).startswith("LOGGER."):
                        pass
                    else:
                        raise Reject("statement in the validation loop outside grammar: " + U(b)[:100])
                if vcall is None:
                    raise Reject("validation loop without a plain jsonschema.validate statement")
                if it == state["models_list"]:
                    state["unvalidated_appends"].discard(it)       # everything loaded so far is validated by this loop
                state["schema_arg"] = vcall.args[1]
                state["schema_env"] = dict(env)
                effects.append("EValidate")
                continue
            if isinstance(st, ast.For) and U(st.iter) == "model_files" and not st.orelse:
                # a load-only loop (validation moved elsewhere)
                for b in st.body:
                    check_calls(b)
                    if (isinstance(b, ast.Expr) and isinstance(b.value, ast.Call) and isinstance(b.value.func, ast.Attribute) and b.value.func.attr == "append"):
                        state["models_list"] = U(b.value.func.value)
                        state["unvalidated_appends"].add(state["models_list"])
                continue
            if "model.create_lsp_model" in cs or "create_lsp_model" in cs:
                if conditional or in_loop:
                    raise Reject("create_lsp_model under a condition / in a loop")
                ok = (isinstance(st, (ast.Assign, ast.AnnAssign)) and isinstance(st.value, ast.Call) and U(st.value.func) in ("model.create_lsp_model", "create_lsp_model")
                      and len(st.value.args) == 1 and U(st.value.args[0]) == state["models_list"])
                if not ok:
                    raise Reject("create_lsp_model call outside grammar: " + U(st)[:100])
                if "EValidate" in effects and state["models_list"] in state["unvalidated_appends"]:
                    # the effect list would claim "validated before created" although some document bypasses the validation
                    raise Reject("the list handed to create_lsp_model is extended outside the validation loop")
                tgt = st.targets[0] if isinstance(st, ast.Assign) else st.target
                state["spec"] = U(tgt)
                effects.append("ECreate")
                continue
            if any(c.endswith(".generate") for c in cs):
                if conditional or in_loop:
                    raise Reject("plugin call under a condition / in a loop")
                ok = (isinstance(st, ast.Expr) and isinstance(st.value, ast.Call) and len(st.value.args) >= 1)
                if not ok:
                    raise Reject("plugin call outside grammar: " + U(st)[:100])
                if U(st.value.args[0]) != state["spec"]:
                    raise Reject("the plugin is not called with the created model")
                effects.append("EPlugin")
                continue
            if isinstance(st, (ast.For, ast.While, ast.With)):
                raise Reject("loop/with outside grammar in main: " + U(st)[:80])
            if state["models_list"] is not None and any(isinstance(n, ast.Name) and isinstance(n.ctx, (ast.Store, ast.Del)) and n.id == state["models_list"]
                                                        for n in ast.walk(st)):
                raise Reject("the list of validated models is re-bound after the validation loop: " + U(st)[:80])
            if isinstance(st, (ast.Return, ast.Raise)) and not conditional:
                raise Reject("unconditional return/raise in main")
            check_calls(st)
            bind(st)

    walk(main_body)
    if "schema_arg" not in state:
        root_obj, root_term = None, "SAny"      # no validation at all
    else:
        root_obj = schema_expr(state["schema_arg"], state["schema_env"], x_schema.load_file())
        try:
            root_term = x_schema.root_schema(root_obj)
        except x_schema.Reject as e:
            raise Reject("schema object passed by main: %s" % e)
    return effects, root_obj, root_term


def main(out, info_path=None):
    effects, root_obj, root_term = translate()
    txt = ("(* generated by lib/x_main.py from generator/__main__.py — do not edit *)\n"
           "From LSP Require Import Base JSchema Loader.\nOpen Scope string_scope.\n"
           "Definition main_effects : list eff := [%s].\n"
           "(* the object main hands to jsonschema.validate, read as a schema (definitions are in Gen.SchemaData.defs) *)\n"
           "Definition gate_root : schema := %s.\n" % ("; ".join(effects), root_term))
    write_if_changed(out, txt)
    info = {"effects": effects, "root_extra_keys": sorted(set(root_obj or {}) - {"$schema", "definitions"}), "validates": root_obj is not None}
    if info_path:
        write_if_changed(info_path, json.dumps({"info": info, "root": root_obj}, sort_keys=True) + "\n")
    print(json.dumps(info))


if __name__ == "__main__":
    try:
        main(*sys.argv[1:3])
    except (Reject, x_schema.Reject) as e:
        print("REJECT: %s" % e)
        sys.exit(3)
