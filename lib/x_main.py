"""x_main — translate generator/__main__.py:main to Coq data for LSP.Loader (property C18): Gen/MainData.v.

Extracts (1) the order of the three effects that matter — schema validation of every model file, create_lsp_model, the
plugin's generate — and (2) the object handed to jsonschema.validate as the schema (the schema file, possibly overlaid
with constant keys such as {"$ref": "#/definitions/MetaModel", **schema}), read as a schema by x_schema.
Fail-closed: an unknown call in main, a conditional / swallowed validation, another way of validating -> exit 3.
usage: x_main.py <out.v> [<info.json>]
"""
import ast
import json
import os
import sys

import x_schema
from vcommon import REPO, write_if_changed


class Reject(Exception):
    pass


U = ast.unparse
HARMLESS = {"get_parser", "parser.parse_args", "ir.files", "os.fspath", "json.load", "pathlib.Path", "str", "len", "list", "sorted",
            "LOGGER.info", "LOGGER.debug", "LOGGER.warning", "LOGGER.error", "LOGGER.exception", "custom_plugin", "setup_logging"}


def schema_expr(e, env, file_obj):
    """evaluate the schema expression to a JSON object (dict); env: name -> expression"""
    if isinstance(e, ast.Name):
        if e.id not in env:
            raise Reject("schema argument %s is not bound in main" % e.id)
        return schema_expr(env[e.id], env, file_obj)
    if isinstance(e, ast.Call) and U(e.func) == "json.load" and len(e.args) == 1:
        src = e.args[0]
        # json.load(schema_file.open("rb")) with schema_file = ir.files("generator") / "lsp.schema.json"
        if isinstance(src, ast.Call) and isinstance(src.func, ast.Attribute) and src.func.attr == "open" and isinstance(src.func.value, ast.Name):
            f = env.get(src.func.value.id)
            if f is not None and U(f).replace("'", '"') in ('ir.files("generator") / "lsp.schema.json"', 'pathlib.Path(__file__).parent / "lsp.schema.json"'):
                return dict(file_obj)
        raise Reject("schema is loaded from somewhere else: " + U(e))
    if isinstance(e, ast.Dict):
        r = {}
        for k, v in zip(e.keys, e.values):
            if k is None:
                r.update(schema_expr(v, env, file_obj))
            elif isinstance(k, ast.Constant) and isinstance(k.value, str):
                r[k.value] = ast.literal_eval(v)
            else:
                raise Reject("schema dict key outside grammar: " + U(k))
        return r
    if isinstance(e, ast.Call) and U(e.func) == "dict" and len(e.args) == 1:
        r = dict(schema_expr(e.args[0], env, file_obj))
        for kw in e.keywords:
            if kw.arg is None:
                r.update(schema_expr(kw.value, env, file_obj))
            else:
                r[kw.arg] = ast.literal_eval(kw.value)
        return r
    raise Reject("schema argument outside grammar: " + U(e))


def translate():
    path = os.path.join(REPO, "generator", "__main__.py")
    tree = ast.parse(open(path).read())
    mains = [n for n in tree.body if isinstance(n, ast.FunctionDef) and n.name == "main"]
    if len(mains) != 1:
        raise Reject("main not found exactly once")
    fn = mains[0]
    env, effects, state = {}, [], {"models_list": None, "spec": None, "validated_from": None}

    def calls_in(node):
        return [c for c in ast.walk(node) if isinstance(c, ast.Call)]

    def check_calls(node, allowed_extra=()):
        for c in calls_in(node):
            name = U(c.func)
            if name in HARMLESS or name in allowed_extra:
                continue
            if isinstance(c.func, ast.Attribute) and c.func.attr in ("open", "append") and isinstance(c.func.value, ast.Name):
                continue
            raise Reject("unmodelled call in main: " + U(c)[:100])

    def bind(st):
        if isinstance(st, ast.Assign) and len(st.targets) == 1 and isinstance(st.targets[0], ast.Name):
            if st.targets[0].id in env and st.targets[0].id not in ("model_files",):
                env[st.targets[0].id] = None      # re-bound: no longer a known expression
            else:
                env[st.targets[0].id] = st.value
        elif isinstance(st, ast.AnnAssign) and isinstance(st.target, ast.Name) and st.value is not None:
            env[st.target.id] = st.value

    def walk(stmts, in_loop=None, conditional=False):
        for st in stmts:
            if isinstance(st, ast.Try):
                if st.finalbody or st.orelse:
                    raise Reject("try with else/finally in main")
                for h in st.handlers:
                    if not (h.body and isinstance(h.body[-1], ast.Raise)):
                        raise Reject("an except handler in main does not re-raise")
                    for b in h.body:
                        check_calls(b)
                walk(st.body, in_loop, conditional)
                continue
            if isinstance(st, ast.If):
                check_calls(st.test)
                walk(st.body, in_loop, True)
                walk(st.orelse, in_loop, True)
                continue
            cs = [U(c.func) for c in calls_in(st)]
            if "jsonschema.validate" in cs:
                if not isinstance(st, ast.For):
                    raise Reject("jsonschema.validate outside a loop over the model files: " + U(st)[:100])
                if conditional:
                    raise Reject("validation under a condition")
                if st.orelse or any(isinstance(x, (ast.Break, ast.Continue, ast.If, ast.Try, ast.While, ast.Return)) for b in st.body for x in ast.walk(b)):
                    raise Reject("validation loop with control flow")
                if not isinstance(st.target, ast.Name):
                    raise Reject("validation loop target")
                loopvar, it = st.target.id, U(st.iter)
                loaded = {loopvar} if it == state["models_list"] else set()
                vcall = None
                for b in st.body:
                    check_calls(b, ("jsonschema.validate",))
                    if isinstance(b, ast.Assign) and len(b.targets) == 1 and isinstance(b.targets[0], ast.Name) and U(b.value).startswith("json.load(" + loopvar + ".open("):
                        loaded.add(b.targets[0].id)
                    elif isinstance(b, ast.Expr) and isinstance(b.value, ast.Call) and U(b.value.func) == "jsonschema.validate":
                        vcall = b.value
                        if not (len(vcall.args) == 2 and not vcall.keywords and isinstance(vcall.args[0], ast.Name) and vcall.args[0].id in loaded):
                            raise Reject("jsonschema.validate arguments outside grammar: " + U(vcall))
                    elif (isinstance(b, ast.Expr) and isinstance(b.value, ast.Call) and isinstance(b.value.func, ast.Attribute) and b.value.func.attr == "append"
                          and len(b.value.args) == 1 and isinstance(b.value.args[0], ast.Name) and b.value.args[0].id in loaded):
                        if state["models_list"] not in (None, U(b.value.func.value)):
                            raise Reject("two model lists")
                        state["models_list"] = U(b.value.func.value)
                    elif isinstance(b, ast.Expr) and isinstance(b.value, ast.Call) and U(b.value.func).startswith("LOGGER."):
                        pass
                    else:
                        raise Reject("statement in the validation loop outside grammar: " + U(b)[:100])
                if it not in ("model_files", state["models_list"]):
                    raise Reject("validation loop iterates over " + it)
                state["schema_arg"] = vcall.args[1]
                state["schema_env"] = dict(env)
                effects.append("EValidate")
                continue
            if isinstance(st, ast.For) and U(st.iter) == "model_files" and not st.orelse:
                # a load-only loop (validation moved elsewhere)
                for b in st.body:
                    check_calls(b)
                    if (isinstance(b, ast.Expr) and isinstance(b.value, ast.Call) and isinstance(b.value.func, ast.Attribute) and b.value.func.attr == "append"):
                        state["models_list"] = U(b.value.func.value)
                continue
            if "model.create_lsp_model" in cs or "create_lsp_model" in cs:
                if conditional or in_loop:
                    raise Reject("create_lsp_model under a condition / in a loop")
                ok = (isinstance(st, (ast.Assign, ast.AnnAssign)) and isinstance(st.value, ast.Call) and U(st.value.func) in ("model.create_lsp_model", "create_lsp_model")
                      and len(st.value.args) == 1 and U(st.value.args[0]) == state["models_list"])
                if not ok:
                    raise Reject("create_lsp_model call outside grammar: " + U(st)[:100])
                tgt = st.targets[0] if isinstance(st, ast.Assign) else st.target
                state["spec"] = U(tgt)
                effects.append("ECreate")
                continue
            if any(c.endswith(".generate") for c in cs):
                if conditional or in_loop:
                    raise Reject("plugin call under a condition / in a loop")
                ok = (isinstance(st, ast.Expr) and isinstance(st.value, ast.Call) and len(st.value.args) >= 1)
                if not ok:
                    raise Reject("plugin call outside grammar: " + U(st)[:100])
                if U(st.value.args[0]) != state["spec"]:
                    raise Reject("the plugin is not called with the created model")
                effects.append("EPlugin")
                continue
            if isinstance(st, (ast.For, ast.While, ast.With)):
                raise Reject("loop/with outside grammar in main: " + U(st)[:80])
            if isinstance(st, (ast.Return, ast.Raise)) and not conditional:
                raise Reject("unconditional return/raise in main")
            check_calls(st)
            bind(st)

    walk([s for s in fn.body if not (isinstance(s, ast.Expr) and isinstance(s.value, ast.Constant))])
    if "schema_arg" not in state:
        root_obj, root_term = None, "SAny"      # no validation at all
    else:
        root_obj = schema_expr(state["schema_arg"], state["schema_env"], x_schema.load_file())
        try:
            root_term = x_schema.root_schema(root_obj)
        except x_schema.Reject as e:
            raise Reject("schema object passed by main: %s" % e)
    return effects, root_obj, root_term


def main(out, info_path=None):
    effects, root_obj, root_term = translate()
    txt = ("(* generated by lib/x_main.py from generator/__main__.py — do not edit *)\n"
           "From LSP Require Import Base JSchema Loader.\nOpen Scope string_scope.\n"
           "Definition main_effects : list eff := [%s].\n"
           "(* the object main hands to jsonschema.validate, read as a schema (definitions are in Gen.SchemaData.defs) *)\n"
           "Definition gate_root : schema := %s.\n" % ("; ".join(effects), root_term))
    write_if_changed(out, txt)
    info = {"effects": effects, "root_extra_keys": sorted(set(root_obj or {}) - {"$schema", "definitions"}), "validates": root_obj is not None}
    if info_path:
        write_if_changed(info_path, json.dumps({"info": info, "root": root_obj}, sort_keys=True) + "\n")
    print(json.dumps(info))


if __name__ == "__main__":
    try:
        main(*sys.argv[1:3])
    except (Reject, x_schema.Reject) as e:
        print("REJECT: %s" % e)
        sys.exit(3)
